"""C20 — End-to-end encrypted payloads are recovered exactly or rejected.

Theorems: lean/Abverif/Proofs/C20.lean over lean/Abverif/Model/Cryptobox.lean — proof RELATIVE to the AEAD hypotheses
(`BoxLaws`: correctness, ciphertext integrity, wrong key fails) and the inner-envelope codec law; NaCl and the
serializers are trusted.
Tie: two REAL ApplicationSessions (A = publisher/caller, B = subscriber/callee) per framework with REAL NaCl key rings,
joined through the in-memory router of vlib/wampx.py (each message serialised by a real serializer both ways). The
router stub injects the faults: every single-byte alteration position of each ciphertext (nonce, tag, body),
truncation/extension, swapped envelope URIs (subscription/registration id, `topic`/`procedure` detail, error URI,
RESULT payload of another call), wrong / missing keys come from the ring layouts.
Per exchange:
  * correspondence: (message shapes on the wire, handler/endpoint invocations, call outcome) == Lean model `cb.flow`
  * oracle (Spec statements, key selection taken from the Lean `getBox`): recovered exactly with matching keys and no
    fault; no marker string of the clear payload anywhere in the serialized bytes of an encrypted exchange; any fault
    => handler/endpoint not invoked, call fails with an ENC_* error
  * key selection: KeyRing._get_box on real rings (random prefix sets, set/delete, exact flag) == Lean `getBox`

Self-test (scratch copy of /repo/src, VERIF_REPO=/tmp/c1820m; quick tier, --no-proof; 2026-09-23). One edit each; "keys" are
the Violation keys of the replays written (replay = scenario + fault + framework + serializer + observation;
`./check C20 --replay <file>` reproduces: exit 1 mutated / 0 unchanged):
  M1  protocol.py INVOCATION: envelope-vs-inner URI comparison skipped (`if False:`)   -> exit 1; call:handler-invoked-despite-fault
  M2  protocol.py EVENT: `if topic != decoded_topic` skipped                            -> exit 1; pub:handler-invoked-despite-fault
  M3  protocol.py _exception_from_message: `if msg.error != decrypted_error` skipped    -> exit 1; error:altered-error-accepted
  M4  protocol.py EVENT: no `return` after a decode failure (deliver on decrypt failure) -> exit 1; pub:handler-invoked-despite-fault
  M5  protocol.py RESULT: `if enc_err: reject` disabled (resolve on decrypt failure)     -> exit 1; yield:altered-result-accepted
  M6  cryptobox.py _get_box: SHORTEST registered prefix instead of longest              -> exit 1; key-selection:not-longest-prefix,
        pub/call/yield:handler-invoked-despite-fault, call/yield:call-did-not-fail-with-encryption-error (8 replays)
  M7  protocol.py publish: `msg._args = args` kept on the sealed Publish                -> exit 0 (Publish.marshal ignores args when a
        payload is set: nothing changes on the wire — equivalent mutant)
  M7b cryptobox.py encode: payload = the plaintext envelope                             -> exit 1; */payload-not-recovered, clear-payload-on-the-wire (11)
  M7c protocol.py call: `if encoded_payload:` -> `if False:` (args kept, payload dropped) -> exit 1; call/yield/error:originator-sent-clear-although-key-covers-uri
  M8  cryptobox.py decode: box of the wrong role (`not is_originating`)                 -> exit 1; */payload-not-recovered ... (15, asymmetric layouts)
  M9  protocol.py success(): `if msg.enc_algo:` -> `if False:` (YIELD never encrypted)   -> exit 1; yield:clear-payload-on-the-wire, yield:altered-result-accepted
  M10 cryptobox.py _get_box: no default-key fallback                                    -> exit 1; */originator-sent-clear-although-key-covers-uri, key-selection:not-longest-prefix
  M12 protocol.py INVOCATION: `if enc_err and False:` (endpoint invoked after decrypt failure) -> exit 1; call/yield/error:handler-invoked-despite-fault ... (8)
  S1  (seeded, /verif/seeded/c20/patch.diff) protocol.py _exception_from_message: `if enc_err: return enc_err` -> `exc = enc_err`
        (the registry lookup then overwrites the encryption error when the CALLER mapped the envelope error URI to a class)
        -> exit 1; error:mapped-class-instead-of-encryption-error (replay: default-both, error URI com.app.error.bad mapped by
        @wamp.error to a class with a compatible constructor, ERROR ciphertext byte 0 xor 1, twisted/json: caller gets
        MappedErr1() instead of ApplicationError(ENC_DECRYPT_ERROR)); exit 0 on the unchanged tree. Missed before the error
        direction was run with caller-mapped error URIs (model: onErrorMapped, theorems *_rejected_mapped).
  R1-R3 (2026-09-23, after the U1 repairs; the model follows the repaired code) on the unrepaired tree the check reports
        yield-sent-in-clear-after-encode-failure (cbor), yield-encode-failure:error-reply-quotes-clear-result (json/msgpack/
        ubjson), error-reply-in-clear:error-uri-not-covered-by-key, error-path:encode-raises:no-reply — each with a replay
        that exits 0 on the repaired tree. A clear reply to an encrypted INVOCATION is accepted only as ONE text without
        marker and without kwargs (`text_only`).
  H1  harmless: `if not (proc == decrypted_proc)`                                        -> exit 0, silent
  H2  harmless: `return key.originator_box if is_originating else key.responder_box`     -> exit 0, silent
"""
import json
import os
import subprocess
from concurrent.futures import ThreadPoolExecutor
from pathlib import Path

from vlib import core

PROP = "C20"
PROOF_MODULES = ["Abverif.Proofs.C20"]
TRANSLATORS = []
W = Path(__file__).parent / "workers"
SERIALIZERS = ["json", "msgpack", "cbor", "ubjson"]
FRAMEWORKS = ["twisted", "asyncio"]
ENC = {"decrypt_error": "wamp.error.encryption.decrypt_error",
       "trusted_uri_mismatch": "wamp.error.encryption.trusted_uri_mismatch",
       "no_payload_codec": "wamp.error.no_payload_codec"}
MARK_A, MARK_K, MARK_R, MARK_E = "MARK-ARGS-7f3a91", "MARK-KWARGS-52c0de", "MARK-RESULT-a81b44", "MARK-ERROR-0e77f2"
TRUSTED = [
    "Lean 4.33 kernel; axioms of every theorem audited to be within {propext, Classical.choice, Quot.sound}",
    "AEAD hypotheses on the NaCl box (BoxLaws: unlock(lock)=id, ciphertext integrity, wrong key fails) and the law of the "
    "inner JSON envelope codec are HYPOTHESES of the theorems; PyNaCl/libsodium, pytrie and the json module are trusted",
    "hand-written Lean model Abverif/Model/Cryptobox.lean of KeyRing.set_key/_get_box/encode/decode and of the "
    "payload-transparency branches of ApplicationSession (publish/EVENT, call/INVOCATION, YIELD/RESULT, ERROR both ways)",
    "tie model<->code: differential run of two real sessions with real key rings through vlib/wampx.Router on both "
    "frameworks and the four serializers, faults injected by the router stub",
]
ASSUMPTIONS = [
    "the router passes payload/enc_algo/enc_serializer/enc_key through untouched unless it is the injected fault",
    "marker strings identify the clear payload in serialized bytes (all four serializers store strings as UTF-8)",
    "the texts of the ERROR replies that stand in for a payload are independent of the payload: two are literal (procedure / "
    "error URI only); the last-resort one quotes str() of the exception the payload codec raised, which for the JSON inner "
    "envelope names the offending type, not a value (checked with markers on the generated inputs, not proved)",
]
MANIFEST_ENTRY = {
    "technique": "Lean 4 theorems relative to abstract AEAD laws + differential tie through two real sessions with real NaCl "
                 "key rings, exhaustive single-byte ciphertext alteration positions",
    "text": "Proved in Lean, relative to the AEAD hypotheses (correctness, ciphertext integrity, wrong key fails) and the "
            "inner-envelope codec law: decode(encode) returns exactly (uri, args, kwargs) for matching key roles in all four "
            "directions; a sealed message carries no args/kwargs; any payload that is not a ciphertext sealed under the "
            "receiver's key is rejected with ENC_DECRYPT_ERROR (handler/endpoint not invoked, call fails), a genuine "
            "ciphertext under another envelope URI with ENC_TRUSTED_URI_MISMATCH, another key with ENC_DECRYPT_ERROR; a "
            "decoded payload is always one sealed for this very URI; _get_box selects the longest registered prefix, else "
            "the default key. No clear payload on the wire is proved in full, with no hypothesis: publish/call to a covered URI "
            "are sealed or raise; an encrypted INVOCATION is answered by a sealed YIELD or, when the result cannot be sealed, "
            "by an ERROR holding a fixed text (never the result); its ERROR reply is sealed, or - when no key covers the "
            "ERROR URI - keeps the URI and holds a fixed text instead of the arguments of the exception; when building the "
            "ERROR fails a last-resort ERROR with a fixed text is sent, so the call never stays pending. The model is tied to "
            "the code by running every scenario through two real "
            "sessions with real NaCl key rings on both frameworks and four serializers, altering every byte position of each "
            "ciphertext, swapping envelope URIs and keys, and searching all serialized bytes for the clear payload; a clear "
            "reply to an encrypted invocation must consist of one text without payload markers and no kwargs.",
    "note": "Level: proof relative to the AEAD hypotheses; NaCl (PyNaCl/libsodium), pytrie and the serializers are trusted, "
            "not verified. The hand model mirrors the code (checked by the differential run only). No open finding: the U1 "
            "defects (plain YIELD after an encode failure, fallback ERROR quoting the result, ERROR replies in clear when no "
            "key covers the error URI, no reply when encoding the ERROR fails) are repaired and their inputs run in every "
            "tier. The fixed texts are modelled as values the reply functions cannot compute from the payload; that the "
            "exception text of the inner codec quoted in the last-resort ERROR names no payload value is an assumption, "
            "checked on the generated inputs only. ERROR replies are still keyed by the error URI (the caller selects the "
            "key the same way); sealing them under the key of the procedure needs a protocol change. Not covered by the "
            "property: reflection/replay of a genuine ciphertext (Box is symmetric) — shown as an example in the proof file; and "
            "a downgrade: the rejection theorems are about messages that carry enc_algo - a message for a covered URI that arrives "
            "WITHOUT enc_algo (ciphertext replaced by clear arguments by the router) is delivered as a plain message, the "
            "handler sees encrypted = false (receive returns .plain); the property speaks about altered ciphertexts only.",
}

# --------------------------------------------------------------------------- rings

def K(i, roles="both"):
    return {"id": i, "roles": roles}


def ring(default=None, prefix=()):
    return {"default": default, "prefix": [list(p) for p in prefix]}


def keytok(k):
    return {"both": f"{k['id']}+{k['id']}", "orig": f"{k['id']}+-", "resp": f"-+{k['id']}"}[k["roles"]]


def ringtok(r):
    if r is None:
        return "~"
    d = keytok(r["default"]) if r["default"] else "~"
    e = ";".join(f"{p}={keytok(k) if k else '~'}" for p, k in r["prefix"]) or "-"
    return f"{d}/{e}"


LAYOUTS = {
    # name: (ringA, ringB, [(uri, uri2)], sweep?)
    "default-both": (ring(K("X")), ring(K("X")), [("com.app.item1", "com.app.item2")], True),
    "default-asym": (ring(K("X", "orig")), ring(K("X", "resp")), [("com.app.item1", "com.app.item2")], False),
    "prefix": (ring(None, [("com.secret", K("X"))]), ring(None, [("com.secret", K("X"))]),
               [("com.secret.p1", "com.secret.p2"), ("com.secretive", "com.secret.p2"), ("com.public.p1", "com.public.p2"),
                ("com.secret.p1", "com.public.p2")], True),
    "layers": (ring(K("Z"), [("com.secret", K("X")), ("com.secret.deep", K("Y"))]),
               ring(K("Z"), [("com.secret.deep", K("Y")), ("com.secret", K("X"))]),
               [("com.secret.deep.p1", "com.secret.p2"), ("com.secret.p1", "com.secret.deep.p2"), ("com.other.p1", "com.secret.p2")], False),
    "layers-mismatch": (ring(K("Z"), [("com.secret", K("X")), ("com.secret.deep", K("Y"))]),
                        ring(K("Z"), [("com.secret", K("X"))]),
                        [("com.secret.deep.p1", "com.secret.p2")], False),
    # procedure keys match, the keys for the ERROR namespace do not (wrong key on the reply only)
    "error-key-mismatch": (ring(None, [("com.secret", K("X")), ("com.errs", K("W"))]),
                           ring(None, [("com.secret", K("X")), ("com.errs", K("Y"))]),
                           [("com.secret.p1", "com.secret.p2")], False),
    "wrong-key": (ring(K("X")), ring(K("W")), [("com.app.item1", "com.app.item2")], False),
    "orig-only-both": (ring(K("X", "orig")), ring(K("X", "orig")), [("com.app.item1", "com.app.item2")], False),
    "resp-only-A": (ring(K("X", "resp")), ring(K("X", "resp")), [("com.app.item1", "com.app.item2")], False),
    "no-codec-B": (ring(K("X")), None, [("com.app.item1", "com.app.item2")], False),
    "no-codec-A": (None, ring(K("X")), [("com.app.item1", "com.app.item2")], False),
    "B-prefix-elsewhere": (ring(K("X")), ring(None, [("org.else", K("X"))]), [("com.app.item1", "com.app.item2")], False),
}
ERROR_URIS = {
    "default-both": ["com.app.error.bad"],
    "default-asym": ["com.app.error.bad"],
    "prefix": ["com.secret.error.bad", "com.other.error", "plain"],
    "layers": ["com.secret.deep.err", "com.secret.err", "plain"],
    "error-key-mismatch": ["com.errs.bad"],
}
# a second error URI (swap / replay target of the envelope) per layout, covered by the same key as the first error URI
ERROR_URI2 = {"default-both": "com.app.error.other", "default-asym": "com.app.error.other", "prefix": "com.secret.error.other",
              "layers": "com.secret.deep.other", "error-key-mismatch": "com.errs.other"}
# the CALLER's error URI -> class registry variants: (how the first / second error URI is registered, constructor kind)
CALLER_MAPS = [("decor", "explicit", "any"), ("explicit", "decor", "noargs")]


def gen_scenarios(ctx, plen_guess=140):
    quick = ctx.tier == "quick"
    scs = []
    for name, (ra, rb, uris, sweep) in LAYOUTS.items():
        for (u, u2) in uris:
            for d in ("pub", "call", "yield", "error"):
                eus = ERROR_URIS.get(name, ["com.app.error.bad"]) if d == "error" else [None]
                for eu in eus:
                    tampers = [["none"], ["garble", 0, 1], ["garble", 30, 0x80], ["garble", 60, 0xff], ["trunc", 1], ["extend"], ["algo"], ["ser"]]
                    tampers += [["swap", "sub"], ["swap", "detail"]] if d in ("pub", "call") else [["swap", "x"]]
                    if sweep and uris.index((u, u2)) == 0 and (eu is None or eu == eus[0]):
                        masks = [1] if quick else [1, 0x80, 0xff]
                        for m in masks:
                            tampers += [["garble", p, m] for p in range(plen_guess)]
                        if not quick:
                            tampers += [["garble", p, ctx.rng.randrange(1, 256)] for p in range(plen_guess)]
                            tampers += [["trunc", n] for n in (2, 16, 24, 40, 41)]
                    sc = {"layout": name, "dir": d, "ringA": ra, "ringB": rb, "uri": u, "uri2": u2, "bad": False,
                          "tampers": tampers, "ser": "all"}
                    if d == "error":
                        sc["error_kind"] = "plain" if eu == "plain" else "app"
                        sc["error_uri"] = "wamp.error.runtime_error" if eu == "plain" else eu
                    scs.append(sc)
                    # the same error exchanges with the error URIs MAPPED to exception classes on the caller
                    # (decorated / define()d; constructor compatible / incompatible with the payload)
                    if d == "error" and name in ERROR_URI2 and eu == eus[0] and uris.index((u, u2)) == 0:
                        for how1, how2, ck in CALLER_MAPS:
                            tm = [x for x in tampers if x[0] != "garble"] + [["garble", 0, 1], ["garble", 30, 0x80], ["garble", 60, 0xff]]
                            if sweep and ck == "any":
                                tm = tampers
                            scs.append(dict(sc, tampers=tm, error_uri2=ERROR_URI2[name],
                                            caller_map=[[sc["error_uri"], how1, ck, "MappedErr1"],
                                                        [ERROR_URI2[name], how2, ck, "MappedErr2"]]))
            # payloads the inner JSON envelope cannot serialise (an aware datetime); only CBOR can carry them at all
            if name in ("default-both", "prefix", "layers", "no-codec-A"):
                for d in ("pub", "call", "yield", "error"):
                    sc = {"layout": name, "dir": d, "ringA": ra, "ringB": rb, "uri": u, "uri2": u2, "bad": True,
                          "tampers": [["none"]], "ser": "cbor"}
                    if d == "error":
                        sc["error_kind"] = "app"
                        sc["error_uri"] = ERROR_URIS.get(name, ["com.app.error.bad"])[0]
                    scs.append(sc)
                    if d == "error" and name == "prefix":
                        scs.append(dict(sc, error_uri="com.other.error"))
    # the same unserialisable result / exception arguments on the serializers that cannot carry the value either: the reply
    # is an ERROR with a fixed text, which every serializer carries
    for ser in ("json", "msgpack", "ubjson"):
        ra, rb, uris, _ = LAYOUTS["default-both"]
        for d in ("yield", "error"):
            sc = {"layout": "default-both", "dir": d, "ringA": ra, "ringB": rb, "uri": uris[0][0], "uri2": uris[0][1],
                  "bad": True, "tampers": [["none"]], "ser": ser}
            if d == "error":
                sc["error_kind"] = "app"
                sc["error_uri"] = ERROR_URIS["default-both"][0]
            scs.append(sc)
    return scs


def gen_lookups(ctx):
    rng = ctx.rng
    n = 60 if ctx.tier == "quick" else 600
    prefixes = ["c", "co", "com", "com.", "com.a", "com.a.", "com.a.b", "com.ab", "com.a.b.c", "com.b", "org", "com.secret",
                "com.secret.deep"]
    uris = prefixes + ["com.a.b.c.d", "com.abc", "com.secretive", "com.secret.deep.x", "org.x", "x", "comx"]
    ids = ["P", "Q", "R", "S", "T", "U"]
    out = []
    for _ in range(n):
        entries = []
        for _ in range(rng.randrange(0, 6)):
            p = rng.choice(prefixes)
            if rng.random() < 0.15:
                entries.append([p, None])
            else:
                entries.append([p, K(rng.choice(ids), rng.choice(["both", "both", "orig", "resp"]))])
        d = K(rng.choice(ids), rng.choice(["both", "orig", "resp"])) if rng.random() < 0.5 else None
        qs = [[rng.choice("or"), rng.choice(uris), rng.random() < 0.3] for _ in range(12)]
        out.append({"ring": ring(d, entries), "queries": qs})
    return out


# --------------------------------------------------------------------------- model lines / mapping

def tamper_tok(t, sc):
    if t[0] == "none":
        return "none"
    if t[0] == "swap":
        return "swap:" + (sc.get("error_uri2") or sc["uri2"] if sc["dir"] == "error" else sc["uri2"])
    if t[0] in ("algo", "ser"):
        return t[0]
    return "garble"


def flow_line(sc, t):
    l = f"cb.flow {sc['dir']} {ringtok(sc['ringA'])} {ringtok(sc['ringB'])} {sc['uri']} {1 if sc['bad'] else 0} {tamper_tok(t, sc)}"
    if sc["dir"] == "error":
        l += " " + sc["error_uri"]
        if sc.get("caller_map"):
            l += " " + ";".join(f"{u}={c}:{k}" for u, _, k, c in sc["caller_map"])
    return l


def parse_flow(ans):
    return dict(p.split("=", 1) for p in ans.split(" "))


def args_tok(a):
    if a in ([MARK_A], [MARK_R], [MARK_E]):
        return "a"
    if len(a) == 2 and a[0] in (MARK_A, MARK_R, MARK_E) and a[1] == {"$obj": "datetime"}:
        return "BAD"
    if a == ["$text"]:
        return "text"
    if not a:
        return "~"
    return "?" + json.dumps(a)


def kw_tok(k):
    if k in ({"mk": MARK_K}, {"ek": MARK_K}):
        return "k"
    if not k:
        return "~"
    return "?" + json.dumps(k, sort_keys=True)


def observed_view(sc, obs):
    """the observation rendered in the vocabulary of `cb.flow`"""
    v = {}
    s = obs["sent"]
    if s is None:
        v["S"] = "nothing"
    elif isinstance(s, str):
        v["S"] = "raised"
    else:
        v["S"] = "sealed" if s["sealed"] else "clear"
        if s["sealed"] and s["clear_args"]:
            v["S"] = "sealed+clear-args"
    if v["S"] == "raised":
        # the API call raised: nothing was sent, nothing else happens
        for k in {"pub": "R", "call": "IEO", "yield": "IYO", "error": "IEO"}[sc["dir"]]:
            v[k] = "-" if not obs["deliver"] and obs["reply"] is None else "unexpected-activity"
        return v
    dl = obs["deliver"]
    if len(dl) > 1:
        inv = "multiple"
    elif dl:
        inv = f"invoked:{args_tok(dl[0][1])}:{kw_tok(dl[0][2])}:{1 if dl[0][3] == 'cryptobox' else 0}"
    else:
        inv = None
    rep = obs["reply"]
    oc = obs["outcome"]

    def outcome_tok():
        if oc is None:
            return "-"
        if oc[0] == "pending":
            return "pending"
        if oc[0] == "ok":
            return f"result:{args_tok(oc[1]['results'])}:{kw_tok(oc[1]['kwresults'])}"
        if oc[1] != "ApplicationError":
            return f"user:{oc[1]}:{args_tok(oc[3])}:{kw_tok(oc[4])}"
        return f"err:{oc[2]}:{args_tok(oc[3])}:{kw_tok(oc[4])}"
    if sc["dir"] == "pub":
        v["R"] = inv or "ignored"
    elif sc["dir"] == "call":
        if inv:
            v["I"] = inv
            v["E"] = "-"
            v["O"] = "-"
        else:
            v["I"] = "encerror:" + (rep["error"] if rep and rep["kind"] == "Error" else "none")
            v["E"] = "-" if rep is None else ("sealed" if rep["sealed"] else "clear")
            v["O"] = outcome_tok()
    elif sc["dir"] == "yield":
        v["I"] = inv or ("encerror:" + (rep["error"] if rep and rep["kind"] == "Error" else "none"))
        if inv:
            v["Y"] = "-" if rep is None else (("sealed" if rep["sealed"] else "clear") if rep["kind"] == "Yield" else "error:" + str(rep["error"]))
            v["O"] = outcome_tok()
        else:
            v["Y"] = "-"
            v["O"] = "-"
    else:
        v["I"] = inv or ("encerror:" + (rep["error"] if rep and rep["kind"] == "Error" else "none"))
        if inv:
            v["E"] = "raised" if rep is None else ("sealed" if rep["sealed"] else "clear")
            v["O"] = "-" if (rep is None and oc == ["pending"]) else outcome_tok()
        else:
            v["E"] = "-"
            v["O"] = "-"
    return v


def model_view(sc, m):
    """the model's answer in the same vocabulary (what cannot be observed is folded)"""
    v = dict(m)

    def fold_out(o):
        if o.startswith("encfailed:"):
            return f"err:{ENC[o.split(':')[1]]}:text:~"
        if o.startswith("apperror:"):
            return "err:" + o[len("apperror:"):]
        if o.startswith("usererror:"):
            return "user:" + o[len("usererror:"):]
        return o
    if "R" in v and v["R"].startswith("ignored"):
        v["R"] = "ignored"
    if "I" in v and v["I"].startswith("encerror:"):
        v["I"] = "encerror:" + ENC[v["I"].split(":")[1]]
    if "O" in v:
        v["O"] = fold_out(v["O"])
    if sc["dir"] == "call" and v.get("I", "").startswith("invoked"):
        v["E"], v["O"] = "-", "-"
    if sc["dir"] == "error" and sc.get("error_kind") == "plain" and v.get("O", "").startswith("err:"):
        # a plain ValueError has no kwargs
        parts = v["O"].split(":")
        parts[-1] = "~"
        v["O"] = ":".join(parts)
    return v


# --------------------------------------------------------------------------- run

def run(ctx):
    res = core.Result()
    res.rule = ("scenario = key-ring layout (12: default key both/asymmetric, per-prefix, layered prefixes with default, layered "
                "with a missing deeper key at B, wrong key, originator-only on both sides, responder-only, no codec at A / at B, "
                "prefix elsewhere) x URI pairs x direction {publish/event, call/invocation, yield/result, error} x error URI "
                "{covered, not covered, plain exception; unmapped, or mapped on the CALLER to a decorated / define()d class with a compatible / incompatible constructor} x fault {none, byte alteration, truncation, extension, enc_algo / enc_serializer replaced by another valid identifier, swapped "
                "envelope via id / via detail / error URI / foreign RESULT payload}; the two sweep layouts alter EVERY byte "
                "position of the ciphertext (quick: xor 0x01; thorough: 0x01, 0x80, 0xff, random) in every direction; plus "
                "payloads the inner envelope cannot serialise (CBOR transport). Each exchange runs on "
                "{json,msgpack,cbor,ubjson} x {twisted,asyncio}. non-trivial = distinct (layout, uri, direction, error uri, "
                "fault class, bad) with an encrypted first leg")
    scs = gen_scenarios(ctx)
    lookups = gen_lookups(ctx)
    only = None
    if ctx.replay_path:
        rp = json.loads(Path(ctx.replay_path).read_text())["replay"]
        if "scenario" in rp:
            sc = dict(rp["scenario"])
            sc["tampers"] = [rp["tamper"]]
            scs = [sc]
            only = (rp["fw"], rp["serializer"])
            lookups = []
        else:
            scs = []
            lookups = [rp["lookup"]]

    jobs = []
    for fw in FRAMEWORKS:
        for ser in SERIALIZERS:
            if only and (fw, ser) != only:
                continue
            mine = [s for s in scs if s["ser"] in ("all", ser) or only]
            # split the long sweeps so that the 16 cores are used
            chunks = [[], []]
            for i, s in enumerate(mine):
                chunks[i % 2].append(s)
            for ci, ch in enumerate(chunks):
                if ch or (ci == 0 and lookups and ser == "json"):
                    jobs.append({"fw": fw, "serializer": ser, "scenarios": ch,
                                 "lookups": lookups if (ser == "json" and ci == 0) else []})

    def runjob(job):
        e = dict(os.environ)
        e["PYTHONPATH"] = os.pathsep.join([str(core.REPO / "src"), str(core.VERIF)])
        e.setdefault("PYTHONHASHSEED", "0")
        e["AUTOBAHN_VERIF"] = "1"
        p = subprocess.run([core.PY, str(W / "c20_worker.py")], input=json.dumps(job), env=e, capture_output=True,
                           text=True, cwd="/", timeout=3000)
        if p.returncode != 0:
            raise RuntimeError("c20 worker failed: " + p.stderr[-3000:])
        return json.loads(p.stdout)
    with ThreadPoolExecutor(16) as ex:
        outs = list(ex.map(runjob, jobs))
    ctx.log(f"workers done: {sum(o['exchanges'] for o in outs)} exchanges in {len(jobs)} processes")

    # ---- model answers (one line per distinct (scenario, tamper class)) and key selections for the oracle
    lines = {}
    for sc in scs:
        for t in sc["tampers"]:
            lines.setdefault(flow_line(sc, t), None)
        for role, u in (("o", sc["uri"]), ("r", sc["uri"]), ("r", sc["uri2"]), ("o", sc["uri2"])):
            lines.setdefault(f"cb.box {ringtok(sc['ringA'])} {role} {u} 0", None)
            lines.setdefault(f"cb.box {ringtok(sc['ringB'])} {role} {u} 0", None)
        if sc["dir"] == "error":
            for u in (sc["error_uri"], sc["uri2"], sc.get("error_uri2") or sc["uri2"]):
                lines.setdefault(f"cb.box {ringtok(sc['ringA'])} o {u} 0", None)
                lines.setdefault(f"cb.box {ringtok(sc['ringB'])} r {u} 0", None)
    lk_lines = []
    for lk in lookups:
        for role, u, exact in lk["queries"]:
            lk_lines.append(f"cb.box {ringtok(lk['ring'])} {role} {u} {1 if exact else 0}")
    keys = list(lines)
    ans = ctx.driver.run(keys + lk_lines)
    for k, a in zip(keys, ans):
        lines[k] = a
    lk_ans = ans[len(keys):]
    res.count("driver_lines", len(keys) + len(lk_lines))

    seen = set()

    def violation(key, what, replay):
        if key in seen:
            return
        seen.add(key)
        res.violations.append(core.Violation(key, what, replay))

    def box(r, role, u):
        return lines[f"cb.box {ringtok(r)} {role} {u} 0"]

    for job, o in zip(jobs, outs):
        fw, ser = job["fw"], job["serializer"]
        for sc, obs_list in zip(job["scenarios"], o["results"]):
            for t, obs in zip(sc["tampers"], obs_list):
                res.evaluations += 1
                res.count("dir:" + sc["dir"])
                res.count("layout:" + sc["layout"])
                res.count("fault:" + t[0])
                res.count(f"{fw}/{ser}")
                rep = {"scenario": {k: v for k, v in sc.items() if k != "tampers"}, "tamper": t, "fw": fw, "serializer": ser,
                       "observed": obs}
                ov = observed_view(sc, obs)
                if not sc.get("oracle_only"):
                    mv = model_view(sc, parse_flow(lines[flow_line(sc, t)]))
                    if ov != mv:
                        res.correspondence_breaks.append({"stream": "flow", "fw": fw, "serializer": ser,
                                                          "scenario": rep["scenario"], "tamper": t, "observed": ov, "model": mv,
                                                          "raw": obs})
                if isinstance(obs["sent"], dict) and obs["sent"]["sealed"]:
                    res.distinct.add((sc["layout"], sc["uri"], sc["dir"], sc.get("error_uri"), t[0], sc["bad"]))
                if obs["router_errors"]:
                    violation(f"{sc['dir']}:exception-left-onMessage", f"{fw}/{ser} {sc['layout']} {t}: {obs['router_errors']}", rep)
                for key, what in oracle(sc, t, obs, box):
                    violation(key, f"{fw}/{ser} layout={sc['layout']} dir={sc['dir']} uri={sc['uri']} fault={t}: {what}", rep)
                if len(res.samples) < 5 and t[0] != "none" and res.evaluations % 211 == 7:
                    res.sample({"layout": sc["layout"], "dir": sc["dir"], "fault": t, "fw": fw, "serializer": ser, "observed": ov})
                res.traces_validated += 1
        # key selection stream
        if o.get("lookups"):
            j = 0
            for lk, got in zip(lookups, o["lookups"]):
                for q, g in zip(lk["queries"], got):
                    res.evaluations += 1
                    res.count("key_lookups")
                    exp = lk_ans[j]
                    j += 1
                    if g != exp:
                        # the Spec of key selection is `longest_prefix_key` (the model's getBox); exact lookups are not
                        # used by the session, so only the prefix form is a property violation
                        if not q[2]:
                            violation("key-selection:not-longest-prefix", f"{fw}: ring {ringtok(lk['ring'])} query {q}: real {g}, longest-prefix spec {exp}",
                                      {"lookup": {"ring": lk["ring"], "queries": [q]}, "real": g, "spec": exp})
                        else:
                            res.correspondence_breaks.append({"stream": "key-lookup-exact", "ring": ringtok(lk["ring"]), "query": q,
                                                              "real": g, "model": exp})
    res.notes.append(f"{len(scs)} scenarios, {sum(len(s['tampers']) for s in scs)} (scenario, fault) pairs per (framework, serializer) "
                     f"[bad-payload scenarios on cbor only]; {len(lookups)} random key rings x 12 lookups")
    return res


def text_only(rep):
    """a clear reply whose only content is one text without any marker"""
    a, k = rep.get("args"), rep.get("kwargs")
    return (not rep["sealed"] and k == {} and isinstance(a, list) and len(a) == 1 and isinstance(a[0], str)
            and not any(mk in a[0] for mk in (MARK_A, MARK_K, MARK_R, MARK_E)))


def oracle(sc, t, obs, box):
    """the Spec statements evaluated on one observed exchange -> [(key, what)]"""
    out = []
    d = sc["dir"]
    sent = obs["sent"]
    if not isinstance(sent, dict):
        if not sc["bad"]:
            out.append((f"{d}:api-call-raised-or-nothing-sent", f"publish/call of a serialisable payload: {sent}"))
        return out
    # the yield/swap exchange observed is the call to uri2 (whose RESULT got the payload of a RESULT for uri)
    call_uri = sc["uri2"] if (d == "yield" and t[0] == "swap") else sc["uri"]
    if d == "yield" and t[0] == "swap" and not obs.get("swapped"):
        t = ["none"]
    kA = box(sc["ringA"], "o", call_uri)
    if sc["ringA"] is not None and kA != "-" and not sent["sealed"]:
        out.append((f"{d}:originator-sent-clear-although-key-covers-uri", f"key {kA} covers {call_uri} but the {sent['kind']} is not sealed"))
    if sent["sealed"] and sent["clear_args"]:
        out.append((f"{d}:sealed-message-carries-args", "payload set and args/kwargs present"))
    if not sent["sealed"]:
        return out      # a clear exchange (no key covers the URI): nothing is promised
    # ---- the exchange is encrypted
    first_leg_fault = t[0] != "none" and d in ("pub", "call")
    env1 = sc["uri2"] if (first_leg_fault and t[0] == "swap") else call_uri
    kB = box(sc["ringB"], "r", env1) if sc["ringB"] is not None else "-"
    dl = obs["deliver"]
    delivered_ok = (len(dl) == 1 and dl[0][0] == call_uri and args_tok(dl[0][1]) in ("a", "BAD") and kw_tok(dl[0][2]) == "k"
                    and dl[0][3] == "cryptobox")
    if first_leg_fault or kB != kA:
        # tamper_rejected / uri_mismatch_rejected / wrong_key_rejected
        if dl:
            out.append((f"{d}:handler-invoked-despite-fault", f"handler/endpoint invoked {dl} although fault={t} keyA={kA} keyB={kB}"))
        if d != "pub":
            oc = obs["outcome"]
            if not (oc and oc[0] == "err" and oc[2] in ENC.values()):
                out.append((f"{d}:call-did-not-fail-with-encryption-error", f"call outcome {oc}"))
        leaks = [l for l in obs["leaks"]]
        if leaks:
            out.append((f"{d}:clear-payload-on-the-wire", f"marker strings found in {leaks}"))
        return out
    # ---- first leg fine: recovered exactly
    if not delivered_ok:
        out.append((f"{d}:payload-not-recovered", f"deliveries {dl}"))
    oc = obs["outcome"]
    rep = obs["reply"]
    if d == "yield":
        if sc["bad"]:
            # the result cannot be sealed: it must not leave at all — an ERROR holding a text and nothing of the result
            if rep and rep["kind"] == "Yield" and not rep["sealed"]:
                out.append(("yield-sent-in-clear-after-encode-failure", f"reply {rep}, leaks {obs['leaks']}"))
            elif obs["leaks"]:
                out.append(("yield-encode-failure:error-reply-quotes-clear-result", f"reply {rep}, leaks {obs['leaks']}"))
            elif rep is None:
                out.append(("yield-encode-failure:no-reply", f"neither YIELD nor ERROR was sent, call outcome {oc}"))
            elif rep["kind"] == "Error":
                if not text_only(rep):
                    out.append(("yield-encode-failure:error-reply-carries-arguments", f"reply {rep}"))
                if not (oc and oc[0] == "err"):
                    out.append(("yield-encode-failure:call-did-not-fail", f"outcome {oc}"))
            return out
        if t[0] == "none":
            if not (oc and oc[0] == "ok" and oc[1]["results"] == [MARK_R]):
                out.append(("yield:result-not-recovered", f"outcome {oc}"))
        else:
            if not (oc and oc[0] == "err" and oc[2] in ENC.values()):
                out.append(("yield:altered-result-accepted", f"outcome {oc}"))
    if d == "error":
        eu = sc["error_uri"]
        kBe = box(sc["ringB"], "r", eu)
        if rep is None:
            out.append(("error-path:encode-raises:no-reply", f"no ERROR was sent, call outcome {oc}"))
            return out
        if not rep["sealed"]:
            # a clear ERROR answering an encrypted INVOCATION may hold a text and nothing of the exception: no args beyond
            # that text, no kwargs (their names are payload too), no marker anywhere in its octets
            if kBe == "-":
                if not text_only(rep) or obs["leaks"]:
                    out.append(("error-reply-in-clear:error-uri-not-covered-by-key", f"ERROR {rep} clear although the INVOCATION was encrypted; leaks {obs['leaks']}"))
            elif not sc["bad"] or not text_only(rep) or obs["leaks"]:
                # a key covers the ERROR URI: only arguments the inner envelope cannot hold excuse a clear (text) reply
                out.append(("error:reply-clear-although-key-covers-error-uri", f"ERROR {rep}; leaks {obs['leaks']}"))
            if not (oc and oc[0] == "err"):
                out.append(("error:call-did-not-fail", f"outcome {oc}"))
            return out
        env = (sc.get("error_uri2") or sc["uri2"]) if t[0] == "swap" else eu
        kAe = box(sc["ringA"], "o", env)
        cmap = {u: (c, k) for u, _, k, c in sc.get("caller_map", [])}
        if t[0] == "none" and kAe == kBe:
            want_kw = {} if sc.get("error_kind") == "plain" else {"ek": MARK_K}
            if eu in cmap and cmap[eu][1] == "any":
                # C18: the class the caller registered for the URI, built from exactly the decrypted arguments
                good = bool(oc and oc[0] == "err" and oc[1] == cmap[eu][0] and args_tok(oc[3]) in ("a", "BAD") and oc[4] == want_kw)
            else:
                good = bool(oc and oc[0] == "err" and oc[1] == "ApplicationError" and oc[2] == eu
                            and args_tok(oc[3]) in ("a", "BAD") and oc[4] == want_kw)
            if not good:
                out.append(("error:not-recovered", f"outcome {oc}"))
        else:
            # an explicit encryption error — never the class mapped to the envelope URI, never foreign / empty arguments
            if not (oc and oc[0] == "err" and oc[1] == "ApplicationError" and oc[2] in ENC.values()):
                key = "error:mapped-class-instead-of-encryption-error" if (oc and oc[0] == "err" and oc[1] != "ApplicationError") \
                    else "error:altered-error-accepted"
                out.append((key, f"envelope error URI {env} (caller maps it to {cmap.get(env)}), fault {t}: call outcome {oc}"))
    if obs["leaks"] and not (d == "error" and rep and not rep["sealed"]):
        out.append((f"{d}:clear-payload-on-the-wire", f"marker strings found in {obs['leaks']}"))
    return out

