"""C02 — incoming byte streams are judged exactly as RFC 6455 prescribes."""
import json
from pathlib import Path

from vlib import core
from harness import wsgen, wsrun, wsoracle

PROP = "C02"
PROOF_MODULES = ["Abverif.Proofs.Lemmas.HeaderTable", "Abverif.Proofs.C02", "Abverif.Proofs.Lemmas.WsFrame", "Abverif.Proofs.Lemmas.WsExt", "Abverif.Proofs.Lemmas.WsSeg", "Abverif.Proofs.Lemmas.WsSeg2", "Abverif.Proofs.Lemmas.WsData", "Abverif.Proofs.WsSegmentation", "Abverif.Proofs.Lemmas.WsJudge", "Abverif.Proofs.Lemmas.WsJudge2", "Abverif.Proofs.WsRefinement", "Abverif.Proofs.Lemmas.WsEncode", "Abverif.Proofs.WsRoundtrip", "Abverif.Proofs.C05", "Abverif.Proofs.WsReach", "Abverif.Proofs.WsJudgeProps", "Abverif.Proofs.WsPingPong", "Abverif.Proofs.WsUtf8Bridge", "Abverif.Proofs.WsFailByClose"]
MANIFEST_ENTRY = {
    "technique": 'Lean 4 theorems (kernel-checked header table over all 65 536 first-two-octet values x 32 contexts, length and close-code rules) + exhaustive header sweep and generated streams against the RFC judge',
    "text": 'Proved: header_table - in every receiver context the processData cascade flags a header iff RFC 6455 5.2-5.5 / RFC 7692 6 forbid it (flags_table by decide +kernel, lifted to all octet pairs); extended-length rules; close-code rule = RFC 7.4 (against the code list). The receive model is compared read-by-read with real protocol objects (both frameworks); the real code is compared with the whole-stream Spec judge (WsSpec.judge) on every header pair in 32 contexts (thorough: all 65 536; quick: stratified) and on near-valid frame sequences under 9 segmentations each, incl. cuts after octet 1/2/3 of every header. Proved (Proofs/WsRefinement.lean): recv_refines_judge - a freshly opened endpoint (failByDrop=True) fed any octet stream in any non-empty reads ends in the state the frame-by-frame RFC 6455 judge WsSpec.judge prescribes for the whole stream: the delivered messages/pings/pongs are exactly the judge events (recv_events), the connection is OPEN iff the verdict is ok, failed-and-dropped iff it is fail, and a legal peer close frame is taken in (code, reason, clean close, server drops, client waits) and whatever follows it is discarded (after the repair 25c063cd of the data-after-close defect this holds for both roles without side condition); by induction over frames with an abstraction relation (Rel) between engine state and judge state, per-frame lemmas for header (processHeader_run + header_table), payload incl. unmasking and incremental UTF-8 (payload_refines), limits (overLimit_eq), ping/pong/close (control_refines). Proved (Proofs/WsJudgeProps.lean): judge_events_ok - for every octet stream every event the judge lets through is legal (message within the size limit, uncompressed text valid UTF-8, ping/pong at most 125 octets, close code legal and reason valid UTF-8 of at most 123 octets), transferred to the engine for every stream and segmentation: delivered_events_ok, delivered_text_valid, delivered_ping_short. Proved (Proofs/WsSegmentation.lean): segmentation_independent - for failByDrop=True (the default) any two ways of cutting one octet stream into non-empty reads leave the engine in the same state, or both runs closed the connection with the same history (same events delivered, same octets written, same drop); the proof is by a loop lemma over processData (drain_seg), payload compositionality incl. incremental UTF-8 and unmasking (consume_append), header prefix-stability (processHeader_seg) and termination of the while loop (drain_fuel: the fuel of the model loop is never exhausted); LiveWF is an invariant of EVERY operation (step_LiveWF, run_LiveWF in Proofs/WsReach.lean: API calls, timers, loss, reads), so segmentation_independent_reachable holds in every state reachable from a fresh connection by any history. For failByDrop=False segmentation independence is false of the code (known finding F6) and is not claimed. Each ping is answered with a pong carrying the same payload: ping_answered_same_payload (Proofs/WsPingPong.lean) - on an OPEN connection handling a ping of at most 125 octets (all the engine ever delivers: delivered_ping_short) tells the application and produces exactly one frame, opcode 10, with that payload, appended to the octets produced so far; what a judge reads back from it is judgeStep_encodeFrame. What failing means is proved at the function every violation goes through (Proofs/WsFailByClose.lean): with failByDrop off an OPEN connection records exactly one close frame with the status code of the violation (1002 protocol, 1007 payload) and no reason and becomes CLOSING (fail_by_close_announces), with failByDrop on nothing is sent and the connection is dropped with abort and unclean (fail_by_drop_drops), a second violation while CLOSING drops (second_violation_drops); there is no whole-stream refinement theorem for failByDrop off (open finding F6). The UTF-8 automaton shared by engine and judge (utf8Valid) is the RFC 3629 grammar of C09: utf8Valid_iff_WF (Proofs/WsUtf8Bridge.lean; the two automata agree state by state for all 256 octets, then dfa_accepts_iff_WF), so delivered_text_valid is about RFC 3629 strings.',
    "note": 'Trusted: Lean kernel; model tied by differential execution; the Spec judge is hand-written from the RFC; UTF-8 validator itself is C09 (pure-Python validator selected here).',
}
TRUSTED = [
    "Lean 4.33 kernel; axioms of every theorem within {propext, Classical.choice, Quot.sound}",
    "hand-written model Abverif/Model/Ws.lean of processData/onFrame*/processControlFrame/onCloseFrame/_fail_connection; "
    "tied to the code by running the same feed scripts on real Twisted and asyncio protocol objects (exact comparison of "
    "callbacks, bytes written, drops, onClose arguments and state after every read)",
    "spec Abverif/Model/WsSpec.lean (frame-by-frame RFC 6455 judge) — the failing-input search compares the real code with it directly",
    "txaio/Twisted/asyncio scheduling via virtual clocks; UTF-8 validator itself is C09's",
]
ASSUMPTIONS = ["connection already OPEN (handshake is C07)", "pure-Python UTF-8 validator selected (NVX is tied in C09)"]


def contexts(tier):
    ctxs = []
    for srv in (1, 0):
        for fbd in (1, 0):
            ctxs.append({"srv": srv, "fbd": fbd})
            ctxs.append({"srv": srv, "fbd": fbd, "pmce": 1})
    # inside-message contexts are produced by a prefix frame
    return ctxs


def header_sweep(ctx, res):
    """all (quick: a stratified subset of) 65 536 first-two-octet values in every receiver context"""
    rng = ctx.rng
    pairs = []
    if ctx.tier == "thorough":
        pairs = [(a, b) for a in range(256) for b in range(256)]
    else:
        lens = [0, 1, 2, 125, 126, 127]
        for a in range(256):
            for m in (0, 128):
                for l in lens:
                    pairs.append((a, m | l))
        extra = [(rng.randrange(256), rng.randrange(256)) for _ in range(1024)]
        pairs += extra
    scripts, meta = [], []
    for c in contexts(ctx.tier):
        for inside in (0, 1):
            need_mask = bool(c["srv"])
            pre = b""
            if inside:
                pre = wsgen.frame(2, b"", fin=0, mask=b"\x01\x02\x03\x04" if need_mask else None)
            for (a, b) in pairs:
                if ctx.tier != "thorough" and inside and (a * 7 + b) % 3:
                    continue
                masked = b & 128
                l7 = b & 127
                hl = (2 if l7 < 126 else (4 if l7 == 126 else 10)) + (4 if masked else 0)
                tail = bytes(hl - 2) if c.get("pmce") else bytes(14)
                stream = pre + bytes([a, b]) + tail
                scripts.append({"cfg": c, "start": "open", "ops": ["feed," + stream.hex(), "lost"]})
                meta.append((c, stream))
    return scripts, meta


def stream_cases(ctx, res):
    rng = ctx.rng
    n = 250 if ctx.tier == "quick" else 6000
    cases = []
    for i in range(n):
        cfg = wsgen.rand_cfg(rng)
        cfg.pop("af", None)
        frames = wsgen.peer_frames(rng, cfg, big=(ctx.tier == "thorough" and i % 50 == 0))
        stream = b"".join(f for f, _ in frames)
        tags = [t for _, t in frames]
        segs = [wsgen.segment(rng, stream, m) for m in ("whole", "bytes", "two", "hdr", "random", "random")]
        # cut after octet 1/2/3 of every frame header (the offending one included)
        offs, o = [], 0
        for f, _ in frames:
            offs.append(o)
            o += len(f)
        for k in (1, 2, 3):
            cuts = sorted(set(min(len(stream), x + k) for x in offs))
            segs.append([stream[a:b] for a, b in zip([0] + cuts, cuts + [len(stream)])])
        cases.append((cfg, stream, tags, segs))
    return cases


def run(ctx):
    res = core.Result()
    res.rule = ("A: first two header octets (thorough: all 65 536; quick: every fin/rsv/opcode/mask with len7 in {0,1,2,125,126,127} + 1024 random) "
                "x {server,client} x {failByDrop on,off} x {PMCE negotiated or not} x {outside,inside a fragmented message}, completed with zero octets; "
                "B: generated valid / near-valid frame sequences (one injected violation from 14 kinds) each under 9 segmentations incl. cuts after "
                "octet 1/2/3 of every header; every script runs on real protocol objects and on the Lean model (exact per-read comparison) and "
                "the flattened observables are compared with WsSpec.judge of the whole stream; non-trivial = distinct (context, stream)")
    fws = ["twisted", "asyncio"]
    viol = {}

    def add(key, what, replay):
        if key not in viol:
            viol[key] = core.Violation(key, what, replay)

    if ctx.replay_path:
        rp = json.loads(Path(ctx.replay_path).read_text())["replay"]
        scripts = [rp["script"]]
        meta = [(rp["script"]["cfg"], bytes.fromhex(rp["stream"]))]
        groups = [("replay", scripts, meta, fws)]
    else:
        sA, mA = header_sweep(ctx, res)
        groups = [("sweep", sA, mA, ["twisted"])]
        # a tenth of the sweep on asyncio as well (the receive path is framework independent code)
        groups.append(("sweep-aio", sA[::10], mA[::10], ["asyncio"]))
        cases = stream_cases(ctx, res)
        sB, mB = [], []
        for cfg, stream, tags, segs in cases:
            for pieces in segs:
                sB.append({"cfg": cfg, "start": "open", "ops": ["feed," + wsgen.hx(p) for p in pieces] + ["lost"]})
                mB.append((cfg, stream))
            res.count("tags:" + "+".join(sorted(set(t for t in tags if t.startswith("bad")))) or "tags:valid")
        groups.append(("streams", sB, mB, fws))

    for name, scripts, meta, gfws in groups:
        judge = ctx.driver.run([f"ws.judge {wsrun.cfg_token(c)} {wsgen.hx(s)}" for c, s in meta])
        for fw in gfws:
            impl = wsrun.run_impl(scripts, fw, nproc=16)
            model = wsrun.run_model(ctx.driver, scripts, fw)
            impl = wsrun.stabilise(scripts, fw, impl, model, res.notes)
            res.evaluations += len(scripts)
            res.count(f"{name}:{fw}", len(scripts))
            by_stream = {}
            cfg_of = {}
            for sc, (cfg, stream), a, b, j in zip(scripts, meta, impl, model, judge):
                res.distinct.add((wsrun.cfg_token(cfg), core.sha(stream)[:16]))
                if a != b:
                    fd = wsrun.first_diff(a, b) if not a.startswith("ERROR") else (0, a[:300], "")
                    res.correspondence_breaks.append({"stream": f"ws.run {name}/{fw}", "script": sc, "op": fd[0], "impl": fd[1][:400], "model": fd[2][:400]})
                pr = wsoracle.Proj(a, cfg)
                for key, what in wsoracle.check_recv(cfg, stream, pr, j):
                    k2 = key
                    add(k2, f"{fw}: {what} (judge: {j[-60:]})", {"script": sc, "stream": stream.hex(), "fw": fw, "impl": a[:2000], "judge": j[:2000]})
                cfg_of[wsrun.cfg_token(cfg)] = cfg
                if not pr.error:
                    by_stream.setdefault((wsrun.cfg_token(cfg), stream), []).append((pr.observable(), sc, a, pr))
            # segmentation independence
            for (ct, stream), runs in by_stream.items():
                base = runs[0]
                for o, sc, a, pr2 in runs[1:]:
                    if o != base[0]:
                        add(wsoracle.seg_key(cfg_of[ct], pr2, base[3]),
                            f"{fw}: the same stream split differently gives different observables",
                            {"script": sc, "other_script": base[1], "stream": stream.hex(), "fw": fw, "impl": a[:1500], "other_impl": base[2][:1500]})
                        break
            if len(res.samples) < 4 and scripts:
                res.sample({"group": name, "fw": fw, "script": {"cfg": scripts[len(scripts) // 2]["cfg"], "ops": [o[:80] for o in scripts[len(scripts) // 2]["ops"]]},
                            "impl": impl[len(scripts) // 2][:200], "judge": judge[len(scripts) // 2][:200]})
    res.exhaustive = ctx.tier == "thorough"
    res.traces_validated = res.evaluations
    res.violations = list(viol.values())
    return res
