"""C03 — WAMP messages survive every serializer unchanged.

Generator: for each of the 25 message classes, real message objects built through the constructors for every subset
of optional fields of size <= 3 (quick) / <= 4 (thorough) plus all-at-once, with boundary values rotated through
every slot (ids 0, 1, 2^53; empty / non-empty / nested args and kwargs; payload-transparency triples incl. an empty
payload; forward_for chains of length 0-3 incl. authid None; astral and combining Unicode; bytes; falsy option
values such as False, "", [], {}).  Real path: msg -> ISerializer.serialize -> (concatenate a batch of 1/2/7) ->
ISerializer.unserialize, for json/msgpack/cbor/ubjson, batched and unbatched.  What comes back is compared FIELD BY
FIELD through marshal() and the public attributes (never through __eq__) with what went in, and with what the Lean
model (Schema.marshal / Schema.parse through the driver) says comes back.

Verdicts:
* an attribute differs after the round trip                           -> Violation "roundtrip:<Class>.<field>:<kind>"
  (kind = falsy-dropped when a falsy value became None, else changed), with the serializer in the key only if the
  loss is specific to one serializer
* the round trip raises / wrong count / wrong order / wrong class     -> Violation "roundtrip-raises:...", "batch-..."
* is_binary flag differs from the regenerated BINARY table or from what the bytes are -> Violation "binary-flag:<ser>"
* serialization cache leaks stale bytes                              -> Violation "cache:<check>"
* model marshal != real marshal, model parse(marshal) != real round trip, or the model calls a message Valid (so
  parse_marshal applies) while the real round trip loses something     -> correspondence break

Self-test (scratch copy of /repo/src, VERIF_REPO): see SELFTEST at the end of this file.
"""
import json
from concurrent.futures import ThreadPoolExecutor
from pathlib import Path

from harness.c08 import run_worker
from translate import uri_patterns, wamp_codes
from vlib import core, wval

PROP = "C03"
PROOF_MODULES = ["Abverif.Proofs.C03"]
TRANSLATORS = [wamp_codes.translate, uri_patterns.translate]
TRUSTED = [
    "Lean 4.33 kernel; axioms of every theorem audited to be within {propext, Classical.choice, Quot.sound}",
    "hand-written Lean schemas of the 25 message classes (Model/Messages.lean over the generic engine Model/Schema.lean) and "
    "the batching model Model/Batch.lean; tied to message.py / serializer.py only by the differential run of this harness",
    "translator translate/wamp_codes.py (MESSAGE_TYPE, MESSAGE_TYPE_MAP, BINARY flags, element counts; self-checked against the live objects)",
    "json / msgpack / cbor2 / bjdata: enter the theorems as an abstract Codec with the law dec (enc v) = v on the tested value "
    "domain (str keys, ints within +-2^53, no str starting with U+0000 under JSON); the law itself is only exercised",
]
ASSUMPTIONS = ["FlatBuffers serializer is outside every run (flatbuffers payload path is a different code path; not claimed)",
               "JSON: a str whose first character is U+0000 is by WAMP convention a binary and does not round-trip as str (excluded domain)"]
W = Path(__file__).parent / "workers"
MANIFEST_ENTRY = {
    "technique": "Lean 4 generic schema engine: parse (marshal m) = m proved once for every well-formed schema, 23 concrete schemas "
                 "decided well-formed; batching proved for all N by induction; differential tie to the real serializers",
    "text": "Proved in Lean: for every well-formed schema and every Valid message (any admissible option subset, unbounded payload "
            "values) parse(marshal m) = m (parse_marshal); all 25 schemas are well-formed (schemas_wf); type "
            "codes, MESSAGE_TYPE_MAP dispatch and element counts agree with the regenerated tables for all 25 (schema_codes, "
            "type_dispatch, schema_lengths); N messages batched with 0x18 / u32 length prefixes come back as the same N in order for "
            "every N >= 1 with JSON (an empty JSON batch is a format error in the code: unbatch_batch_json_empty; no serialized message contains 0x18 - a hypothesis, JSON escapes control characters) and every N >= 0 with the binary serializers (unbatch_batch_json, unbatch_batch_bin); BINARY is false exactly for JSON (binary_flag); a WELCOME with an "
            "authmethod but no authrole round-trips (welcome_authmethod_without_authrole: authmethod is written under its own guard "
            "since the repair of Welcome.marshal); end-to-end relative to "
            "the serializer library's decode(encode v) = v law. Tied to the code by round-tripping ~4k (quick) / ~25k (thorough) "
            "generated messages through 8 serializer configurations and comparing attributes field by field with the model.",
    "note": "HELLO and WELCOME are modelled and tied (marshal/parse correspondence) but outside parse_marshal (their roles entry is "
            "re-encoded). Valid excludes values that today's marshal drops (falsy options written with `if self.x:`); those are "
            "reproduced on the real code and listed in known_findings.d/C03.jsonl.",
}


def classify_diff(cls, f_in, f_out):
    """-> list of (field, kind)"""
    out = []
    for k in sorted(set(f_in) | set(f_out)):
        a, b = f_in.get(k), f_out.get(k)
        if a != b:
            falsy = a is False or (isinstance(a, (str, bytes, list, dict)) and len(a) == 0) or (type(a) is int and a == 0)
            out.append((k, "falsy-dropped" if (falsy and b is None) else "changed"))
    return out


def run(ctx):
    res = core.Result()
    res.rule = ("messages = class x subsets of optional slots (size <= 3 quick / <= 4 thorough, plus all-at-once) x rotated boundary "
                "values; each through json/msgpack/cbor/ubjson, batched and unbatched, plus batches of 1/2/7 through the batched "
                "serializers; non-trivial = distinct (class, set of optional fields present, values) messages")
    vio = set()

    def violate(key, what, replay):
        if key not in vio:
            vio.add(key)
            res.violations.append(core.Violation(key, what, replay))

    # translator self-check (codes / type map / field names)
    tabs = run_worker(W / "c08_tables.py", {"patterns": []})
    classes = list(tabs["codes"])
    ans = ctx.driver.run([f"wamp.code {c}" for c in classes] + [f"wamp.fields {c}" for c in classes] +
                         [f"wamp.speccode {c}" for c in classes] + ["wamp.typemap", "wamp.binary"])
    n = len(classes)
    model_fields = {}
    for i, c in enumerate(classes):
        if ans[2 * n + i] != str(tabs["codes"][c]):
            violate(f"type-code:{c}", f"{c}.MESSAGE_TYPE = {tabs['codes'][c]}, the WAMP protocol says {ans[2 * n + i]}",
                    {"cls": c, "real": tabs["codes"][c], "spec": ans[2 * n + i]})
        if ans[i] != str(tabs["codes"][c]):
            res.correspondence_breaks.append({"stream": "translator", "what": f"MESSAGE_TYPE {c}", "real": tabs["codes"][c], "generated": ans[i]})
        model_fields[c] = ans[n + i].split(",")
        if sorted(model_fields[c]) != sorted(tabs["fields"][c]):
            res.correspondence_breaks.append({"stream": "fields", "class": c, "real": sorted(tabs["fields"][c]), "model": sorted(model_fields[c])})
    binary_tab = dict(e.split(":") for e in ans[-1].split(","))

    nproc = 12
    if ctx.replay_path:
        rp = json.loads(Path(ctx.replay_path).read_text()).get("replay", {})
        outs = [run_worker(W / "c03_worker.py", {"mode": "replay", "cls": rp["cls"], "fields": rp["fields"]})]
    else:
        jobs = [{"mode": "gen", "tier": ctx.tier, "seed": ctx.seed, "part": i, "parts": nproc} for i in range(nproc)]
        with ThreadPoolExecutor(nproc) as ex:
            outs = list(ex.map(lambda j: run_worker(W / "c03_worker.py", j), jobs))
    msgs = [m for o in outs for m in o["messages"]]
    ctx.log(f"{len(msgs)} messages generated and round-tripped by the real serializers")

    # the model on the same messages
    lines = []
    for m in msgs:
        f = wval.dec(m["fields"])
        ordered = {k: f.get(k) for k in model_fields[m["cls"]]}
        tok = wval.enc(ordered)
        m["ftok"] = tok
        lines += [f"wamp.valid {m['cls']} {tok}", f"wamp.marshal {m['cls']} {tok}", f"wamp.rt {m['cls']} {tok}"]
    ans = ctx.driver.run(lines)
    for i, m in enumerate(msgs):
        valid, mar, rt = ans[3 * i], ans[3 * i + 1], ans[3 * i + 2]
        cls = m["cls"]
        f_in = wval.dec(m["fields"])
        present = tuple(sorted(k for k, v in f_in.items() if v is not None))
        res.distinct.add((cls, core.sha(m["fields"])[:16]))
        res.count("class:" + cls)
        res.count("optional-fields-present:%d" % max(0, len(present)))
        replay = {"cls": cls, "fields": m["fields"], "marshal": m["marshal"][:300]}
        if "bad-op" in (valid, mar, rt):
            res.correspondence_breaks.append({"stream": "model", "cls": cls, "fields": m["fields"][:300], "model": [valid, mar[:80], rt[:80]]})
            continue
        # model marshal == real marshal
        if wval.canon(mar) != m["marshal"]:
            res.correspondence_breaks.append({"stream": "marshal", "cls": cls, "fields": m["fields"][:400], "real": m["marshal"][:400], "model": wval.canon(mar)[:400]})
        # what the model says comes back
        if rt.startswith("ok "):
            model_back = wval.dec(rt.split(" ")[3])
            model_rt = "ok"
        else:
            model_back, model_rt = None, " ".join(rt.split(" ")[:2])
        per_ser = {}
        for sid, r in m["rt"].items():
            res.evaluations += 1
            res.count("ser:" + sid)
            if isinstance(r, str):
                per_ser[sid] = ("raises", r)
            else:
                rcls, rmar, rfields = r
                f_out = wval.dec(rfields)
                d = classify_diff(cls, f_in, f_out)
                if rcls != cls:
                    d.append(("<class>", "changed"))
                if rmar != m["marshal"] and not d:
                    d.append(("<marshal>", "changed"))
                per_ser[sid] = ("ok", tuple(d), f_out)
        # verdicts
        outcomes = {sid: (v[0], v[1]) for sid, v in per_ser.items()}
        common = None
        if len(set(outcomes.values())) == 1:
            common = next(iter(outcomes.values()))
        for sid, v in per_ser.items():
            tag = "" if common is not None else ":" + sid.split(".")[0]
            if v[0] == "raises":
                violate(f"roundtrip-raises:{cls}:{v[1].split(':')[0].replace('err ', '')}{tag}",
                        f"{cls}: unserialize(serialize(msg)) fails with {v[1]} ({sid})", dict(replay, ser=sid))
            else:
                for fld, kind in v[1]:
                    violate(f"roundtrip:{cls}.{fld}:{kind}{tag}",
                            f"{cls}.{fld} = {f_in.get(fld)!r} comes back as {v[2].get(fld)!r} ({sid})", dict(replay, ser=sid))
            # model vs real
            if v[0] == "ok":
                if model_back is None:
                    res.correspondence_breaks.append({"stream": "roundtrip", "cls": cls, "ser": sid, "fields": m["fields"][:300],
                                                      "real": "ok", "model": model_rt})
                elif model_back != v[2]:
                    diff = sorted(k for k in set(model_back) | set(v[2]) if model_back.get(k) != v[2].get(k))
                    res.correspondence_breaks.append({"stream": "roundtrip", "cls": cls, "ser": sid, "fields": m["fields"][:300],
                                                      "differs_in": diff, "real": {k: repr(v[2].get(k))[:80] for k in diff},
                                                      "model": {k: repr(model_back.get(k))[:80] for k in diff}})
            else:
                if model_back is not None or model_rt.split(" ")[1] not in v[1]:
                    res.correspondence_breaks.append({"stream": "roundtrip", "cls": cls, "ser": sid, "fields": m["fields"][:300],
                                                      "real": v[1], "model": model_rt})
            # Valid (hypothesis of parse_marshal) must imply a lossless real round trip
            if valid == "11" and (v[0] != "ok" or v[1]):
                res.correspondence_breaks.append({"stream": "valid-but-lossy", "cls": cls, "ser": sid, "fields": m["fields"][:400],
                                                  "real": str(v[:2])[:300]})
        res.count("model-valid:" + valid)
        if len(res.samples) < 4 and len(present) > 6:
            res.sample({"cls": cls, "marshal": m["marshal"][:240]})

    # batches: the Lean batching model on the real octets (batch = concatenation written by serialize, unbatch = chunks)
    allb = [b for o in outs for b in o["batches"]]
    blines = []
    for b in allb:
        op = "json" if b["ser"].startswith("json") else "bin"
        blines += [f"batch.{op} {','.join(b['parts'])}", f"unbatch.{op} {b['payload'] or '-'}"]
    bans = ctx.driver.run(blines)
    for i, b in enumerate(allb):
        if bans[2 * i] != (b["payload"] or "-"):
            res.correspondence_breaks.append({"stream": "batch-model", "ser": b["ser"], "n": b["n"], "real": b["payload"][:200], "model": bans[2 * i][:200]})
        if bans[2 * i + 1] != "ok " + ",".join(b["parts"]):
            res.correspondence_breaks.append({"stream": "unbatch-model", "ser": b["ser"], "n": b["n"], "real_parts": b["parts"][:3], "model": bans[2 * i + 1][:200]})
        res.evaluations += 2
    for o in outs:
        for b in o["batches"]:
            res.evaluations += 1
            res.count("batch:%s:n=%d" % (b["ser"], b["n"]))
            got, exp = b["got"], b["expected"]
            if isinstance(got, str):
                violate(f"batch-raises:{b['ser']}", f"batch of {b['n']} through {b['ser']}: {got}", {"batch": b})
                continue
            if len(got) != len(exp):
                violate(f"batch-count:{b['ser']}", f"batch of {b['n']} through {b['ser']} comes back as {len(got)} messages", {"batch": b})
                continue
            for k, (g, e) in enumerate(zip(got, exp)):
                if g[0] != e[0]:
                    violate(f"batch-order:{b['ser']}", f"batch of {b['n']} through {b['ser']}: message {k} is a {g[0]}, expected {e[0]}", {"batch": b})
                    break
        # the batching model on the real payloads is exercised in C08 part C (chunking); here: N in, N out, same order
        for sid, flag, istext, name in o["flags"]:
            res.evaluations += 1
            exp = binary_tab.get(name)
            if exp is None or (exp == "1") != bool(flag):
                res.correspondence_breaks.append({"stream": "binary-table", "ser": sid, "real": flag, "generated": exp})
            if bool(flag) != (name != "json"):
                violate(f"binary-flag:{name}", f"{sid}.serialize reports is_binary={flag}; only JSON is a text serializer", {"ser": sid})
            if not flag and not istext:
                violate(f"binary-flag-text:{name}", f"{sid} reports text but the payload is not valid UTF-8", {"ser": sid})
        for c in o["cache"]:
            res.evaluations += 1
            if not c["ok"]:
                violate(f"cache:{c['check']}", f"serialization cache: {c['check']} failed ({c['got'][:80]})", {"check": c})
    res.traces_validated = res.evaluations
    return res


SELFTEST = """
Mutation self-test (scratch copy of /repo/src via VERIF_REPO, quick tier, 2026-09; exit code, first replay keys):

 M1  Call.marshal_options: drop `receive_progress`                 rc=1  roundtrip:Call.receive_progress:changed (+ :falsy-dropped)
 M2  Cancel.MESSAGE_TYPE 49 -> 51                                  rc=1  type-code:Cancel (+ codes_match_protocol no longer proves)
 M5  Subscribe.parse: len(wmsg) != 4 -> != 5                       rc=1  roundtrip-raises:Subscribe:ProtocolError
 M6  JSON batch split [:-1] -> [1:]                                rc=1  roundtrip-raises:<every class>:ProtocolError:json (180 keys)
 M7  JsonObjectSerializer.BINARY = True                            rc=1  binary-flag:json, cache:per-serializer-bytes (+ binary_flag no longer proves)
 M8  CBOR batch length prefix read little-endian                   rc=1  roundtrip-raises:<every class>:ProtocolError:cbor
 M10 Call.marshal_options: `if self.caller:` instead of `is not None`   rc=1  roundtrip:Call.caller:falsy-dropped
 H1  harmless: GOODBYE option blocks swapped, local renamed, f-string -> format   rc=0 (silent)
 R1  (2026-09 repair, run against the tree without it) Welcome.marshal writes authmethod under `if self.authrole:`
                                                                    rc=1  roundtrip:Welcome.authmethod:changed (the entry is "fixed": reported, not suppressed)
"""
