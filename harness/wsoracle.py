"""Projection of ws.run answer lines to property-level observables + comparison with WsSpec.judge."""
import struct


def unhex(s):
    return b"" if s == "-" else bytes.fromhex(s)


def split_frames(data):
    """independent RFC 6455 splitter (python side) -> (frames, rest); frame = (fin,rsv,opcode,masked,key,payload_as_sent)"""
    out = []
    i, n = 0, len(data)
    while n - i >= 2:
        b0, b1 = data[i], data[i + 1]
        l7 = b1 & 127
        j = i + 2
        if l7 == 126:
            if n - j < 2:
                break
            ln = struct.unpack("!H", data[j:j + 2])[0]
            j += 2
        elif l7 == 127:
            if n - j < 8:
                break
            ln = struct.unpack("!Q", data[j:j + 8])[0]
            j += 8
        else:
            ln = l7
        key = None
        if b1 & 128:
            if n - j < 4:
                break
            key = data[j:j + 4]
            j += 4
        if n - j < ln:
            break
        out.append((b0 >> 7, (b0 >> 4) & 7, b0 & 15, bool(b1 & 128), key, data[j:j + ln], l7))
        i = j + ln
    return out, data[i:]


def unmask(key, pl):
    return bytes(c ^ key[k & 3] for k, c in enumerate(pl))


class Proj:
    """what one run shows, flattened over its ops"""

    def __init__(self, line, cfg):
        self.msgs = []       # "m:..." items
        self.evs = []        # m / pi / po items in order
        self.writes = b""
        self.drops = []      # "cc:0" / "cc:1"
        self.onclose = []    # "oc:..." items
        self.raised = []
        self.items = []
        self.final_state = None
        self.error = line.startswith("ERROR")
        if self.error:
            return
        for seg in line.split("|"):
            body, _, st = seg.rpartition("@")
            self.final_state = st
            for it in (body.split(",") if body else []):
                self.items.append(it)
                k = it.split(":")[0]
                if k == "m":
                    self.msgs.append(it)
                    self.evs.append(it)
                elif k in ("pi", "po"):
                    self.evs.append(it)
                elif k == "w":
                    self.writes += unhex(it[2:])
                elif k == "cc":
                    self.drops.append(it)
                elif k == "oc":
                    self.onclose.append(it)
                elif k == "x":
                    self.raised.append(it)
        self.ap = cfg.get("ap", 1)
        self.frames, self.wrest = split_frames(self.writes)

    def written(self):
        """frames written, payload unmasked: list of (opcode, fin, rsv, masked, payload)"""
        out = []
        for fin, rsv, op, masked, key, pl, l7 in self.frames:
            if masked and self.ap:
                pl = unmask(key, pl)
            out.append((op, fin, rsv, masked, pl))
        return out

    def close_codes_written(self):
        return [struct.unpack("!H", pl[:2])[0] if len(pl) >= 2 else None for op, fin, rsv, m, pl in self.written() if op == 8]

    def observable(self):
        """what must not depend on segmentation"""
        return (tuple(self.evs), self.writes.hex(), tuple(self.drops), tuple(self.onclose), self.final_state)

    def until_first_close_written(self):
        """items up to and including the first write that contains a close frame (fail-by-close: the announcement)"""
        out = []
        for it in self.items:
            out.append(it)
            if it.startswith("w:"):
                fr, _ = split_frames(unhex(it[2:]))
                if any(f[2] == 8 for f in fr):
                    break
        return tuple(out), tuple(self.msgs)


def parse_judge(ans):
    evs, verdict, rest = ans.split(";")
    return ([e for e in evs.split(",") if e] if evs else []), verdict, int(rest)


def check_recv(cfg, stream, proj, judge_ans, lost_fed=True):
    """compare one run (ops = feed pieces [+ lost]) with the spec's judgement of the whole stream.
    -> list of (key, what)"""
    bad = []
    if proj.error:
        return [("exception-escaped-dataReceived", "an exception left dataReceived/the harness: ")]
    jevs, verdict, jrest = parse_judge(judge_ans)
    # RFC 6455 §1.4: after a close frame the receiver discards further data.  A client of this library keeps
    # processing it while waiting for the server to drop TCP; every deviation that needs such trailing data is
    # reported under one specific key.
    after_close = verdict == "peer" and jrest > 0 and not cfg.get("srv", 1)
    AC = "client-processes-data-after-peer-close"
    jmsgs = [e for e in jevs if e.startswith("m:")]
    jctl = [e for e in jevs if e[:3] in ("pi:", "po:")]
    jclose = [e for e in jevs if e.startswith("cl:")]
    fbd = cfg.get("fbd", 1)
    srv = cfg.get("srv", 1)
    # 1. messages exactly those of the well-formed prefix
    if proj.msgs != jmsgs:
        if len(proj.msgs) > len(jmsgs) and proj.msgs[:len(jmsgs)] == jmsgs:
            if after_close:
                bad.append((AC, "a data message received after the peer's close frame was delivered to the application"))
            elif verdict == "peer":
                bad.append(("message-delivered-after-peer-close", "a data message received after the peer's close frame was delivered"))
            else:
                bad.append(("message-delivered-after-violation", "a message after the first violation was delivered"))
        else:
            bad.append(("messages-differ-from-rfc-judgement", f"delivered {proj.msgs[:3]} expected {jmsgs[:3]}"))
    ictl = [e for e in proj.evs if e[:3] in ("pi:", "po:")]
    if verdict in ("ok",) or fbd:
        if ictl != jctl and after_close and ictl[:len(jctl)] == jctl:
            bad.append((AC, "pings/pongs received after the peer's close frame were delivered"))
        elif ictl != jctl:
            bad.append(("pings-pongs-differ-from-rfc-judgement", f"delivered {ictl[:4]} expected {jctl[:4]}"))
    else:
        if ictl[:len(jctl)] != jctl:
            bad.append(("pings-pongs-differ-from-rfc-judgement", f"delivered {ictl[:4]} expected prefix {jctl[:4]}"))
    # 2. every ping of the well-formed prefix answered by a pong with the same payload, in order
    pongs = [pl for op, fin, rsv, m, pl in proj.written() if op == 10]
    exp_pongs = [unhex(e[3:]) for e in jctl if e.startswith("pi:")]
    if pongs[:len(exp_pongs)] != exp_pongs:
        bad.append(("ping-not-answered-with-same-payload", f"pongs written {[p.hex() for p in pongs[:3]]} expected {[p.hex() for p in exp_pongs[:3]]}"))
    # 3. verdict
    codes = proj.close_codes_written()
    if verdict.startswith("fail:"):
        code = int(verdict[5:])
        if fbd:
            if proj.drops[:1] != ["cc:1"]:
                bad.append(("violation-not-failed-by-drop", f"verdict {verdict} but drops={proj.drops}"))
            if codes:
                bad.append(("close-frame-sent-despite-failByDrop", f"codes {codes}"))
            if lost_fed and proj.onclose != ["oc:0:1006:n:idrop"]:
                bad.append(("fail-by-drop-not-reported-unclean", f"onClose {proj.onclose}"))
        else:
            if codes[:1] != [code]:
                bad.append(("violation-announced-with-wrong-code", f"verdict {verdict} close codes written {codes}"))
            # a later violation in the same stream may legitimately end in a TCP drop; not judged here
    elif verdict == "ok":
        if codes or proj.drops:
            bad.append(("well-formed-stream-failed", f"no violation in the stream but close codes {codes} drops {proj.drops}"))
    elif verdict == "peer":
        # a valid close frame arrived: we reply (1000, or the echoed code) and report a clean close with the peer's code
        cl = jclose[-1].split(":")
        pcode = None if cl[1] == "n" else int(cl[1])
        exp_reply = (pcode if cfg.get("echo", 0) else 1000)
        if len(codes) != 1 or (codes[0] != exp_reply and not (cfg.get("echo", 0) and pcode is None and codes[0] is None)):
            bad.append(("close-reply-wrong", f"peer close {jclose[-1]} answered with close codes {codes}"))
        if srv and proj.drops[:1] != ["cc:0"]:
            bad.append(("server-did-not-drop-after-close-handshake", f"drops {proj.drops}"))
        if not srv and proj.drops and not after_close:
            bad.append(("client-dropped-tcp-after-close-handshake", f"drops {proj.drops}"))
        if lost_fed:
            exp = "oc:1:%s:%s:n" % (cl[1], cl[2])
            if proj.onclose != [exp]:
                if after_close:
                    bad.append((AC, f"octets after the peer's close frame changed the close report: onClose {proj.onclose} expected {exp}"))
                else:
                    bad.append(("clean-close-misreported", f"onClose {proj.onclose} expected {exp}"))
    if proj.wrest:
        bad.append(("partial-frame-written", "bytes written do not end on a frame boundary"))
    return bad


def seg_key(cfg, pa, pb):
    """classify a segmentation dependence between two runs (Proj objects) of the same stream"""
    if not cfg.get("fbd", 1) and pa.until_first_close_written() == pb.until_first_close_written():
        # identical deliveries and bytes up to and including the close frame that announces the violation, identical
        # messages overall; what differs is what happens afterwards (an unfinished offending header or text frame is
        # judged again on the next read and counted as a second violation => TCP drop, later pings unseen)
        return "failByClose-violation-rejudged-on-next-read"
    return "verdict-depends-on-segmentation"
