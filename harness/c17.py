"""C17 — silent peers are dropped on time, responsive peers never."""
import json
import struct
from pathlib import Path

from vlib import core
from harness import wsgen, wsrun, wsoracle

PROP = "C17"
PROOF_MODULES = ["Abverif.Proofs.C17", "Abverif.Proofs.Lemmas.WsOps", "Abverif.Proofs.Lemmas.WsPing", "Abverif.Proofs.WsPingsKeepComing", "Abverif.Proofs.Lemmas.WsDeadline", "Abverif.Proofs.WsCloseBounded"]
MANIFEST_ENTRY = {
    "technique": 'Lean 4 theorems on the virtual clock (batched-timer floor lemmas, timer handlers, armed-deadline-implies-closed, inertness after close) + schedule lattice correspondence with an independent deadline oracle',
    "text": 'Proved on the model: the batched deadline is never late and less than one second early, so a reaction >= 1 s before the nominal deadline precedes it; each timeout handler drops (abort) with its own reason exactly when the connection is not yet closed; an armed closing-handshake timer whose deadline has passed implies CLOSED (close_timeout_drops) and the peer reply cancels it; the same for the opening handshake (open_timeout_drops) and for the pong deadline of an outstanding automatic ping (ping_timeout_drops), each with an example that runs a real history through the hypotheses; every timer callback is inert on a CLOSED connection; server_drop_timeout_drops, connectionLost_cancels, pong_cancels_pingTimeout, handshakeDone_cancels_openHs; sendAutoPing_rearms / pong_rearms (every automatic ping on an OPEN connection arms the pong deadline or, with no deadline configured, the next ping; a matching pong leaves the next ping armed); pings_keep_coming: in every state reachable by any history, an OPEN connection with a ping interval configured has the next ping scheduled (due no later than now + interval) or a ping outstanding with its pong deadline due no later than now + timeout (invariant PK proved for every engine function); closing_bounded (with C05): from every reachable CLOSING state a silent peer means CLOSED once max(closeHandshakeTimeout, serverConnectionDropTimeout) has passed (deadline_bounded: an armed drop timer is never due later than now + its timeout). Tied to the code by running timeout/ping schedules (reactions on a 0.1 s lattice around each deadline, probes at deadline-8u/deadline/deadline+8u, one-hour advance after loss) on real Twisted (task.Clock) and asyncio (virtual loop) objects with exact comparison, plus an independent deadline oracle. Three defects found were repaired in /repo (5b48a5ce, a6d81347, cde7fa2e). With autoPingRestartOnAnyTraffic the end of every data frame, final or not, cancels a pending pong deadline (data_frame_cancels_pingTimeout, nonfinal_frame_cancels_pingTimeout): a peer streaming the fragments of one long message is not dropped for the missing pong; run on the real objects as the non-final-fragment traffic scenario.',
    "note": 'Trusted: Lean kernel; model tied by differential execution; virtual time only (no wall-clock drift or reactor latency); time unit 2^-20 s with _QUEUED_WRITE_DELAY patched to 2^-17 s for exact float arithmetic.',
}
TRUSTED = [
    "Lean 4.33 kernel; axioms of every theorem within {propext, Classical.choice, Quot.sound}",
    "hand-written model Abverif/Model/Ws.lean (timeout handlers, auto-ping, batched timer = floor(now+delay) seconds, plain "
    "call_later exact) tied to the code by running the same schedules on real Twisted (task.Clock) and asyncio (virtual-time loop) "
    "protocol objects; time unit 2^-20 s so that every instant is an exact binary float",
    "timer oracle: deadlines recomputed independently in harness/c17.py from the configured timeouts",
]
ASSUMPTIONS = ["virtual clocks: wall-clock drift and reactor latency under load are not modelled",
               "time.time_ns / os.urandom in ping payloads replaced by constants"]
SEC = wsgen.SEC
T8 = 8


def floor_s(t):
    return t // SEC * SEC


def timeline(events):
    """events: list of (abs_time, op or None).  -> (ops, abs time after each op).  A None op is a pure probe."""
    ev = sorted(enumerate(events), key=lambda x: (x[1][0], x[0]))
    ops, times, now = [], [], 0
    for _, (t, op) in ev:
        if t > now:
            ops.append(f"adv,{t - now}")
            now = t
            times.append(now)
        if op is not None:
            ops.append(op)
            times.append(now)
    return ops, times


def probes(t):
    return [(max(0, t - T8), None), (t, None), (t + T8, None)]


def ping_payload(seq, size):
    return bytes(8) + struct.pack(">L", seq) + bytes(size - 12)


def first_index(per, pred):
    for k, (items, st) in enumerate(per):
        if any(pred(i) for i in items):
            return k
    return None


def lattice(rng, tier):
    offs = [int(x * SEC / 10) for x in range(-12, 4)]
    return offs if tier == "thorough" else rng.sample(offs, 6) + [-SEC, 0]


def scen_open(rng, tier):
    """opening handshake timeout"""
    out = []
    for T in ([SEC, 2 * SEC, 5 * SEC, SEC + SEC // 2] if tier == "thorough" else [SEC, 2 * SEC, SEC + SEC // 2]):
        for srv in (0, 1):
            cfg = {"srv": srv, "oht": T}
            D = floor_s(T)
            for off in lattice(rng, tier) + [None]:
                ev = probes(D)
                if D != T:
                    ev += probes(T)
                tr = None
                if off is not None:
                    tr = max(8, T + off)
                    ev.append((tr, "hs"))
                ev.append((T + 3 * SEC, None))
                ev.append((T + 3 * SEC + 8, "lost"))
                ev.append((T + 3 * SEC + 3600 * SEC, None))
                ops, times = timeline(ev)
                exp = {"kind": "open", "deadline": D, "nominal": T, "react": tr, "reason": "open"}
                out.append(({"cfg": cfg, "start": "connecting", "ops": ops}, times, exp))
    return out


def scen_close(rng, tier):
    """closing handshake timeout (we initiate; the peer answers late, on time or never)"""
    out = []
    for T in ([SEC, 2 * SEC, 5 * SEC] if tier == "thorough" else [SEC, 2 * SEC]):
        for srv in (0, 1):
            for t0 in ([8, SEC // 2, SEC - 8, SEC + SEC // 4] if tier == "thorough" else [rng.choice([8, SEC // 2, SEC - 8]), SEC + SEC // 4]):
                cfg = {"srv": srv, "cht": T, "sdt": 2 * SEC}
                D = floor_s(t0 + T)
                for off in lattice(rng, tier) + [None]:
                    ev = [(t0, "close,1000,n")] + probes(D)
                    if t0 + T != D:
                        ev += probes(t0 + T)
                    tr = None
                    if off is not None:
                        tr = max(t0 + 8, t0 + T + off)
                        reply = wsgen.frame(8, struct.pack("!H", 1000), mask=(b"\x01\x02\x03\x04" if srv else None))
                        ev.append((tr, "feed," + reply.hex()))
                    end = t0 + T + 4 * SEC
                    ev += [(end, None), (end + 8, "lost"), (end + 3600 * SEC, None)]
                    ops, times = timeline(ev)
                    out.append(({"cfg": cfg, "start": "open", "ops": ops}, times,
                                {"kind": "close", "deadline": D, "nominal": t0 + T, "react": tr, "reason": "close", "t0": t0}))
    return out


def scen_srvdrop(rng, tier):
    """client: the server does not drop TCP after the closing handshake"""
    out = []
    for T in ([SEC, 2 * SEC, 5 * SEC] if tier == "thorough" else [SEC, 2 * SEC]):
        for t0 in ([8, SEC // 2, SEC + SEC // 4] if tier == "thorough" else [rng.choice([8, SEC // 2]), SEC + SEC // 4]):
            cfg = {"srv": 0, "sdt": T, "cht": 5 * SEC}
            reply = wsgen.frame(8, struct.pack("!H", 1000))
            t1 = t0 + SEC // 4           # the close reply arrives: the drop timer is armed here (plain call_later: exact)
            D = t1 + T
            for off in lattice(rng, tier) + [None]:
                ev = [(t0, "close,1000,n"), (t1, "feed," + reply.hex())] + probes(D)
                tr = None
                if off is not None:
                    tr = max(t1 + 8, D + off)
                    ev.append((tr, "lost"))
                end = D + 3 * SEC
                ev += [(end, None), (end + 8, "lost"), (end + 3600 * SEC, None)]
                ops, times = timeline(ev)
                out.append(({"cfg": cfg, "start": "open", "ops": ops}, times,
                            {"kind": "srvdrop", "deadline": D, "nominal": D, "react": tr, "reason": "srvdrop"}))
    return out


def scen_peer_initiated(rng, tier):
    """client: the SERVER starts the closing handshake, the client replies, the server never drops TCP"""
    out = []
    for T in ([SEC, 2 * SEC] if tier == "thorough" else [SEC]):
        for t0 in ([8, SEC // 2] if tier == "thorough" else [SEC // 2]):
            cfg = {"srv": 0, "sdt": T, "cht": 5 * SEC}
            D = t0 + T
            for drops in (None, t0 + T // 2):
                ev = [(t0, "feed," + wsgen.frame(8, struct.pack("!H", 1000)).hex())] + probes(D)
                if drops:
                    ev.append((drops, "lost"))
                end = D + 30 * SEC
                ev += [(end, None), (end + 8, "lost"), (end + 3600 * SEC, None)]
                ops, times = timeline(ev)
                out.append(({"cfg": cfg, "start": "open", "ops": ops}, times,
                            {"kind": "srvdrop-peer-initiated", "deadline": D, "nominal": D, "react": drops, "reason": "srvdrop"}))
    return out


def scen_closed_not_lost(rng, tier):
    """a timer that expires between our own TCP drop and the framework's connection-lost must not change anything"""
    out = []
    for srv in (1, 0):
        cfg = {"srv": srv, "pi": SEC, "pt": 2 * SEC, "cht": SEC, "sdt": SEC}
        mk = b"\x01\x02\x03\x04" if srv else None
        # ping goes out at 1 s (timeout would be 3 s); at 1.5 s the closing handshake completes and (server) TCP is dropped
        if srv:
            ev = [(SEC + SEC // 2, "feed," + wsgen.frame(8, struct.pack("!H", 1000), mask=mk).hex())]
        else:
            ev = [(SEC + SEC // 4, "close,1000,n"), (SEC + SEC // 2, "feed," + wsgen.frame(8, struct.pack("!H", 1000)).hex())]
        ev += probes(3 * SEC) + [(6 * SEC, "lost"), (3600 * SEC, None)]
        ops, times = timeline(ev)
        out.append(({"cfg": cfg, "start": "open", "ops": ops}, times, {"kind": "closed-not-lost", "srv": srv}))
    return out


def scen_ping(rng, tier):
    """automatic ping/pong: the peer answers every ping after `rtt`, or goes silent after k pings, or sends data instead"""
    out = []
    grid = [(SEC, SEC), (SEC, 2 * SEC), (3 * SEC, SEC), (3 * SEC, 2 * SEC), (SEC, 5 * SEC), (SEC, 0), (3 * SEC, 0)]
    if tier != "thorough":
        grid = grid[:4] + [(SEC, 0)]
    for I, T in grid:
        for srv in (0, 1):
            for restart in (1, 0):
                for size in ([12, 125] if tier == "thorough" else [rng.choice([12, 20, 125])]):
                    cfg = {"srv": srv, "pi": I, "pt": T, "pr": restart, "ps": size}
                    mk = b"\x0a\x0b\x0c\x0d" if srv else None
                    for silent_after in ([0, 1, 3, None] if tier == "thorough" else [rng.choice([0, 1, 2]), None]):
                        for rtt in ([SEC // 10, SEC // 2, SEC - 8] if tier == "thorough" else [rng.choice([SEC // 10, SEC // 2])]):
                            for data_instead in ((0, 1, 2, 3) if T else (0,)):
                                # simulate the SPEC: ping k goes out at p_k; answered at p_k + rtt; next at floor(answer + I)
                                ev, exp_pings, t, seq = [], [], floor_s(I), 0
                                last_answer = 0
                                unanswered_no_timeout = False
                                drop_at = None
                                in_msg = False     # data_instead == 3: the peer is inside a fragmented message
                                horizon = 14 * SEC
                                while t < horizon:
                                    seq += 1
                                    exp_pings.append(t)
                                    ev += probes(t)
                                    answered = silent_after is None or seq <= silent_after
                                    if T and rtt >= T - SEC and answered and T > 0:
                                        answered = answered  # rtt grid keeps rtt <= T - 1s only when T >= 2s; see `responsive`
                                    if not answered:
                                        if T:
                                            drop_at = floor_s(t + T)
                                            ev += probes(drop_at)
                                        else:
                                            # no ping timeout configured and this ping stays unanswered: the property says pings
                                            # keep being sent at the interval for as long as the connection is open
                                            unanswered_no_timeout = len(exp_pings)   # pings up to and including the unanswered one
                                            last_answer = t + 3 * I + SEC
                                            j = 1
                                            while t + j * I < last_answer + 8:   # the peer goes away at last_answer + 8
                                                exp_pings.append(t + j * I)
                                                ev += probes(t + j * I)
                                                j += 1
                                        break
                                    ta = t + rtt
                                    if T and ta >= floor_s(t + T):
                                        drop_at = floor_s(t + T)
                                        ev += probes(drop_at)
                                        break
                                    if data_instead == 3:
                                        # the traffic is a NON-FINAL fragment of one long message (a peer busy streaming): with
                                        # autoPingRestartOnAnyTraffic every data frame counts, not only the one that ends a message
                                        fr = wsgen.frame(0 if in_msg else 2, b"part", fin=0, mask=mk)
                                        in_msg = True
                                        ev.append((ta, "feed," + fr.hex()))
                                        if not restart:
                                            ev.append((ta, "feed," + wsgen.frame(10, ping_payload(seq, size), mask=mk).hex()))
                                    elif data_instead == 2 and restart:
                                        # a data frame restarts the cycle; the (now stale) pong still arrives a little later
                                        # and must change nothing
                                        ev.append((ta, "feed," + wsgen.frame(2, b"data", mask=mk).hex()))
                                        ev.append((ta + SEC // 16, "feed," + wsgen.frame(10, ping_payload(seq, size), mask=mk).hex()))
                                    elif data_instead and restart:
                                        ev.append((ta, "feed," + wsgen.frame(2, b"data", mask=mk).hex()))
                                    elif data_instead:
                                        # data does not count when autoPingRestartOnAnyTraffic is off: also send the pong
                                        ev.append((ta, "feed," + wsgen.frame(2, b"data", mask=mk).hex()))
                                        ev.append((ta, "feed," + wsgen.frame(10, ping_payload(seq, size), mask=mk).hex()))
                                    else:
                                        ev.append((ta, "feed," + wsgen.frame(10, ping_payload(seq, size), mask=mk).hex()))
                                    t = floor_s(ta + I)
                                    last_answer = ta
                                if drop_at is not None:
                                    end = drop_at + 2 * SEC
                                    ev += [(end, None), (end + 8, "lost"), (end + 3600 * SEC, None)]
                                else:
                                    # horizon reached with every ping answered: the peer goes away right after its last pong
                                    # (+1, not +8: with rtt = 1 s - 8u the next ping is due exactly 8u after the pong, and a loss
                                    # at that very instant would race with it)
                                    end = last_answer + (8 if unanswered_no_timeout else 1)
                                    ev += [(end, "lost"), (end + 3600 * SEC, None)]
                                ops, times = timeline(ev)
                                responsive = (silent_after is None) and (T == 0 or rtt <= T - SEC)
                                out.append(({"cfg": cfg, "start": "open", "ops": ops}, times,
                                            {"kind": "ping", "pings": exp_pings, "drop_at": drop_at, "responsive": responsive,
                                             "reason": "ping", "size": size, "T": T, "I": I, "unanswered_no_timeout": unanswered_no_timeout}))
    return out


def judge_timers(sc, times, exp, line):
    bad = []
    if line.startswith("ERROR"):
        return [("exception-escaped", line[:300])]
    per = wsrun.parse_line(line)
    ops = sc["ops"]
    k_drop = first_index(per, lambda i: i.startswith("cc:"))
    t_drop = times[k_drop] if k_drop is not None else None
    k_lost = [k for k, o in enumerate(ops) if o == "lost"]
    oc = [i for items, _ in per for i in items if i.startswith("oc:")]
    # P4: nothing happens when the clock runs for an hour after the connection is gone
    last_lost = k_lost[-1]
    late = [i for items, _ in per[last_lost + 1:] for i in items]
    if late:
        bad.append(("timer-fired-after-close", f"{late[:3]} produced while advancing the clock after the connection was lost"))
    if exp["kind"] == "closed-not-lost":
        # server: clean close handshake done and TCP dropped by us at 1.5 s; the ping timeout (3 s) must be inert.
        # client: after the handshake the server-drop timer (1 s) legitimately fires at 2.5 s; the later ping timeout must
        # not change the reported reason.
        want = "oc:1:1000:n:n" if exp["srv"] else "oc:0:1006:n:srvdrop"
        if oc != [want]:
            bad.append(("timer-after-own-drop-changes-close-report", f"onClose {oc} expected {want}: a ping timeout that expired after the connection "
                        "was already closed (TCP drop requested, connection-lost not yet delivered) rewrote the outcome"))
        return bad
    if exp["kind"] == "srvdrop-peer-initiated":
        D, tr = exp["deadline"], exp["react"]
        if tr is None and (t_drop is None or t_drop > D):
            bad.append(("silent-peer-not-dropped-by-deadline:srvdrop-after-peer-initiated-close",
                        f"server started the closing handshake and never dropped TCP; client still not closed at {D / SEC:.2f}s (dropped at {None if t_drop is None else t_drop / SEC})"))
        if tr is not None and k_drop is not None:
            bad.append(("responsive-peer-dropped:srvdrop", f"{t_drop}"))
        return bad
    if exp["kind"] in ("open", "close", "srvdrop"):
        D, tr = exp["deadline"], exp["react"]
        in_time = tr is not None and tr < D
        if in_time:
            # the reaction came before the (floored) deadline: the timer must not drop
            if exp["kind"] == "srvdrop":
                ok = k_drop is None
            elif exp["kind"] == "close":
                ok = (k_drop is None) if not sc["cfg"]["srv"] else (t_drop == tr)   # a server drops itself on the reply
                if not sc["cfg"]["srv"] and k_drop is not None:
                    # client: after the reply the server-drop timer (2 s) takes over; that is a different deadline
                    ok = t_drop >= tr + sc["cfg"].get("sdt", SEC)
            else:
                ok = k_drop is None
            if not ok:
                k = "responsive-peer-dropped" if tr <= exp["nominal"] - SEC else "peer-within-deadline-dropped"
                bad.append((f"{k}:{exp['kind']}", f"reaction at {tr / SEC:.3f}s, deadline {D / SEC:.3f}s (nominal {exp['nominal'] / SEC:.3f}s), dropped at {None if t_drop is None else t_drop / SEC}"))
            if any(f":{exp['reason']}" in o for o in oc):
                bad.append((f"timeout-reported-though-peer-reacted:{exp['kind']}", f"{oc}"))
        else:
            if t_drop is None or t_drop > exp["nominal"]:
                bad.append((f"silent-peer-not-dropped-by-deadline:{exp['kind']}", f"no reaction before {D / SEC:.3f}s; dropped at {None if t_drop is None else t_drop / SEC}"))
            elif t_drop < D and t_drop != tr:
                bad.append((f"dropped-before-deadline:{exp['kind']}", f"dropped at {t_drop / SEC:.3f}s, deadline {D / SEC:.3f}s"))
            elif t_drop == D:
                if oc and oc[0] != f"oc:0:1006:n:{exp['reason']}":
                    bad.append((f"timeout-drop-misreported:{exp['kind']}", f"{oc} expected oc:0:1006:n:{exp['reason']}"))
                if not any(i == "cc:1" for i in per[k_drop][0]):
                    bad.append((f"timeout-drop-not-abort:{exp['kind']}", f"{per[k_drop][0]}"))
    else:
        # pings on the wire at the expected instants
        pr_frames = []
        for k, (items, st) in enumerate(per):
            for it in items:
                if it.startswith("w:"):
                    fr, _ = wsoracle.split_frames(wsoracle.unhex(it[2:]))
                    for f in fr:
                        if f[2] == 9:
                            pr_frames.append(times[k])
        if pr_frames != exp["pings"]:
            key = "auto-pings-not-at-interval"
            if exp.get("unanswered_no_timeout") and pr_frames == exp["pings"][:exp["unanswered_no_timeout"]]:
                key = "auto-ping-stops-after-unanswered-ping:timeout-disabled"
            bad.append((key, f"pings at {[round(t / SEC, 3) for t in pr_frames]} expected {[round(t / SEC, 3) for t in exp['pings']]} (I={exp['I'] / SEC}, T={exp['T'] / SEC})"))
        if exp["responsive"] and k_drop is not None:
            bad.append(("responsive-peer-dropped:ping", f"dropped at {t_drop / SEC:.3f}s although every ping was answered >= 1 s before its deadline"))
        if exp["drop_at"] is not None:
            if t_drop != exp["drop_at"]:
                bad.append(("silent-peer-not-dropped-by-deadline:ping", f"expected drop at {exp['drop_at'] / SEC:.3f}s, got {None if t_drop is None else t_drop / SEC}"))
            elif oc and oc[0] != "oc:0:1006:n:ping":
                bad.append(("timeout-drop-misreported:ping", f"{oc}"))
        elif k_drop is not None and not exp["responsive"]:
            pass
    return bad


def run(ctx):
    res = core.Result()
    res.rule = ("schedules on a virtual time line (unit 2^-20 s): openHandshakeTimeout {1,1.5,2,5}s, closeHandshakeTimeout {1,2,5}s from start "
                "offsets {8u,0.5s,1s-8u,1.25s}, serverConnectionDropTimeout {1,2,5}s, autoPing interval/timeout grid {1,3}s x {0,1,2,5}s x "
                "restart-on-traffic x payload sizes; each awaited peer reaction (handshake bytes, close reply, TCP drop, pong, whole data message, non-final fragment of a long message) placed "
                "on a 0.1 s lattice from -1.2 s to +0.3 s around its deadline or omitted; probes at deadline-8u, deadline, deadline+8u; then "
                "connection lost and a one-hour clock advance; both roles, Twisted and asyncio; exact comparison with the Lean model after "
                "every event + independent deadline oracle; non-trivial = distinct schedule")
    rng = ctx.rng
    if ctx.replay_path:
        rp = json.loads(Path(ctx.replay_path).read_text())["replay"]
        cases = [(rp["script"], rp["times"], rp["expect"])]
    else:
        cases = scen_open(rng, ctx.tier) + scen_close(rng, ctx.tier) + scen_srvdrop(rng, ctx.tier) + scen_peer_initiated(rng, ctx.tier) + scen_closed_not_lost(rng, ctx.tier) + scen_ping(rng, ctx.tier)
    scripts = [c[0] for c in cases]
    viol = {}
    for c in cases:
        res.count("scenario:" + c[2]["kind"])
        res.distinct.add(core.sha(json.dumps(c[0], sort_keys=True))[:16])
    for fw in ("twisted", "asyncio"):
        impl = wsrun.run_impl(scripts, fw, nproc=16)
        model = wsrun.run_model(ctx.driver, scripts, fw)
        impl = wsrun.stabilise(scripts, fw, impl, model, res.notes)
        res.evaluations += len(scripts)
        for (s, times, exp), a, b in zip(cases, impl, model):
            if a != b:
                fd = wsrun.first_diff(a, b) if not a.startswith("ERROR") else (0, a[:300], "")
                res.correspondence_breaks.append({"stream": f"ws.run timers/{fw}", "script": s, "op": fd[0], "impl": fd[1][:400], "model": fd[2][:400]})
            for key, what in judge_timers(s, times, exp, a):
                if key not in viol:
                    viol[key] = core.Violation(key, f"{fw}: {what}", {"script": s, "times": times, "expect": exp, "fw": fw, "impl": a[:3000]})
    for c in cases[:: max(1, len(cases) // 4)][:4]:
        res.sample({"cfg": c[0]["cfg"], "start": c[0]["start"], "ops": [o[:40] for o in c[0]["ops"]][:14], "expect": {k: v for k, v in c[2].items() if k != "pings"}})
    res.traces_validated = res.evaluations
    res.violations = list(viol.values())
    return res
