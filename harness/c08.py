"""C08 — untrusted WAMP input is either a valid message or a protocol error.

Three streams, all executed against the real code (/repo) and the Lean model/Spec through the driver:

A  structures: for every message class the valid raw lists with each position and each option replaced by values of
   every kind/boundary, wrong element counts, unknown/negative/bool type codes, enc_* subsets, pairs of mutations;
   HELLO/WELCOME role dictionaries: every role x every known feature (names from the live Role*Features signatures) x
   24 values (all falsy non-bools 0, 0.0, "", [], {}, b"", truthy non-bools, null, true/false), unknown feature names,
   wrong containers for features / a role / roles, two-role orders; these also travel through the four real
   serializers and must agree with the prepared-structure path.  Real path: Serializer.unserialize (envelope checks, MESSAGE_TYPE_MAP dispatch, Klass.parse)
   on the prepared structure.  Observable: re-marshalled message + public attributes, or the exception CLASS.
B  URI strings: all strings <= 4 (quick: <= 3 plus a sample) over {a,0,_,.,#,' ','\\n','A','e-acute','arabic 3'} for all 8
   (strict, allow_empty_components, allow_last_empty) triples against the regenerated regex model (Uri.check) and
   against the intended grammar (Uri.Spec.ok); the 11 raw patterns against their models.
C  octets: valid serialisations (json/msgpack/cbor/ubjson, batched and not) under truncation, bit flips, byte
   edits, appended/prepended garbage, length-prefix lies, 0x18 placement, random octets.  The chunks the real code
   hands to the serializer library are compared with the Lean batching model; each chunk's outcome with unserializeOne.

Verdicts:
* an exception class other than ProtocolError / InvalidUriError                  -> Violation "<Exc>:<Class>.parse:<site>"
  (the model proves there is none: parse_total_typed)
* an accepted message that the Spec says must not be accepted (wamp.spec)       -> Violation "uri-accepts-trailing-newline",
  "uri-strict-accepts-unicode-digit", "id-range-unchecked:<Class>.<field>", "wrong-type-accepted:<Class>.<field>"
* an accepted message that the Spec says must be REJECTED (e.g. a non-bool value of a known role feature)
                                                                                -> Violation "accepted-but-spec-rejects:<Class>:<site>"
  (named "id-range-unchecked:<Class>.<field>" / "wrong-type-accepted:<Class>.<field>" when the rejecting check is that of
  an attribute whose accepted value is an id out of range / any other value; "uri-unchecked:<Class>.<field>" when it is a
  string that is not a URI).  The Spec judges URI- and id-typed details by its OWN field table (SchemaSpec.specDetailTable,
  written from the WAMP spec, not read from the schema the parser model interprets).
* a re-marshalled message that does not parse back to the same attributes       -> Violation "reparse-...:<Class>"
* model != real on any observable                                              -> correspondence break

Repairs made in /repo so far and how the model follows them:
* `for ... break ... valid = True` -> `for/else` (forward_for, 13 sites): automatic. translate/wamp_codes.py regenerates
  `ffFixed_<Class>`; the schema then checks the items in parse (ProtocolError, authid must be str).
* `$` -> end-of-string anchor, `[0-9]` for the digit class in the patterns: automatic (patterns are regenerated; the F2
  witnesses are guarded by the generated anchor / class).
* F3 (values reaching a constructor `assert`): parse() now validates them (enc_* `is not None`, enc_key/enc_serializer only
  with enc_algo, payload `== bytes` in all seven classes, UNSUBSCRIBED/UNREGISTERED cross-field check, WELCOME auth* types).
  The model keeps the constructor assertions (`ctorStage`) and PROVES them unreachable (`ctor_assertions_unreachable`,
  `parse_total_typed`).  Should a check disappear from parse() again: model != code (correspondence break) and the
  AssertionError itself is a Violation `AssertionError:<Class>.parse:<field>` (field read off the asserting source line).
* option ids through `check_or_raise_id`: `OTy.id` / `OTy.listId` (Model/Schema.lean); `force_reregister`: `OTy.boolOrNull`;
  role feature named `self`: `self` is positional-only in role.py, the model has no TypeError any more; WELCOME.authmethod is
  written under its own guard (`mm := .truthy`).  A regression of any of these shows as model != code plus a Violation
  `accepted-but-spec-rejects:<Class>:<field>` / `TypeError:<Class>.parse:roles` / `reparse-differs:Welcome.authmethod`.
* anything else the model mirrors by hand (marshal conditions `if self.x:`, PUBLISH's args types): edit the entry's `mm` / `ty`
  in Messages.lean; a stale witness theorem fails with "decide proved the proposition false".

Self-test (scratch copy of /repo/src, VERIF_REPO; 2026-09): see SELFTEST at the end of this file.
"""
import json
import os
import subprocess
from concurrent.futures import ThreadPoolExecutor
from pathlib import Path

from translate import uri_patterns, wamp_codes
from vlib import core, wval

PROP = "C08"
PROOF_MODULES = ["Abverif.Proofs.C08"]
TRANSLATORS = [wamp_codes.translate, uri_patterns.translate]
TRUSTED = [
    "Lean 4.33 kernel; axioms of every theorem audited to be within {propext, Classical.choice, Quot.sound}",
    "hand-written Lean schemas of the 25 message classes (Abverif/Model/Messages.lean over the generic engine "
    "Model/Schema.lean); tied to message.py only by the differential run of this harness",
    "translators translate/wamp_codes.py, translate/uri_patterns.py (type codes, MESSAGE_TYPE_MAP, request_type list, id "
    "bound, regex sources -> Lean; self-checked against the live Python objects on every run)",
    "Python `re` semantics for the regex subset used (modelled in Model/Rx.lean; tied by exhaustive small strings)",
    "json / msgpack / cbor2 / bjdata decoders (not modelled: any exception of theirs is wrapped into ProtocolError by "
    "Serializer.unserialize, which is observed)",
]
ASSUMPTIONS = ["strings with lone surrogates (only JSON can deliver them) are outside the model (Lean Char) and skipped",
               "dict keys that are not str are abstracted to 'has a non-str key'"]
W = Path(__file__).parent / "workers"
MANIFEST_ENTRY = {
    "technique": "Lean 4 schema engine (generic parse/marshal over 25 declarative schemas) + regex model of the URI patterns; "
                 "theorems on totality/strictness/re-parse; differential tie to Serializer.unserialize on structured, URI and octet inputs",
    "text": "Proved in Lean for all inputs and all 25 classes: parse raises only ProtocolError/InvalidUriError "
            "(parse_total_typed, full strength since the F3 repair: the constructor assertions stay in the model and are proved "
            "unreachable from parse - ctor_assertions_unreachable; no TypeError from a role feature named self), an accepted "
            "message has every id in [0,2^53] - positional and inside options (parse_strict_ids, parse_strict_option_ids, "
            "parse_strict_option_id_lists) -, every URI accepted by the regenerated pattern for its flags, every option of its "
            "checked type, an admissible element count and a known type code (parse_strict and its companions; these are stated for the 23 classes other than HELLO/WELCOME, whose role dictionaries are covered by hello_roles_spec / welcome_roles_spec and the Spec theorem below); against the Spec that is written "
            "without reference to the code (protocol id range, intended URI grammar, intended option types, protocol type codes) "
            "an accepted message of any of the 25 classes has no violation except the args of a PUBLISH, which may be str/bytes "
            "(parse_strict_spec_partial, parse_strict_spec_but_publish; the full statement ParseStrictSpec therefore still fails, "
            "for that one open finding, witness kept); "
            "re-marshalling an accepted message "
            "parses back to it under the stated residual conditions (reparse_equiv_partial); the six _URI_PAT_* / _CUSTOM_ATTRIBUTE / "
            "realm regexes (regenerated from message.py) equal the intended grammar for every string (uri_equiv, custom_attr_equiv, "
            "realm_*_equiv: full since /repo 8a098028; F2 witnesses kept guarded by the generated anchor/class); the 13 forward_for "
            "loops are for/else and their entries are checked in parse (forward_for_loops_repaired, parse_strict_forward_for). The model is tied to the code on ~10^5 mutated structures per run, all URI "
            "strings <= 4 over a 10-symbol alphabet for all flag triples, and mutated octet strings for 8 serializer configurations.",
    "note": "Trusted: Lean kernel; the hand-written schemas mirror message.py (checked only by the differential run); Python re "
            "and the serializer libraries. Findings on the unchanged tree are listed in known_findings.d/C08.jsonl.",
}

ALLOWED = {"ProtocolError", "InvalidUriError"}
URI_PATTERNS = ["_URI_PAT_STRICT_EMPTY", "_URI_PAT_LOOSE_EMPTY", "_URI_PAT_STRICT_NON_EMPTY", "_URI_PAT_LOOSE_NON_EMPTY",
                "_URI_PAT_STRICT_LAST_EMPTY", "_URI_PAT_LOOSE_LAST_EMPTY", "_CUSTOM_ATTRIBUTE", "_URI_PAT_REALM_NAME",
                "_URI_PAT_REALM_NAME_ETH", "_URI_PAT_REALM_NAME_ENS", "_URI_PAT_REALM_NAME_ENS_REVERSE"]


def run_worker(script, job, timeout=3000):
    e = dict(os.environ)
    e["PYTHONPATH"] = os.pathsep.join([str(core.REPO / "src"), str(core.VERIF)])
    e.setdefault("PYTHONHASHSEED", "0")
    e["AUTOBAHN_VERIF"] = "1"
    p = subprocess.run([core.PY, str(script)], input=json.dumps(job), env=e, capture_output=True, text=True, cwd="/",
                       timeout=timeout)
    if p.returncode != 0:
        raise RuntimeError(f"{Path(script).name} failed: " + p.stderr[-2500:])
    return json.loads(p.stdout)


def canon_out(s):
    """canonical form of an outcome line (driver or worker): dict keys sorted"""
    parts = s.split(" ")
    if parts[0] == "ok" and len(parts) >= 4:
        mar = parts[2] if parts[2].startswith("marshal-raises") else wval.canon(parts[2])
        return "ok %s %s %s" % (parts[1], mar, wval.canon(parts[3]))
    return " ".join(parts[:2])


def class_of_tok(tok, code_names):
    try:
        v = wval.dec(tok)
        if isinstance(v, list) and v and type(v[0]) is int:
            return code_names.get(v[0], "?")
    except Exception:  # noqa: BLE001
        pass
    return "?"


def site_from_line(det):
    """the field a non-library exception belongs to, from the source line that raised it (used when the model does
    not raise that class itself, i.e. for every AssertionError / TypeError since the model mirrors the repaired code)"""
    line = det.get("line", "")
    import re as _re0
    if "role_cls(" in line:
        return "roles"                                  # Role*Features(**features)
    m = _re0.search(r"assert \(request != 0 and (\w+) is None\)", line)
    if m:
        return m.group(1)                               # UNSUBSCRIBED / UNREGISTERED cross-field assertion
    if line.startswith("assert (enc_algo is None and enc_key is None"):
        return "enc_key"                                # enc_key / enc_serializer without enc_algo
    for tokn in ("forward_for", "enc_algo", "enc_key", "enc_serializer", "payload", "kwargs", "args"):
        if tokn in line:
            return tokn
    import re as _re
    m = _re.search(r"assert\s+\(?(\w+)", line)
    if m:
        return m.group(1)
    return det.get("where", "?")


def falsy_norm(fields):
    """None == empty/False for the C08 re-parse comparison ("equal up to omitted defaults"), per attribute"""
    out = {}
    for k, v in fields.items():
        if v is None or v is False or (isinstance(v, (str, bytes, list, dict)) and len(v) == 0) or (type(v) is int and v == 0):
            out[k] = None
        else:
            out[k] = v
    return out


def uri_kind(s, strict):
    if s.endswith("\n"):
        return "uri-accepts-trailing-newline"
    if strict and any(c.isdigit() and ord(c) > 127 for c in s):
        return "uri-strict-accepts-unicode-digit"
    return None


# ------------------------------------------------------------------------------------------------- part A

def part_struct(ctx, res, code_names, replay_tok=None):
    nproc = 12
    if replay_tok is not None:
        outs = [run_worker(W / "c08_worker.py", {"mode": "replay", "tok": replay_tok})]
    else:
        jobs = [{"mode": "struct", "tier": ctx.tier, "seed": ctx.seed, "part": i, "parts": nproc} for i in range(nproc)]
        with ThreadPoolExecutor(nproc) as ex:
            outs = list(ex.map(lambda j: run_worker(W / "c08_worker.py", j), jobs))
    cases = []
    seen = set()
    for o in outs:
        for c in o["cases"]:
            if c["tok"] not in seen:
                seen.add(c["tok"])
                cases.append(c)
    ans = ctx.driver.run(["wamp.parse " + c["tok"] for c in cases])
    spec = ctx.driver.run(["wamp.spec " + c["tok"] for c in cases])
    # second round: the re-marshalled messages
    re_lines, re_idx = [], []
    for i, c in enumerate(cases):
        if c["real"].startswith("ok ") and not c["real"].split(" ")[2].startswith("marshal-raises"):
            re_lines.append("wamp.parse " + c["real"].split(" ")[2])
            re_idx.append(i)
    re_ans = dict(zip(re_idx, ctx.driver.run(re_lines)))
    vio_seen = res.vio_seen

    def violate(key, what, replay):
        if key in vio_seen:
            return
        vio_seen.add(key)
        res.violations.append(core.Violation(key, what, replay))

    for i, (c, a, sp) in enumerate(zip(cases, ans, spec)):
        res.evaluations += 1
        label = c["label"].split(":")[0] + ":" + (c["label"].split(":")[1] if ":" in c["label"] else "")
        if a == "bad-op":
            res.correspondence_breaks.append({"stream": "struct", "tok": c["tok"], "model": "bad-op (token not understood)"})
            continue
        r, m = canon_out(c["real"]), canon_out(a)
        kind = r.split(" ")[0] + ":" + (r.split(" ")[1] if r.startswith("err") else "")
        res.count("A:" + kind)
        res.count("A.label:" + c["label"].split(":")[1] if ":" in c["label"] else "A.label:" + c["label"])
        cname = class_of_tok(c["tok"], code_names)
        replay = {"stream": "struct", "tok": c["tok"], "real": c["real"][:400], "model": a[:400], "detail": c.get("det")}
        if r != m:
            res.correspondence_breaks.append({"stream": "struct", "label": c["label"], "tok": c["tok"],
                                              "real": c["real"][:600], "model": a[:600]})
        if r.startswith("err"):
            exc = r.split(" ")[1]
            if exc not in ALLOWED:
                site = a.split(" ")[2] if (a.startswith("err " + exc) and len(a.split(" ")) > 2) else site_from_line(c.get("det", {}))
                violate(f"{exc}:{cname}.parse:{site}",
                        f"{cname}.parse raises {exc} (not ProtocolError/InvalidUriError) on untrusted input; "
                        f"source line: {c.get('det', {}).get('line', '')[:120]}", replay)
            res.distinct.add(("A", cname, exc, c["label"]))
        else:
            res.distinct.add(("A", cname, "ok", c["label"]))
            # Spec verdict on what was accepted
            if sp.startswith("viol "):
                fields = wval.dec(c["real"].split(" ")[3])
                for fr in sp.split(" ")[2].split(","):
                    f, reason = fr.split(":")
                    if reason == "uri":
                        s = fields.get(f)
                        k = uri_kind(s, False) if isinstance(s, str) else None
                        key = k or f"uri-grammar:{cname}.{f}"
                        what = f"{cname}.parse accepts {f}={s!r}, which is outside the intended URI grammar"
                    elif reason == "code":
                        key = f"type-code:{cname}"
                        what = f"a message with type code {wval.dec(c['tok'])[0]} is accepted as {cname}: not the WAMP protocol's code for that class"
                    elif reason == "spec-table":
                        # the Spec's OWN field table (written from the WAMP spec) says this detail is a URI / an id
                        vv = fields.get(f)
                        kind = "uri-unchecked" if isinstance(vv, str) else (
                            "id-range-unchecked" if type(vv) is int or isinstance(vv, list) else "wrong-type-accepted")
                        key = f"{kind}:{cname}.{f}"
                        what = f"{cname}.parse accepts {f}={vv!r}: the WAMP spec makes this field a URI / an id (Spec field table)"
                    elif reason == "id-range":
                        key = f"id-range-unchecked:{cname}.{f}"
                        what = f"{cname}.parse accepts {f}={fields.get(f)!r}: a WAMP id outside [0, 2^53]"
                    else:
                        key = f"wrong-type-accepted:{cname}.{f}"
                        what = f"{cname}.parse accepts {f}={fields.get(f)!r}: not of the option's type"
                    violate(key, what, replay)
            elif sp.startswith("reject"):
                # the real code ACCEPTS what the Spec (theorems roles_accept_iff, parse_strict, …) says must be rejected
                site = a.split(" ")[2] if len(a.split(" ")) > 2 else "?"
                fields = wval.dec(c["real"].split(" ")[3])
                val = fields.get(site)

                def off_range(x):
                    return type(x) is int and not 0 <= x <= 2 ** 53
                if off_range(val) or (isinstance(val, list) and val and all(type(x) is int for x in val)
                                      and any(off_range(x) for x in val)):
                    # the model checks this field with check_or_raise_id, the code let the value through
                    violate(f"id-range-unchecked:{cname}.{site}",
                            f"{cname}.parse accepts {site}={val!r}: a WAMP id outside [0, 2^53]", replay)
                elif sp.split(" ")[1] == "InvalidUriError" and isinstance(val, str):
                    violate(f"uri-unchecked:{cname}.{site}",
                            f"{cname}.parse accepts {site}={val!r}: not a URI (the model checks this field with check_or_raise_uri)", replay)
                elif site in fields and val is not None and site != "roles":
                    violate(f"wrong-type-accepted:{cname}.{site}",
                            f"{cname}.parse accepts {site}={val!r}: the model's check at '{site}' raises {sp.split(' ')[1]}", replay)
                else:
                    violate(f"accepted-but-spec-rejects:{cname}:{site}",
                            f"{cname}.parse accepts an input that must raise {sp.split(' ')[1]} (check at '{site}'): {c['tok'][:160]}", replay)
            # re-parse equivalence
            rp = c.get("det", {}).get("reparse")
            if rp is not None:
                if i in re_ans and canon_out(re_ans[i]).split(" ")[0] != rp.split(" ")[0]:
                    res.correspondence_breaks.append({"stream": "struct-reparse", "tok": c["real"].split(" ")[2],
                                                      "real": rp[:300], "model": re_ans[i][:300]})
                if rp.startswith("err"):
                    violate(f"reparse-raises:{rp.split(' ')[1]}:{cname}",
                            f"{cname}: the re-marshalled form of an accepted message does not parse ({rp})", replay)
                else:
                    f1 = falsy_norm(wval.dec(c["real"].split(" ")[3]))
                    f2 = falsy_norm(wval.dec(rp.split(" ")[1]))
                    if f1 != f2:
                        diff = sorted(k for k in set(f1) | set(f2) if f1.get(k) != f2.get(k))
                        if all(k.startswith("enc_") for k in diff):
                            diff = ["enc_*"]        # enc_* next to an EMPTY payload are not re-marshalled
                        violate(f"reparse-differs:{cname}.{'+'.join(diff)}",
                                f"{cname}: re-marshalled form parses to different attributes {diff}", replay)
        if len(res.samples) < 3 and c["label"].endswith("pair"):
            res.sample({"tok": c["tok"][:200], "real": r[:200]})
    res.count("A.cases", len(cases))
    return len(cases)


# ------------------------------------------------------------------------------------------------- part B

def part_uri(ctx, res):
    nproc = 8
    maxlen = 3 if ctx.tier == "quick" else 4
    extra = []
    rng = ctx.rng
    alpha = ["a", "0", "_", ".", "#", " ", "\n", "A", "é", "٣", "z", "9", "-", "@", "x", "e", "t", "h", "F", "\t", " ", "\U0001f600", "１"]
    for _ in range(3000 if ctx.tier == "quick" else 120000):
        n = rng.choice([4, 5, 6, 8, 12, 20, 43])
        extra.append("".join(rng.choice(alpha) for _ in range(n)))
    extra += ["x_", "x_a", "x_ab", "x_ab\n", "x_a٣", "x_abc_9", "realm1", "ab", "abc", "a" * 255, "a" * 256, "a" * 254 + "\n",
              "0x" + "a" * 40, "0x" + "A" * 39 + "٣", "0x" + "a" * 40 + "\n", "wamp-proto.eth", "eth.wamp-proto", "a.eth", "ab.eth\n",
              "eth.ab", "eth.a"]
    jobs = [{"mode": "uri", "maxlen": maxlen, "part": i, "parts": nproc, "patterns": URI_PATTERNS,
             "extra": extra[i::nproc]} for i in range(nproc)]
    with ThreadPoolExecutor(nproc) as ex:
        outs = list(ex.map(lambda j: run_worker(W / "c08_worker.py", j), jobs))
    rows, extras = [], []
    for o in outs:
        rows += o["rows"]
        extras += o["extra"]
    triples = [(s, ae, ale) for s in (0, 1) for ae in (0, 1) for ale in (0, 1)]
    lines = []
    for hx, bits, pb in rows:
        for (s, ae, ale) in triples:
            lines.append(f"uri.check {s} {ae} {ale} {hx}")
            lines.append(f"uri.spec {s} {ae} {ale} {hx}")
        for name in URI_PATTERNS:
            lines.append(f"uri.pat {name} {hx}")
    for hx, pb in extras:
        for name in URI_PATTERNS:
            lines.append(f"uri.pat {name} {hx}")
            lines.append(f"uri.patspec {name} {hx}")
    ans = ctx.driver.run(lines)
    j = 0
    vio_seen = res.vio_seen
    nspecdiff = 0
    for hx, bits, pb in rows:
        s = bytes.fromhex("" if hx == "-" else hx).decode("utf8")
        if "," in bits or "E" in bits:
            key = "uri-check-raises-other"
            if key not in vio_seen:
                vio_seen.add(key)
                res.violations.append(core.Violation(key, f"check_or_raise_uri({s!r}) raises something else: {bits}",
                                                     {"stream": "uri", "s": hx, "bits": bits}))
            j += 16 + len(URI_PATTERNS)
            continue
        for ti, (st, ae, ale) in enumerate(triples):
            chk, spc = ans[j], ans[j + 1]
            j += 2
            res.evaluations += 1
            if chk != bits[ti]:
                res.correspondence_breaks.append({"stream": "uri", "s": hx, "flags": [st, ae, ale], "real": bits[ti], "model": chk})
            if bits[ti] != spc:
                nspecdiff += 1
                k = uri_kind(s, bool(st)) if bits[ti] == "1" else None
                key = k or f"uri-grammar-mismatch:strict={st},empty={ae},last_empty={ale}:{'accepts' if bits[ti] == '1' else 'rejects'}"
                if key not in vio_seen:
                    vio_seen.add(key)
                    res.violations.append(core.Violation(
                        key, f"check_or_raise_uri({s!r}, strict={bool(st)}, allow_empty_components={bool(ae)}, "
                             f"allow_last_empty={bool(ale)}) {'accepts' if bits[ti] == '1' else 'rejects'}; the intended grammar says the opposite",
                        {"stream": "uri", "s": hx, "text": s, "flags": [st, ae, ale], "real": bits[ti], "spec": spc}))
            if len(s) >= 2:
                res.distinct.add(("B", hx))
        for pi, name in enumerate(URI_PATTERNS):
            if ans[j] != pb[pi]:
                res.correspondence_breaks.append({"stream": "uri-pattern", "pattern": name, "s": hx, "real": pb[pi], "model": ans[j]})
            j += 1
            res.evaluations += 1
    for hx, pb in extras:
        s = bytes.fromhex("" if hx == "-" else hx).decode("utf8")
        for pi, name in enumerate(URI_PATTERNS):
            mod, spc = ans[j], ans[j + 1]
            j += 2
            res.evaluations += 1
            if mod != pb[pi]:
                res.correspondence_breaks.append({"stream": "uri-pattern", "pattern": name, "s": hx, "real": pb[pi], "model": mod})
            if pb[pi] != spc and name in ("_CUSTOM_ATTRIBUTE", "_URI_PAT_REALM_NAME", "_URI_PAT_REALM_NAME_ETH",
                                           "_URI_PAT_REALM_NAME_ENS", "_URI_PAT_REALM_NAME_ENS_REVERSE") or \
                    (pb[pi] != spc and name.startswith("_URI_PAT_")):
                k = None
                if pb[pi] == "1":
                    k = "uri-accepts-trailing-newline" if s.endswith("\n") else (
                        "uri-strict-accepts-unicode-digit" if any(c.isdigit() and ord(c) > 127 for c in s) else None)
                key = k or f"pattern-grammar-mismatch:{name}"
                if key not in vio_seen:
                    vio_seen.add(key)
                    res.violations.append(core.Violation(key, f"{name}.match({s!r}) = {pb[pi]}, intended grammar = {spc}",
                                                         {"stream": "uri-pattern", "pattern": name, "s": hx, "text": s}))
        res.distinct.add(("B", hx))
    # non-str values
    for tok, row in outs[0]["nonstr"]:
        res.evaluations += 1
        exp = ["InvalidUriError", "ok" if tok == "n" else "InvalidUriError"]
        if row != exp:
            res.violations.append(core.Violation("uri-nonstr-outcome", f"check_or_raise_uri({tok}) -> {row}, expected {exp}",
                                                 {"stream": "uri-nonstr", "tok": tok, "real": row}))
    res.count("B.strings", len(rows))
    res.count("B.extra_strings", len(extras))
    res.count("B.real!=spec", nspecdiff)
    return len(rows)


# ------------------------------------------------------------------------------------------------- part C

def part_octets(ctx, res, code_names, replay=None):
    nproc = 8
    jobs = [{"mode": "octets", "tier": ctx.tier, "seed": ctx.seed, "part": i, "parts": nproc} for i in range(nproc)]
    with ThreadPoolExecutor(nproc) as ex:
        outs = list(ex.map(lambda j: run_worker(W / "c08_worker.py", j), jobs))
    cases = [c for o in outs for c in o["cases"]]
    if replay is not None:
        cases = [c for c in cases if c["ser"] == replay["ser"] and c["payload"] == replay["payload"]]
    # model chunking for the batched serializers
    ulines, uidx = [], []
    for i, c in enumerate(cases):
        if c["ser"].endswith(".batched"):
            ulines.append(("unbatch.json " if c["ser"].startswith("json") else "unbatch.bin ") + c["payload"])
            uidx.append(i)
    uans = dict(zip(uidx, ctx.driver.run(ulines)))
    # model verdict on every decoded chunk
    plines, pidx = [], []
    for i, c in enumerate(cases):
        for k, (hx, tok) in enumerate(c["chunks"]):
            if not tok.startswith(("DECODE_ERR", "SURROGATE", "TOO_DEEP")):
                plines.append("wamp.parse " + tok)
                pidx.append((i, k))
    pans = dict(zip(pidx, ctx.driver.run(plines)))
    vio_seen = res.vio_seen
    for i, c in enumerate(cases):
        res.evaluations += 1
        res.count("C:" + c["ser"])
        res.count("C.label:" + c["label"])
        real = c["real"]
        rk = real.split(" ")[0] + (":" + real.split(" ")[1] if real.startswith("err") else "")
        res.count("C.outcome:" + rk)
        replay_d = {"stream": "octets", "ser": c["ser"], "payload": c["payload"], "real": real[:300], "label": c["label"]}
        if real.startswith("err") and real.split(" ")[1] not in ALLOWED:
            key = f"{real.split(' ')[1]}:unserialize:{c['ser'].split('.')[0]}"
            # refine with the class if the failing chunk decoded
            for k, (hx, tok) in enumerate(c["chunks"]):
                if (i, k) in pans and pans[(i, k)].startswith("err " + real.split(" ")[1]):
                    key = f"{real.split(' ')[1]}:{class_of_tok(tok, code_names)}.parse:{pans[(i, k)].split(' ')[2]}"
            if key not in vio_seen:
                vio_seen.add(key)
                res.violations.append(core.Violation(key, f"{c['ser']}: unserialize raises {real.split(' ')[1]} on mutated octets", replay_d))
        if any(tok in ("SURROGATE", "TOO_DEEP") for _, tok in c["chunks"]):
            res.count("C.skipped-unrepresentable")
            continue
        # expected outcome from the model
        chunks_model = None
        if i in uans:
            if uans[i].startswith("ok"):
                lst = uans[i].split(" ")[1]
                chunks_model = [] if lst == "." else lst.split(",")
            else:
                chunks_model = "err"
        else:
            chunks_model = [c["payload"]]
        exp = None
        if chunks_model == "err":
            exp = "err ProtocolError"
            obs = [hx for hx, _ in c["chunks"]]
            # whatever was decoded before the format error must be a prefix of the payload's framing
        else:
            obs = [hx for hx, _ in c["chunks"]]
            if c["ser"].startswith("json"):
                # chunks are decoded to str before json.loads: undecodable UTF-8 never reaches the library
                pass
            if obs != chunks_model[:len(obs)]:
                undec = False
                if c["ser"].startswith("json"):
                    try:
                        for hx in chunks_model:
                            bytes.fromhex("" if hx == "-" else hx).decode("utf8")
                    except UnicodeDecodeError:
                        undec = True
                if not undec:
                    res.correspondence_breaks.append({"stream": "octets-chunking", "ser": c["ser"], "payload": c["payload"],
                                                      "real_chunks": obs[:5], "model_chunks": chunks_model[:5]})
            toks = []
            for k, (hx, tok) in enumerate(c["chunks"]):
                if tok.startswith("DECODE_ERR"):
                    exp = "err ProtocolError"
                    break
                a = pans[(i, k)]
                if a.startswith("err"):
                    exp = "err " + a.split(" ")[1]
                    break
                toks.append(wval.canon(a.split(" ")[2]))
            if exp is None:
                if len(c["chunks"]) < len(chunks_model):
                    # the real code stopped before a chunk the model delivers: legitimate only for JSON text that is
                    # not valid UTF-8 (it never reaches the JSON library)
                    nxt = chunks_model[len(c["chunks"])]
                    undecodable = False
                    if c["ser"].startswith("json"):
                        try:
                            bytes.fromhex("" if nxt == "-" else nxt).decode("utf8")
                        except UnicodeDecodeError:
                            undecodable = True
                    if undecodable:
                        exp = "err ProtocolError"
                    else:
                        exp = "model-delivers-more-chunks"
                else:
                    exp = "ok " + (",".join(toks) if toks else ".")
        if exp.split(" ")[:2] != real.split(" ")[:2] or (exp.startswith("ok") and exp != real):
            res.correspondence_breaks.append({"stream": "octets", "ser": c["ser"], "payload": c["payload"], "label": c["label"],
                                              "real": real[:300], "model": exp[:300]})
        if c["label"] not in ("orig",):
            res.distinct.add(("C", c["ser"], core.sha(c["payload"])[:12]))
    res.count("C.cases", len(cases))
    return len(cases)


# ------------------------------------------------------------------------------------------------- translator self-check

def translator_selfcheck(ctx, res):
    o = run_worker(W / "c08_tables.py", {"patterns": URI_PATTERNS})
    lines = [f"wamp.code {c}" for c in o["codes"]] + [f"uri.src {n}" for n in URI_PATTERNS] + \
            [f"wamp.lengths {c}" for c in o["codes"]] + ["wamp.rolefeatures", "wamp.typemap"]
    ans = ctx.driver.run(lines)
    n = len(o["codes"])
    code_names = {}
    for (c, code), a in zip(o["codes"].items(), ans[:n]):
        code_names[code] = c
        if a != str(code):
            res.correspondence_breaks.append({"stream": "translator", "what": f"MESSAGE_TYPE {c}", "real": code, "generated": a})
    for name, a in zip(URI_PATTERNS, ans[n:n + len(URI_PATTERNS)]):
        if bytes.fromhex(a).decode("utf8") != o["patterns"][name]:
            res.correspondence_breaks.append({"stream": "translator", "what": f"pattern {name}", "real": o["patterns"][name], "generated": a})
    gen_rf = {e.split(":")[0]: e.split(":")[1].split(",") for e in ans[-2].split(";")}
    if gen_rf != o["role_features"]:
        res.correspondence_breaks.append({"stream": "translator", "what": "role feature names (role.py __init__ signatures)",
                                          "real": o["role_features"], "generated": gen_rf})
    tm = ",".join(sorted(ans[-1].split(","), key=lambda e: int(e.split(":")[0])))
    real_tm = ",".join(f"{k}:{v}" for k, v in sorted(o["type_map"].items(), key=lambda kv: int(kv[0])))
    if tm != real_tm:
        res.correspondence_breaks.append({"stream": "translator", "what": "MESSAGE_TYPE_MAP", "real": real_tm, "generated": tm})
    res.evaluations += len(lines)
    return {int(k): v for k, v in o["type_map"].items()}


def run(ctx):
    res = core.Result()
    res.vio_seen = set()
    res.rule = ("A: per class, valid raw lists with every position / every option replaced by ~90 values of every kind and "
                "boundary, every element count 0..max+2, type-code variants, role dictionaries, all enc_* subsets x payload "
                "kinds, random pairs/triples of mutations; B: all strings of length <= 3 (quick) / <= 4 (thorough) over a "
                "10-symbol alphabet x 8 flag triples + random longer strings against 11 patterns; C: valid serialisations x "
                "{truncation, bit flip, byte edit, garbage, length-prefix lie, 0x18 placement, random} x 8 serializer "
                "configurations. Non-trivial = distinct (class, outcome class, mutation label) in A, distinct strings of "
                "length >= 2 in B, distinct mutated payloads in C.")
    code_names = translator_selfcheck(ctx, res)
    if ctx.replay_path:
        rfile = json.loads(Path(ctx.replay_path).read_text())
        rp = rfile.get("replay", {})
        if "seed" in rfile:
            ctx.seed = rfile["seed"]          # the octet stream is regenerated from the seed the replay was found with
        if "tier" in rfile:
            ctx.tier = rfile["tier"]
        if rp.get("stream") in ("struct", None) and "tok" in rp:
            part_struct(ctx, res, code_names, replay_tok=rp["tok"])
            return res
        if rp.get("stream") == "octets":
            part_octets(ctx, res, code_names, replay=rp)
            return res
        if rp.get("stream", "").startswith("uri"):
            part_uri(ctx, res)
            return res
    ctx.log("part A (structures)")
    part_struct(ctx, res, code_names)
    ctx.log("part B (URI strings)")
    part_uri(ctx, res)
    ctx.log("part C (octets)")
    part_octets(ctx, res, code_names)
    res.exhaustive = False
    res.traces_validated = res.evaluations
    res.notes.append("URI alphabet strings are enumerated exhaustively up to the stated length for every flag triple")
    return res


SELFTEST = """
Mutation self-test (scratch copy of /repo/src via VERIF_REPO, quick tier, 2026-09; exit code, first replay keys):

 M2  Cancel.MESSAGE_TYPE 49 -> 51                                  rc=1  type-code:Cancel (accepted message judged against the protocol's code table)
 M3  check_or_raise_id bound 2^53 -> 2^63                          rc=1  id-range-unchecked:Published.request, ... (27 new keys)
 M4  Publish.parse: drop the `acknowledge` bool check              rc=1  AssertionError:Publish.parse:acknowledge
 M5  Subscribe.parse: len(wmsg) != 4 -> != 5                       rc=1  reparse-raises:ProtocolError:Subscribe, + correspondence break, + schema_lengths no longer proves
 M6  JSON batch split [:-1] -> [1:]                                rc=1  correspondence break on the chunking (concrete payload in the replay)
 M8  CBOR batch length prefix read little-endian                   rc=1  correspondence break on the chunking (concrete payload in the replay)
 M9  _URI_PAT_LOOSE_NON_EMPTY loses '#' from its class             rc=1  uri-grammar:Error.error, uri-grammar:Call.procedure, ... (12 keys) + uriClass_loose_ok no longer proves
 S1  seeded: RoleFeatures._check_all_bool tests `if v and type(v) != bool` (falsy non-bool feature values accepted)
                                                                   rc=1  accepted-but-spec-rejects:Hello:roles, accepted-but-spec-rejects:Welcome:roles
                                                                         (e.g. [1,"realm1",{"roles":{"subscriber":{"features":{"publisher_identification":{}}}}}], via all 4 serializers)
 H1  harmless: GOODBYE option blocks swapped, local renamed, f-string -> format   rc=0 (silent)

Regression test of the 2026-09 repair round (five fix: commits in message.py / role.py; the model mirrors the repaired code).
Run against the tree WITHOUT the repairs (seeds 0, 1, 2): rc=1, and every one of the 41 known_findings entries that the
round set to "fixed" is reported as a VIOLATION under its own key with a replay file -
 R1  Welcome.marshal writes authmethod under `if self.authrole:`     reparse-differs:Welcome.authmethod (C03: roundtrip:Welcome.authmethod:changed)
 R2  role feature dict splatted with a key `self`                    TypeError:Hello.parse:roles, TypeError:Welcome.parse:roles
 R3  force_reregister `not in [True, False, None]`                   wrong-type-accepted:Register.force_reregister
 R4  option ids checked for `int` only (11 sites)                    id-range-unchecked:<Class>.<field> (11 keys)
 R5  values reaching constructor asserts (29 sites)                  AssertionError:<Class>.parse:<field> (25 keys), reparse-raises:AssertionError:Publish
Against the repaired tree: rc=0 for seeds 0, 1, 2 (quick) and seed 0 (thorough), none of these keys, no correspondence break.
"""
