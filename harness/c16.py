"""C16 — configured payload limits are enforced early and never by truncation."""
import json
from pathlib import Path

from vlib import core
from harness import wsgen, wsrun, wsoracle

PROP = "C16"
PROOF_MODULES = ["Abverif.Proofs.C16", "Abverif.Proofs.Lemmas.HeaderTable", "Abverif.Proofs.C02", "Abverif.Proofs.Lemmas.WsFrame", "Abverif.Proofs.Lemmas.WsExt", "Abverif.Proofs.Lemmas.WsSeg", "Abverif.Proofs.Lemmas.WsSeg2", "Abverif.Proofs.Lemmas.WsData", "Abverif.Proofs.WsSegmentation", "Abverif.Proofs.Lemmas.WsJudge", "Abverif.Proofs.Lemmas.WsJudge2", "Abverif.Proofs.WsRefinement", "Abverif.Proofs.C01", "Abverif.Proofs.C15", "Abverif.Proofs.Lemmas.WsEncode", "Abverif.Proofs.WsRoundtrip", "Abverif.Proofs.WsJudgeProps"]
MANIFEST_ENTRY = {
    "technique": 'Lean 4 theorems about the limit checks (at-header failure, send refusal writes nothing, transparency below the limit) + correspondence with header-only delivery + zlib-peer oracle for the decompression cap',
    "text": 'Proved on the model: an over-limit sendMessage raises and changes nothing else; the receive limits are evaluated in onMessageFrameBegin on the declared length, i.e. at the header and before any payload octet of that frame is buffered, failing with 1009 per fail policy; within limits the check is pure bookkeeping; after a failure nothing is buffered or delivered; delivered_message_within_limit (Proofs/WsJudgeProps.lean): for every octet stream in every segmentation fed to a fresh endpoint (failByDrop), no delivered message is longer than maxMessagePayloadSize - a corollary of recv_refines_judge and the judge invariant (declared lengths summed, 1009 as soon as the sum crosses the limit). Tied to the code by per-read comparison incl. header-only delivery (payload withheld) and by the Spec judge (1009 exactly when a declared length crosses a limit). The decompression cap and refused compressed sends are outside the Ws model (the codec is not modelled there): implementation-level oracle with an independent zlib peer - an over-cap compressed message (one frame or fragmented, delivered whole or in small reads, compressible or not) is never delivered whole, truncated or altered, the connection is failed with 1009 per fail policy and nothing escapes dataReceived, messages within the cap and their successors arrive intact; a refused compressed send writes nothing and later messages inflate at the peer (C12 lossless_with_send_limit proves the latter on the codec-contract model). The three defects found here (truncation, corrupted successor, desynchronised compressor) were repaired in /repo (b798f81c, 93aa9965). The send-side theorem and refusal are about sendMessage: sendPreparedMessage and the frame/streaming API never look at maxMessagePayloadSize - two open findings (over-limit-send-not-refused:prepared / :streaming), reproduced in every run.',
    "note": 'Trusted: Lean kernel; model tied by differential execution; limits are in declared (wire) payload octets; zlib.',
}
TRUSTED = [
    "Lean 4.33 kernel; axioms of every theorem within {propext, Classical.choice, Quot.sound}",
    "model Abverif/Model/Ws.lean (onMessageFrameBegin limit checks on declared lengths, sendMessage refusal) tied to the code by the "
    "shared ws.run correspondence on real Twisted/asyncio objects; spec = WsSpec.judge with maxFrame/maxMsg",
    "decompression cap and refused compressed sends: implementation-level oracle with an independent zlib peer (the codec is not modelled)",
]
ASSUMPTIONS = ["limits are in the unit the code uses: declared frame payload lengths (wire lengths when a PMCE is on)"]
W = Path(__file__).parent / "workers"
LIMITS = [1, 2, 125, 126, 1000, 65535, 65536]


def fragmentations(rng, total, limit):
    """ways of spreading `total` payload octets over frames -> list of list of fragment lengths"""
    out = [[total]]
    if total >= 2:
        k = rng.choice([2, 3, 4])
        q = total // k
        out.append([q] * (k - 1) + [total - q * (k - 1)])
    if 0 < limit < total:
        out.append([limit, total - limit])           # the limit is reached exactly at a fragment boundary
        out.append([limit - 1, 1, total - limit] if limit > 1 else [1, total - 1])
    if total <= 200:
        out.append([1] * total)
    out.append([0, total, 0] if total else [0, 0])
    return out


def gen_cases(ctx):
    rng = ctx.rng
    cases = []
    lims = LIMITS if ctx.tier == "thorough" else [1, 2, 125, 126, 1000, rng.choice([65535, 65536])]
    skip = 0
    for limit in lims:
        for which in ("mm", "mf", "both"):
            for srv in (0, 1):
                for fbd in (1, 0):
                    if ctx.tier != "thorough" and (limit + srv + fbd + len(which)) % 2:
                        continue
                    if ctx.tier != "thorough" and limit > 60000 and not (which == "mm" and fbd == 1):
                        continue
                    cfg = {"srv": srv, "fbd": fbd}
                    if which in ("mm", "both"):
                        cfg["mm"] = limit
                    if which in ("mf", "both"):
                        cfg["mf"] = limit if which == "mf" else max(1, limit // 2)
                    sizes = sorted(set([max(0, limit - 1), limit, limit + 1] + ([10 * limit] if (limit < 60000 or ctx.tier == "thorough") else [limit + 4096])
                                       + ([1 << 20] if ctx.tier == "thorough" and limit == 65536 and which == "mm" and fbd else [])))
                    for total in sizes:
                        frs = fragmentations(rng, total, limit)
                        if total > 60000 and ctx.tier != "thorough":
                            frs = frs[:3]
                        for frag in frs:
                            binary = rng.randrange(2)
                            frames = []
                            for i, n in enumerate(frag):
                                pl = rng.randbytes(n) if binary else bytes(rng.choice(b"abc xyz") for _ in range(n))
                                mk = rng.randbytes(4) if srv else None
                                frames.append(wsgen.frame((2 if binary else 1) if i == 0 else 0, pl, fin=int(i == len(frag) - 1), mask=mk))
                            # a normal small message first and after (must be unaffected when everything is within limits)
                            mk = rng.randbytes(4) if srv else None
                            pre = wsgen.frame(2, b"", mask=mk)
                            stream = pre + b"".join(frames)
                            cases.append((cfg, stream, frames, pre))
    return cases


def run(ctx):
    res = core.Result()
    res.rule = ("receive: limits {1,2,125,126,1000,65535,65536} as maxMessagePayloadSize, maxFramePayloadSize or both x payload sizes "
                "{limit-1, limit, limit+1, 10*limit, 2^24} x fragmentations (one frame, k equal fragments, limit reached exactly at a fragment "
                "boundary, 1-octet fragments, empty first/last fragments) x roles x failByDrop; each stream is delivered (a) whole, (b) cut "
                "right after every frame header (payload withheld) and (c) randomly; observables compared with the Lean model per read and "
                "with WsSpec.judge (1009 exactly when a declared length crosses a limit, at the header, nothing delivered); send: sendMessage "
                "at limit-1/limit/limit+1; compression: decompression cap and refused compressed send against an independent zlib peer; "
                "non-trivial = distinct (config, stream)")
    viol = {}

    def add(key, what, replay):
        if key not in viol:
            viol[key] = core.Violation(key, what, replay)
    cases = gen_cases(ctx)
    rng = ctx.rng
    scripts, meta = [], []
    for cfg, stream, frames, pre in cases:
        res.distinct.add((wsrun.cfg_token(cfg), core.sha(stream)[:16]))
        # (a) whole
        scripts.append({"cfg": cfg, "start": "open", "ops": ["feed," + wsgen.hx(stream), "lost"]})
        meta.append((cfg, stream, "whole", None))
        # (b) header-only delivery: cut after each frame's header, withholding the payload at first
        pos = len(pre)
        cuts = []
        for f in frames:
            hl = 2 + (0 if (f[1] & 127) < 126 else (2 if (f[1] & 127) == 126 else 8)) + (4 if f[1] & 128 else 0)
            cuts.append(pos + hl)
            pos += len(f)
        pieces = [stream[a:b] for a, b in zip([0] + cuts, cuts + [len(stream)])]
        scripts.append({"cfg": cfg, "start": "open", "ops": ["feed," + wsgen.hx(p) for p in pieces] + ["lost"]})
        meta.append((cfg, stream, "headers", cuts))
        # (c) random
        scripts.append({"cfg": cfg, "start": "open", "ops": ["feed," + wsgen.hx(p) for p in wsgen.segment(rng, stream, "random")] + ["lost"]})
        meta.append((cfg, stream, "random", None))
    ctx.log(f"{len(scripts)} receive scripts, {sum(len(m[1]) for m in meta)} stream octets")
    judge = ctx.driver.run([f"ws.judge {wsrun.cfg_token(c)} {wsgen.hx(s)}" for c, s, _, _ in meta])
    ctx.log("judged")
    # prefix judgements for the early-failure clause: the stream up to each header cut
    pre_lines, pre_idx = [], []
    for i, (c, s, mode, cuts) in enumerate(meta):
        if mode == "headers":
            for k, cut in enumerate(cuts):
                pre_lines.append(f"ws.judge {wsrun.cfg_token(c)} {wsgen.hx(s[:cut])}")
                pre_idx.append((i, k))
    pre_ans = dict(zip(pre_idx, ctx.driver.run(pre_lines)))
    ctx.log(f"{len(pre_lines)} prefix judgements")
    with wsrun.Nvx() as nvx:
        for fw in ("twisted", "asyncio"):
            impl = wsrun.run_impl(scripts, fw, nproc=16, nvx_dir=nvx if (fw == "twisted" and ctx.tier == "thorough") else None)
            ctx.log(f"impl {fw} done")
            model = wsrun.run_model(ctx.driver, scripts, fw)
            ctx.log(f"model {fw} done")
            impl = wsrun.stabilise(scripts, fw, impl, model, res.notes)
            res.evaluations += len(scripts)
            for i, (sc, (cfg, stream, mode, cuts), a, b, j) in enumerate(zip(scripts, meta, impl, model, judge)):
                res.count(f"recv:{mode}:{fw}")
                rep = {"script": {"cfg": cfg, "ops": [o[:120] for o in sc["ops"]]}, "stream": stream.hex()[:3000], "fw": fw, "impl": a[:1500], "judge": j[:300]}
                if a != b:
                    fd = wsrun.first_diff(a, b) if not a.startswith("ERROR") else (0, a[:300], "")
                    res.correspondence_breaks.append({"stream": f"ws.run limits/{fw}", "script": sc, "op": fd[0], "impl": fd[1][:400], "model": fd[2][:400]})
                pr = wsoracle.Proj(a, cfg)
                for key, what in wsoracle.check_recv(cfg, stream, pr, j):
                    add(key, f"{fw}/{mode}: {what}", rep)
                evs, verdict, rest = wsoracle.parse_judge(j)
                lim = cfg.get("mm", 0)
                for m in pr.msgs:
                    n = len(wsoracle.unhex(m.split(":")[1]))
                    if lim and n > lim:
                        add("over-limit-message-delivered", f"{fw}: a message of {n} octets was delivered with maxMessagePayloadSize={lim}", rep)
                if mode == "headers" and not pr.error:
                    # early: the read that completes the offending header must already fail the connection
                    per = wsrun.parse_line(a)
                    for k, cut in enumerate(cuts):
                        pv = wsoracle.parse_judge(pre_ans[(i, k)])[1]
                        if pv == "fail:1009":
                            items = [it for items, _ in per[:k + 1] for it in items]
                            failed = any(it.startswith("cc:") for it in items) or any(c == 1009 for c in wsoracle.Proj("|".join(",".join(x) + "@" + st for x, st in per[:k + 1]), cfg).close_codes_written())
                            if not failed:
                                add("limit-not-enforced-at-header", f"{fw}: the header of the frame that crosses the limit was read (payload withheld) and the connection was not failed", rep)
                            break
    ctx.log("receive part compared")
    # send side
    ssc = []
    for limit in ([1, 125, 126, 1000] if ctx.tier == "quick" else LIMITS):
        for srv in (0, 1):
            for n in (max(0, limit - 1), limit, limit + 1, 3 * limit):
                for frag in ("n", 1, 125):
                    ssc.append({"cfg": {"srv": srv, "mm": limit}, "start": "open", "ops": [f"msg,{wsgen.hx(rng.randbytes(n))},1,{frag},0", "msg,-,1,n,0"]})
    for fw in ("twisted", "asyncio"):
        impl = wsrun.run_impl(ssc, fw, nproc=16)
        model = wsrun.run_model(ctx.driver, ssc, fw)
        impl = wsrun.stabilise(ssc, fw, impl, model, res.notes)
        res.evaluations += len(ssc)
        res.count(f"send:{fw}", len(ssc))
        for sc, a, b in zip(ssc, impl, model):
            if a != b:
                fd = wsrun.first_diff(a, b) if not a.startswith("ERROR") else (0, a[:300], "")
                res.correspondence_breaks.append({"stream": f"ws.run send-limit/{fw}", "script": sc, "op": fd[0], "impl": fd[1][:400], "model": fd[2][:400]})
            per = wsrun.parse_line(a) if not a.startswith("ERROR") else []
            n = len(wsoracle.unhex(sc["ops"][0].split(",")[1]))
            lim = sc["cfg"]["mm"]
            rep = {"script": sc, "fw": fw, "impl": a[:800]}
            if not per:
                add("exception-in-send-harness", a[:200], rep)
                continue
            first = per[0][0]
            if n > lim:
                if first != ["x:payloadexceeded"]:
                    add("over-limit-send-not-refused-cleanly", f"{fw}: sendMessage of {n} octets with limit {lim}: {first[:3]} (expected PayloadExceededError and no write)", rep)
            else:
                if any(i.startswith("x:") for i in first) or not any(i.startswith("w:") for i in first):
                    add("within-limit-send-refused", f"{fw}: sendMessage of {n} octets with limit {lim}: {first[:3]}", rep)
            if not any(i.startswith("w:") for i in per[1][0]):
                add("send-after-refusal-broken", f"{fw}: a normal message after the refused one was not written: {per[1][0][:3]}", rep)
    # the other send APIs: the property says an over-limit message is refused locally whichever way it is sent
    osc = []
    for srv in (0, 1):
        for n in (5, 20):
            osc.append(({"cfg": {"srv": srv, "mm": 10}, "start": "open", "ops": [f"prep,{wsgen.hx(bytes(n))},1", "msg,-,1,n,0"]}, "prepared", n))
            osc.append(({"cfg": {"srv": srv, "mm": 10}, "start": "open", "ops": ["bm,1", f"mf,{wsgen.hx(bytes(n))},0", "em"]}, "streaming", n))
    for fw in ("twisted", "asyncio"):
        impl = wsrun.run_impl([x[0] for x in osc], fw, nproc=4)
        model = wsrun.run_model(ctx.driver, [x[0] for x in osc], fw)
        res.evaluations += len(osc)
        res.count(f"send-other-api:{fw}", len(osc))
        for (sc, api, n), a, b in zip(osc, impl, model):
            if a != b:
                fd = wsrun.first_diff(a, b) if not a.startswith("ERROR") else (0, a[:300], "")
                res.correspondence_breaks.append({"stream": f"ws.run send-limit-other-api/{fw}", "script": sc, "op": fd[0], "impl": fd[1][:400], "model": fd[2][:400]})
            wrote = sum(len(wsoracle.unhex(i[2:])) for items, _ in (wsrun.parse_line(a) if not a.startswith("ERROR") else []) for i in items if i.startswith("w:"))
            if n > 10 and wrote > 6:
                add(f"over-limit-send-not-refused:{api}", f"{fw}: a {n}-octet message sent through the {api} API with maxMessagePayloadSize=10 was written ({wrote} octets), not refused", {"script": sc, "fw": fw, "impl": a[:600]})
    ctx.log("send part done")
    # compression part
    for fw in ("twisted", "asyncio"):
        p = core.run_py(W / "c16_deflate.py", [fw, ctx.seed, ctx.tier])
        if p.returncode != 0:
            raise RuntimeError("c16_deflate failed: " + p.stderr[-2000:])
        o = json.loads(p.stdout)
        res.evaluations += o["evaluations"]
        res.count(f"deflate:{fw}", o["evaluations"])
        for v in o["violations"]:
            add(v["key"], f"{fw}: {v['what']}", v)
    for sc in scripts[:: max(1, len(scripts) // 3)][:3]:
        res.sample({"cfg": sc["cfg"], "ops": [o[:60] for o in sc["ops"]][:6]})
    res.traces_validated = res.evaluations
    res.violations = list(viol.values())
    return res
