"""Registry of claimed checks -> MANIFEST.json (python3 tools_gen_manifest.py)."""
HOOK_COMMITS = []
NOTES = ("Technique family: machine-checked proof in Lean 4. Every check = translate (/repo -> Generated/*.lean) + lake build of the "
         "property's theorems + axiom audit + correspondence/failing-input search against the real code. See DESIGN.md.")

_PENDING = "machinery for this property is not built yet in this round (planned; see DESIGN.md §8); not claimed until its check runs clean"
ALL = ["C%02d" % i for i in range(1, 21)]

CHECKS = [
    {"id": "C15",
     "technique": "Lean 4 theorems (all keys/offsets/alignments/lengths/chunkings) + exhaustive differential tie to the 4 real maskers",
     "text": "Proved in Lean for all inputs: simple, table-shifted and SSE2 (head/aligned body/tail, every alignment) masker models equal "
             "byte-wise XOR with key[(p+i) mod 4]; involution; pointer = bytes processed; any chunking equals one call. The models are "
             "tied to the code by running the real pure-Python maskers and the NVX C (recompiled from /repo, called in place at "
             "alignments 0..15) on lengths 0..300 x offsets 0..3 x splits against the Lean spec; the default mask policy is observed "
             "on real client/server protocol objects.",
     "note": "Trusted: Lean kernel; the hand-written models mirror the code (checked only by the differential run); gcc/SSE2/cffi. "
             "Wire policy (mask bit, one key per frame) is an observation on generated API sequences, not a theorem."},
]

NOT_APPLICABLE = [{"property_id": p, "reason": _PENDING} for p in ALL if p not in {c["id"] for c in CHECKS}]
