"""Registry of claimed checks -> MANIFEST.json (python3 tools_gen_manifest.py)."""
HOOK_COMMITS = []
NOTES = ("Technique family: machine-checked proof in Lean 4. Every check = translate (/repo -> Generated/*.lean) + lake build of the "
         "property's theorems + axiom audit + correspondence/failing-input search against the real code. See DESIGN.md.")

_PENDING = "machinery for this property is not built yet in this round (planned; see DESIGN.md §8); not claimed until its check runs clean"
ALL = ["C%02d" % i for i in range(1, 21)]

CHECKS = []
NOT_APPLICABLE = []


def load():
    """collect MANIFEST_ENTRY from every harness/cNN.py"""
    import importlib
    from pathlib import Path
    CHECKS.clear()
    NOT_APPLICABLE.clear()
    for f in sorted(Path(__file__).parent.glob("c[0-9][0-9].py")):
        mod = importlib.import_module("harness." + f.stem)
        e = getattr(mod, "MANIFEST_ENTRY", None)
        if e:
            e = dict(e)
            e["id"] = f.stem.upper()
            CHECKS.append(e)
    have = {c["id"] for c in CHECKS}
    for p in ALL:
        if p not in have:
            NOT_APPLICABLE.append({"property_id": p, "reason": _PENDING})
