"""C01 — WebSocket messages arrive intact, exactly once and in order."""
import json
from pathlib import Path

from vlib import core
from harness import wsgen, wsrun, wsoracle

PROP = "C01"
PROOF_MODULES = ["Abverif.Proofs.Lemmas.WsFrame", "Abverif.Proofs.Lemmas.WsExt", "Abverif.Proofs.C01", "Abverif.Proofs.Lemmas.WsSeg", "Abverif.Proofs.Lemmas.WsSeg2", "Abverif.Proofs.Lemmas.WsData", "Abverif.Proofs.WsSegmentation", "Abverif.Proofs.Lemmas.WsJudge", "Abverif.Proofs.Lemmas.WsJudge2", "Abverif.Proofs.WsRefinement", "Abverif.Proofs.Lemmas.WsEncode", "Abverif.Proofs.WsRoundtrip", "Abverif.Proofs.C05", "Abverif.Proofs.WsReach"]
MANIFEST_ENTRY = {
    "technique": 'Lean 4 theorems on the send path (length codec, fragmentation, write queue order, mask policy) + model<->code correspondence + RFC judge of the wire',
    "text": 'Proved for all inputs on the model: big-endian/length codec round trip at every boundary (0/125/126/65535/65536/2^63), the sendMessage fragment loop concatenates to the payload with FIN only on the last fragment, write chopping and the send queue never reorder octets (queue_order over any mix of direct/sync/chopped writes), default mask policy. The model (Ws.lean, mirrors sendFrame/sendMessage/streaming API/PreparedMessage/sendData/_send and the receive path) is tied to the code by exact per-operation comparison on real Twisted and asyncio protocol objects; the octets real senders write are judged by the frame-by-frame RFC 6455 Spec in the peer role (well-formed, messages = sent) and delivered under 4 segmentations to real receivers in all 4 framework pairings. Segmentation: segmentation_independent (Proofs/WsSegmentation.lean) proves for the receive model with failByDrop=True that any two cuts of one octet stream into non-empty reads give the same state (or both runs closed with the same history), so what the differential run establishes for the sampled segmentations holds for every one; recv_refines_judge (Proofs/WsRefinement.lean) proves that what the receiving engine delivers for ANY octet stream under ANY segmentation is exactly what the frame-by-frame RFC judge derives from the stream; send_recv_roundtrip (Proofs/WsRoundtrip.lean) closes the loop on the model: whatever list of messages a fresh endpoint sends with sendMessage (text/binary, any length below 2^63, unfragmented or any fragment size, direct or queued writes, masked or not), when its octets reach a fresh receiving engine (failByDrop, no compression) in ANY segmentation, that engine delivers exactly those messages in order and stays OPEN - under the stated conditions SenderOk/MsgOk (masking agreed, limits of both sides respected, text valid UTF-8 when the receiver validates, fragment size not 0); ingredients: judgeStep_encodeFrame (the judge reads back what encodeFrame writes: header bits, all three length encodings via lenCodec_roundtrip, key, masking via C15 involutive), frame_run / sendFrags_run (fragment sequences incl. incremental UTF-8), sendMessage_judged, recv_refines_judge. Also proved: sendPrepared_judged (prepared messages) and stream_judged (beginMessage, any non-empty sequence of sendMessageFrame, endMessage: judged as exactly one message, the concatenation of the frame payloads; with zero frames endMessage writes a lone continuation frame - a protocol violation, which is why the theorem needs a non-empty sequence). Compression end-to-end is tied by the differential runs only (codec laws in C12). All these theorems are about one send at a time: while a streaming frame is open every other frame the endpoint produces (application ping/pong, the automatic pong, a whole message) lands inside that frame and corrupts the stream - known finding sender-wrote-ill-formed-frames:frame-inside-open-streaming-frame, reproduced on both frameworks in every run; stream_judged and send_recv_roundtrip therefore start from the ground send state and fold one API.',
    "note": 'Trusted: Lean kernel; hand-written model tied only by differential execution (generator-bounded); mask keys from a deterministic stream; TCP = order-preserving pipe; compression end-to-end is implementation-to-implementation (codec in C12).',
}
TRUSTED = [
    "Lean 4.33 kernel; axioms of every theorem within {propext, Classical.choice, Quot.sound}",
    "hand-written model Abverif/Model/Ws.lean of sendFrame/sendMessage/streaming API/PreparedMessage/sendData/_send and of the "
    "receive path; tied to the code by running the same API + feed scripts on real Twisted and asyncio protocol objects",
    "spec Abverif/Model/WsSpec.lean: the sender's octets are re-parsed by the frame-by-frame RFC 6455 judge in the peer's role",
    "mask keys: random.getrandbits replaced by a deterministic stream; TCP modelled as an order-preserving byte pipe that the "
    "harness re-segments; compression end-to-end runs are implementation-to-implementation only (codec is C12's)",
]
ASSUMPTIONS = ["API used as documented: every frame opened with beginMessageFrame is filled before endMessage",
               "kernel TCP, logOctets/logFrames paths and Hixie-76 not covered"]
SEC = wsgen.SEC


def sent_messages(ops):
    """the (payload, binary) list an application sent with a valid API op sequence"""
    out, cur = [], None
    for t in ops:
        a = t.split(",")
        if a[0] in ("msg", "prep"):
            out.append((wsoracle.unhex(a[1]), a[2] == "1"))
        elif a[0] == "bm":
            cur = [b"", a[1] == "1"]
        elif a[0] in ("fd", "mf") and cur is not None:
            cur[0] += wsoracle.unhex(a[1])
        elif a[0] == "em" and cur is not None:
            out.append((cur[0], cur[1]))
            cur = None
    return out


def sender_cfg(rng, role, pmce):
    c = {"srv": int(role == "server")}
    if rng.random() < 0.25:
        c["af"] = rng.choice([1, 2, 125, 126, 4096])
    # applyMask=False (mask bit set, payload left unmasked) is a fuzzing option that makes the sender itself
    # violate RFC 6455; it is exercised in the C02/C05 correspondence runs, not end to end
    if role == "server" and rng.random() < 0.15:
        c["ms"] = 1
    if role == "client" and rng.random() < 0.1:
        c["mc"] = 0
    if pmce:
        c["pmce"] = pmce
    return c


def receiver_cfg(scfg):
    """the peer that accepts what this sender emits"""
    r = {"srv": 1 - scfg["srv"], "fbd": 1}
    if scfg.get("ap") == 0:
        r["ap"] = 0
    if scfg["srv"]:      # receiver is a client
        if scfg.get("ms"):
            r["am"] = 1
    else:                # receiver is a server
        if scfg.get("mc") == 0:
            r["rm"] = 0
    if scfg.get("pmce"):
        r["pmce"] = scfg["pmce"]
    return r


def gen_sender(ctx, i):
    rng = ctx.rng
    role = rng.choice(["client", "server"])
    pmce = rng.choice([1, 2, 3]) if rng.random() < 0.2 else 0
    cfg = sender_cfg(rng, role, pmce)
    ops = wsgen.api_ops(rng, n=rng.randrange(1, 7), valid_only=True)
    if pmce:
        # streaming/frame API + compression is exercised by C12; keep the message/prepared API here.  Messages share
        # content (later ones repeat earlier ones far back) so that context takeover and window sizes matter.
        ops = [o for o in ops if o.split(",")[0] in ("msg", "prep", "adv", "ping", "pong")]
        base = rng.randbytes(700)
        for k in range(rng.randrange(2, 5)):
            pl = base[:rng.randrange(300, 700)] + rng.randbytes(rng.choice([0, 600, 5000])) + base
            ops.append(f"msg,{wsgen.hx(pl)},1,{rng.choice(['n', 'n', 100, 1000])},0")
    big = (i % 25 == 0) if ctx.tier == "quick" else (i % 8 == 0)
    if big:
        n = rng.choice(wsgen.BIG_LENS + ([1 << 20] if ctx.tier == "thorough" and i % 128 == 0 else []))   # 1 MiB at most (cost of the pure-Python receivers and of the list-based model)
        b = rng.randrange(2)
        pl = rng.randbytes(n) if b else ("ab" * (n // 2 + 1))[:n].encode()
        frag = rng.choice(["n", "n", 65535, 65536, 4096, n - 1, n, n + 1])
        if frag == "n" and cfg.get("af") and n // cfg["af"] > 2000:
            # a tiny autoFragmentSize would cut the message into 10^4..10^6 frames: quadratic in the list-based model
            # and the judge, and - behind queued synchronous writes - more frames than the closing clock advance of
            # the script drains from the send queue (the script would end with the message half sent, which the
            # oracle rightly reports as "not all messages on the wire"; that is a property of the script, not of the
            # code).  An explicit fragment size overrides autoFragmentSize.
            frag = rng.choice([4096, 65535, 65536])
        big_op = f"msg,{wsgen.hx(pl)},{b},{frag},0"
        if rng.random() < 0.5:
            ops.insert(0, big_op)
        else:
            ops.append(big_op)
    if rng.random() < 0.3:
        # chopped / synchronous writes: drain the queue with clock ticks
        ops.append(f"adv,{SEC // 4}")
    ops.append(f"adv,{SEC // 2}")
    return {"cfg": cfg, "start": "open", "ops": ops}


def interleaved_senders(ctx):
    """"all send-API mixes": another frame produced while a streaming frame is open - a ping or pong the application sends,
    the automatic pong that answers a ping of the peer, a whole message - lands in the middle of that frame's payload"""
    rng = ctx.rng
    out = []
    for role in ("client", "server"):
        mask = rng.randbytes(4) if role == "server" else None     # frames TO a server are masked
        for mid in ([f"ping,{wsgen.hx(b'hi')}"], ["pong,-"], ["feed," + wsgen.hx(wsgen.frame(9, b"are you there", mask=mask))],
                    [f"msg,{wsgen.hx(b'other')},1,n,0"]):
            ops = ["bm,1", "bf,4", "fd,0102,0"] + mid + ["fd,0304,0", "em", f"adv,{SEC // 2}"]
            out.append({"cfg": {"srv": int(role == "server")}, "start": "open", "ops": ops, "tag": "ctl-inside-frame"})
    return out


def run(ctx):
    with wsrun.Nvx() as nvx:
        return run_(ctx, nvx)


def run_(ctx, nvx):
    res = core.Result()
    res.rule = ("sender scripts: 1-6 valid send-API operations (message API with fragment sizes {1,2,125,126,n-1,n,n+1}, autoFragmentSize, "
                "sync writes, prepared messages, streaming API with random chunking, frame API, pings/pongs; payload lengths over the "
                "0/125/126/65535/65536 boundaries and beyond), both roles, masking options, optional permessage-deflate; the octets written "
                "are (1) compared with the Lean model, (2) judged by WsSpec.judge in the peer's role (well-formed, messages = sent), "
                "(3) re-segmented 4 ways and fed to a real receiver of the opposite role in each framework (all 4 framework pairings): "
                "delivered = sent; plus handshake-remainder scripts (first frames in the same read as the handshake, every cut class); "
                "non-trivial = distinct sender script with >=1 message")
    viol = {}

    def add(key, what, replay):
        if key not in viol:
            viol[key] = core.Violation(key, what, replay)

    n = 120 if ctx.tier == "quick" else 2500
    if ctx.replay_path:
        rp = json.loads(Path(ctx.replay_path).read_text())["replay"]
        if "sender" not in rp:
            # a handshake-remainder replay: one receiver script
            sc, fw = rp["script"], rp.get("fw", "twisted")
            st = wsoracle.unhex(sc["ops"][0].split(",")[1])
            j = ctx.driver.run([f"ws.judge {wsrun.cfg_token(sc['cfg'])} {wsgen.hx(st)}"])[0]
            a = wsrun.run_impl([sc], fw, nproc=1)[0]
            pr = wsoracle.Proj(a, sc["cfg"])
            for key, what in wsoracle.check_recv(sc["cfg"], st, pr, j, lost_fed=False):
                add("handshake-remainder:" + key, f"{fw}: {what}", {"script": sc, "fw": fw, "impl": a[:1500], "judge": j[:500]})
            res.evaluations = 1
            res.violations = list(viol.values())
            return res
        senders = [rp["sender"]]
    else:
        senders = [gen_sender(ctx, i) for i in range(n)]
        senders += interleaved_senders(ctx)
    fws = ["twisted", "asyncio"]
    sent = [sent_messages(s["ops"]) for s in senders]
    for s, m in zip(senders, sent):
        if m:
            res.distinct.add(core.sha(json.dumps(s, sort_keys=True))[:16])
        res.count("sender:" + ("server" if s["cfg"]["srv"] else "client") + (":pmce" if s["cfg"].get("pmce") else ""))
        for o in s["ops"]:
            res.count("op:" + o.split(",")[0])
    wires = {}
    for fw in fws:
        impl = wsrun.run_impl(senders, fw, nproc=16, nvx_dir=nvx)
        nomodel = [bool(s["cfg"].get("pmce")) for s in senders]
        model = wsrun.run_model(ctx.driver, [dict(s, cfg=dict(s["cfg"], pmce=0)) for s in senders], fw)
        impl = wsrun.stabilise(senders, fw, impl, model, res.notes, nvx_dir=nvx, skip=nomodel)
        res.evaluations += len(senders)
        for i, (s, a, b) in enumerate(zip(senders, impl, model)):
            pr = wsoracle.Proj(a, s["cfg"])
            if pr.error:
                add("exception-in-send-api-harness", f"{fw}: {a[:300]}", {"sender": s, "fw": fw, "impl": a[:2000]})
                continue
            if pr.raised:
                add("valid-send-api-call-raised", f"{fw}: a documented send API sequence raised {pr.raised}", {"sender": s, "fw": fw, "impl": a[:2000]})
            if not nomodel[i] and a != b:
                fd = wsrun.first_diff(a, b)
                res.correspondence_breaks.append({"stream": f"ws.run sender/{fw}", "script": s, "op": fd[0], "impl": fd[1][:400], "model": fd[2][:400]})
            wires[(fw, i)] = pr.writes
        # (2) judge the wire in the peer's role
        lines, idx = [], []
        for i, s in enumerate(senders):
            if (fw, i) in wires and not s["cfg"].get("pmce"):
                lines.append(f"ws.judge {wsrun.cfg_token(receiver_cfg(s['cfg']))} {wsgen.hx(wires[(fw, i)])}")
                idx.append(i)
        for i, ans in zip(idx, ctx.driver.run(lines)):
            evs, verdict, rest = wsoracle.parse_judge(ans)
            got = [(wsoracle.unhex(e.split(":")[1]), e.split(":")[2] == "1") for e in evs if e.startswith("m:")]
            if verdict != "ok" or rest != 0:
                add("sender-wrote-ill-formed-frames" + (":frame-inside-open-streaming-frame" if senders[i].get("tag") == "ctl-inside-frame" else ""),
                    f"{fw}: the octets written are not a well-formed RFC 6455 frame sequence ({verdict}, {rest} octets left)",
                    {"sender": senders[i], "fw": fw, "wire": wires[(fw, i)].hex()[:4000], "judge": ans[:500]})
            elif got != sent[i]:
                add("wire-carries-other-messages-than-sent", f"{fw}: frames on the wire reassemble to {len(got)} messages, {len(sent[i])} were sent or content differs",
                    {"sender": senders[i], "fw": fw, "wire": wires[(fw, i)].hex()[:4000], "judge": ans[:500]})
    # the interleaving scenarios are judged on the sender's wire only (a receiver fed an ill-formed stream says nothing new)
    for (fw_, i_) in [k for k in wires if senders[k[1]].get("tag") == "ctl-inside-frame"]:
        del wires[(fw_, i_)]
    # (3) receivers: every (sender fw, receiver fw) pairing, 4 segmentations each
    rng = ctx.rng
    for sfw in fws:
        recv_scripts, meta = [], []
        for i, s in enumerate(senders):
            w = wires.get((sfw, i))
            if w is None:
                continue
            for mode in ("whole", "random", "hdr", "bytes" if len(w) <= 300 else "two"):
                pieces = wsgen.segment(rng, w, mode)
                recv_scripts.append({"cfg": receiver_cfg(s["cfg"]), "start": "open", "ops": ["feed," + wsgen.hx(p) for p in pieces]})
                meta.append(i)
        for rfw in fws:
            # native (rebuilt NVX) masker/validator for one receiver framework, pure Python for the other
            impl = wsrun.run_impl(recv_scripts, rfw, nproc=16, nvx_dir=nvx if (rfw == "twisted" or sfw == "twisted") else None)
            model = wsrun.run_model(ctx.driver, recv_scripts, rfw)
            impl = wsrun.stabilise(recv_scripts, rfw, impl, model, res.notes, skip=[bool(senders[i]["cfg"].get("pmce")) for i in meta])
            res.evaluations += len(recv_scripts)
            res.count(f"pair:{sfw}->{rfw}", len(recv_scripts))
            for sc, i, a, b in zip(recv_scripts, meta, impl, model):
                pr = wsoracle.Proj(a, sc["cfg"])
                rep = {"sender": senders[i], "sender_fw": sfw, "receiver_fw": rfw, "receiver_script": {"cfg": sc["cfg"], "ops": [o[:200] for o in sc["ops"][:50]]}, "impl": a[:1500]}
                if pr.error:
                    add("exception-escaped-dataReceived", f"{rfw}: {a[:300]}", rep)
                    continue
                got = [(wsoracle.unhex(m.split(":")[1]), m.split(":")[2] == "1") for m in pr.msgs]
                if got != sent[i]:
                    k = "delivered-differs-from-sent"
                    if len(got) > len(sent[i]):
                        k = "message-delivered-twice-or-not-sent"
                    elif len(got) < len(sent[i]):
                        k = "message-lost"
                    add(k, f"{sfw}->{rfw}: receiver delivered {len(got)} messages, sender sent {len(sent[i])} (or bytes/type differ)", rep)
                if pr.drops or pr.close_codes_written():
                    add("receiver-failed-well-formed-stream", f"{sfw}->{rfw}: receiver failed the connection on the library's own output", rep)
                if not senders[i]["cfg"].get("pmce") and a != b:
                    fd = wsrun.first_diff(a, b)
                    res.correspondence_breaks.append({"stream": f"ws.run receiver/{rfw}", "script": sc, "op": fd[0], "impl": fd[1][:400], "model": fd[2][:400]})
    # (4) handshake remainder: the read completing the opening handshake also carries frames
    hs_scripts, hmeta = [], []
    for k in range(40 if ctx.tier == "quick" else 400):
        role = rng.choice(["client", "server"])
        cfg = {"srv": int(role == "server")}
        frames = wsgen.peer_frames(rng, cfg, n_frames=rng.randrange(1, 4), allow_bad=False)
        frames = [f for f in frames if f[1] != "close"]
        stream = b"".join(f for f, _ in frames)
        for cut in (None, 0, -1, -2, -3, -4, 1, 2, 3, len(stream) // 2):
            hs_scripts.append({"cfg": cfg, "start": "connecting", "ops": [f"hsx,{wsgen.hx(stream)},{0 if cut is None else cut}"]})
            hmeta.append(stream)
    judge = ctx.driver.run([f"ws.judge {wsrun.cfg_token(s['cfg'])} {wsgen.hx(st)}" for s, st in zip(hs_scripts, hmeta)])
    for fw in fws:
        impl = wsrun.run_impl(hs_scripts, fw, nproc=16)
        model = wsrun.run_model(ctx.driver, hs_scripts, fw)
        res.evaluations += len(hs_scripts)
        res.count(f"handshake-remainder:{fw}", len(hs_scripts))
        for sc, st, a, b, j in zip(hs_scripts, hmeta, impl, model, judge):
            pr = wsoracle.Proj(a, sc["cfg"])
            bad = wsoracle.check_recv(sc["cfg"], st, pr, j, lost_fed=False)
            if bad:
                # confirm in a fresh worker process: a worker runs hundreds of scripts on one (virtual) event loop, and a
                # timer left behind by an earlier connection can show up in the shared transport trace of a later one
                a2 = wsrun.run_impl([sc], fw, nproc=1)[0]
                if a2 != a:
                    res.notes.append(f"handshake-remainder/{fw}: an outcome seen inside a long worker run was not confirmed in a fresh process (order-dependent harness artefact, ignored): {a[:80]} vs {a2[:80]}")
                    a = a2
                    pr = wsoracle.Proj(a, sc["cfg"])
                    bad = wsoracle.check_recv(sc["cfg"], st, pr, j, lost_fed=False)
            for key, what in bad:
                add("handshake-remainder:" + key, f"{fw}: frames arriving in the same read as the handshake: {what}", {"script": sc, "fw": fw, "impl": a[:1500], "judge": j[:500]})
            if a != b:
                fd = wsrun.first_diff(a, b) if not a.startswith("ERROR") else (0, a[:300], "")
                res.correspondence_breaks.append({"stream": f"ws.run handshake-remainder/{fw}", "script": sc, "op": fd[0], "impl": fd[1][:400], "model": fd[2][:400]})
    for s in senders[:3]:
        res.sample({"cfg": s["cfg"], "ops": [o[:60] for o in s["ops"]]})
    res.traces_validated = res.evaluations
    res.violations = list(viol.values())
    return res
