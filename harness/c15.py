"""C15 — frame masking is exact XOR with the running key in every implementation."""
import json
import os
import shutil
import tempfile
from concurrent.futures import ThreadPoolExecutor
from pathlib import Path

from vlib import core

PROP = "C15"
PROOF_MODULES = ["Abverif.Proofs.C15"]
TRUSTED = [
    "Lean 4.33 kernel; axioms of every theorem audited to be within {propext, Classical.choice, Quot.sound}",
    "hand-written Lean models Abverif/Model/Xor.lean of XorMaskerSimple, XorMaskerShifted1, create_xor_masker and of "
    "_nvx_xormask_process_simple/_sse2 (buffer address enters as `align`)",
    "tie model<->code: differential run of the real maskers (pure Python in a subprocess with AUTOBAHN_USE_NVX=0; "
    "NVX C rebuilt from /repo by cffi and called in place at controlled alignments) against Xor.spec through the driver",
    "gcc, SSE2 intrinsics, cffi (not verified; only exercised)",
]
ASSUMPTIONS = ["mask policy on the wire (client masked with per-frame key, server unmasked) is checked on real protocol objects in part B of this harness"]
W = Path(__file__).parent / "workers"
MANIFEST_ENTRY = {
    "technique": "Lean 4 theorems (all keys/offsets/alignments/lengths/chunkings) + exhaustive differential tie to the 4 real maskers",
    "text": "Proved in Lean for all inputs: simple, table-shifted and SSE2 (head/aligned body/tail, every alignment) masker models equal "
            "byte-wise XOR with key[(p+i) mod 4]; involution; pointer = bytes processed; any chunking equals one call. The models are "
            "tied to the code by running the real pure-Python maskers and the NVX C (recompiled from /repo, called in place at "
            "alignments 0..15) on lengths 0..300 x offsets 0..3 x splits against the Lean spec; the default mask policy is observed "
            "on real client/server protocol objects. The pointer / involution / chunking laws are also stated for each real masker (simple_laws, shifted1_laws, sse2_laws, sse2_chunking_irrelevant: the SSE2 masker with a different buffer alignment for every chunk).",
    "note": "Trusted: Lean kernel; the hand-written models mirror the code (checked only by the differential run); gcc/SSE2/cffi. "
            "Wire policy: default_mask_policy (Proofs/C01.lean: by default a client masks every frame with a fresh key from the key stream and a server none) and send_recv_roundtrip (masked frames are unmasked to the payload sent) are theorems on the engine model; that the real code draws one key per frame is observed on generated API sequences.",
}


def gen_cases(ctx):
    rng = ctx.rng
    keys = [bytes(4), b"\xff" * 4, bytes([1, 2, 3, 4]), rng.randbytes(4), rng.randbytes(4)]
    if ctx.tier == "quick":
        lens = list(range(0, 41)) + list(range(120, 137)) + list(range(250, 301, 7)) + [300]
    else:
        lens = list(range(0, 301))
    cases = []
    for ki, k in enumerate(keys):
        for n in lens:
            for p in range(4):
                if ctx.tier == "quick" and ki >= 3 and n > 40 and p not in (1,):
                    continue
                data = rng.randbytes(n)
                cases.append((k.hex(), p, data.hex() or "-"))
    # large payloads
    big = [1024, 4096 + 3, 65536 + 1] if ctx.tier == "quick" else [1024, 4099, 65537, 1 << 20, (1 << 22) - 5]
    for n in big:
        cases.append((rng.randbytes(4).hex(), rng.randrange(4), rng.randbytes(n).hex()))
    return cases


def run(ctx):
    res = core.Result()
    res.rule = ("cases = (key, start offset 0..3, payload) with lengths 0..300 (quick: 0..40,120..136,250..300 step 7) "
                "and large payloads; every case is run through py.simple/py.shifted1/py.create (pure Python) and "
                "nvx.simple/nvx.sse2 at buffer alignments 0..15 (C rebuilt from /repo), split into two chunks at "
                "selected (quick) or all (thorough, <=300) positions; expected bytes and pointer come from Lean Xor.spec; "
                "non-trivial = distinct (key,offset,payload) with length>0")
    cases = gen_cases(ctx)
    if ctx.replay_path:
        rp = json.loads(Path(ctx.replay_path).read_text())["replay"]
        cases = [(rp["key"], rp["offset"], rp["data"] or "-")]
    # expected values from the Lean spec; the executable models are run too (model == spec is the theorem,
    # so a disagreement here would mean the driver and the proofs are out of sync)
    lines = [f"xor.spec {k} {p} {d}" for k, p, d in cases]
    exp = ctx.driver.run(lines)
    small = [(i, c) for i, c in enumerate(cases) if len(c[2]) <= 2 * 300]
    mlines = []
    for i, (k, p, d) in small:
        mlines += [f"xor.simple {k} {p} {d}", f"xor.shifted1 {k} {p} {d}"]
        for al in (range(16) if i % 7 == 0 or ctx.tier != "quick" else (i % 16,)):
            mlines.append(f"xor.sse2 {k} {p} {al} {d}")
    mout = ctx.driver.run(mlines)
    j = 0
    for i, (k, p, d) in small:
        nm = 2 + (16 if (i % 7 == 0 or ctx.tier != "quick") else 1)
        for o in mout[j:j + nm]:
            if o != exp[i]:
                res.correspondence_breaks.append({"stream": "driver model vs driver spec", "case": [k, p, d], "model": o, "spec": exp[i]})
        j += nm
    res.count("model_lines", len(mlines))
    full = []
    for (k, p, d), e in zip(cases, exp):
        eh, ep = e.split(" ")
        full.append([k, p, "" if d == "-" else d, "" if eh == "-" else eh, int(ep)])
        if d != "-":
            res.distinct.add((k, p, core.sha(d)[:16]))
    for c in full[:3] + full[200:202]:
        res.sample({"key": c[0], "offset": c[1], "data": c[2][:64], "expected": c[3][:64], "expected_ptr": c[4]})

    scratch = Path(tempfile.mkdtemp(prefix="abverif-c15-"))
    try:
        core.build_nvx(scratch, which=("xormasker",))
        nproc = 12
        splits = "all" if ctx.tier == "thorough" else "few"
        aligns = list(range(16))
        jobs = []
        smallc = [c for c in full if len(c[2]) <= 600]
        bigc = [c for c in full if len(c[2]) > 600]
        for w in range(nproc):
            part = smallc[w::nproc]
            jobs.append(("nvx", {"mode": "nvx", "nvxdir": str(scratch), "cases": part, "splits": splits, "aligns": aligns}))
            # the pure-Python loops are slow: all splits only for a third of the cases in thorough
            jobs.append(("pure", {"mode": "pure", "cases": part, "splits": "few" if ctx.tier == "quick" else ("all" if w % 3 == 0 else "few")}))
        jobs.append(("nvx", {"mode": "nvx", "nvxdir": str(scratch), "cases": bigc, "splits": "few", "aligns": aligns}))
        jobs.append(("pure", {"mode": "pure", "cases": [c for c in bigc if len(c[2]) <= 2 * 70000], "splits": "few"}))

        def runjob(j):
            mode, job = j
            import subprocess
            e = dict(os.environ)
            e["PYTHONPATH"] = str(core.REPO / "src")
            e["AUTOBAHN_USE_NVX"] = "0" if mode == "pure" else "1"
            if mode == "nvx":
                e["PYTHONPATH"] = str(scratch) + os.pathsep + e["PYTHONPATH"]
            p = subprocess.run([core.PY, str(W / "c15_worker.py")], input=json.dumps(job), env=e,
                               capture_output=True, text=True, cwd="/", timeout=3000)
            if p.returncode < 0 and len(job["cases"]) > 1:
                # the native code crashed (signal): bisect to one crashing case
                half = len(job["cases"]) // 2
                a = runjob((mode, dict(job, cases=job["cases"][:half])))
                if a.get("crash"):
                    return a
                return runjob((mode, dict(job, cases=job["cases"][half:])))
            if p.returncode < 0:
                c = job["cases"][0]
                return {"evaluations": 1, "by_impl": {}, "mismatches": [], "crash": {
                    "impl": mode, "signal": -p.returncode, "key": c[0], "offset": c[1], "data": c[2],
                    "splits": job["splits"]}}
            if p.returncode != 0:
                raise RuntimeError("c15 worker failed: " + p.stderr[-1500:])
            return json.loads(p.stdout)
        with ThreadPoolExecutor(16) as ex:
            outs = list(ex.map(runjob, jobs))
    finally:
        shutil.rmtree(scratch, ignore_errors=True)
    seen = set()
    for o in outs:
        res.evaluations += o["evaluations"]
        if o.get("crash") and "crash" not in seen:
            seen.add("crash")
            c = o["crash"]
            res.violations.append(core.Violation(
                f"{c['impl']}-masker-crashes", f"{c['impl']} masker process died with signal {c['signal']} "
                f"(len={len(c['data']) // 2}, offset={c['offset']})", c))
        for k, v in o["by_impl"].items():
            res.count("impl:" + k, v)
        for m in o["mismatches"]:
            key = f"{m['impl'].split('+')[0]}-differs-from-xor-spec"
            if key in seen:
                continue
            seen.add(key)
            res.violations.append(core.Violation(
                key, f"{m['impl']} output differs from byte-wise XOR with the running key "
                     f"(len={len(m['data']) // 2}, offset={m['offset']}, align={m['align']}, split={m['split']})", m))
    res.traces_validated = res.evaluations
    partB(ctx, res)
    return res


def partB(ctx, res):
    """mask policy on the wire: default client frames masked with a fresh key per frame, server frames unmasked"""
    p = core.run_py(W / "c15_wire.py", [ctx.seed, ctx.tier])
    if p.returncode != 0:
        raise RuntimeError("c15_wire failed: " + p.stderr[-2000:])
    o = json.loads(p.stdout)
    res.evaluations += o["frames"]
    res.count("wire_frames", o["frames"])
    for v in o["violations"]:
        res.violations.append(core.Violation(v["key"], v["what"], v))
