"""C05 — WebSocket connections close exactly once, in order, and in bounded time."""
import json
import struct
from pathlib import Path

from vlib import core
from harness import wsgen, wsrun, wsoracle

PROP = "C05"
PROOF_MODULES = ["Abverif.Proofs.Lemmas.WsFrame", "Abverif.Proofs.Lemmas.WsExt", "Abverif.Proofs.C05", "Abverif.Proofs.Lemmas.WsOps", "Abverif.Proofs.WsCloseLast",
                 "Abverif.Proofs.Lemmas.WsClean", "Abverif.Proofs.WsCleanClose", "Abverif.Proofs.Lemmas.WsDeadline", "Abverif.Proofs.C17",
                 "Abverif.Proofs.WsCloseBounded", "Abverif.Proofs.Lemmas.WsGhost", "Abverif.Proofs.WsGhostLink", "Abverif.Proofs.WsCloseReason", "Abverif.Proofs.Lemmas.WsReasonInv", "Abverif.Proofs.WsCloseReasonHist"]
MANIFEST_ENTRY = {
    "technique": 'Lean 4 invariants by induction over arbitrary operation histories (Ext relation over every engine function) + history correspondence + CloseSpec trace oracle',
    "text": 'Proved for every configuration and every finite history of API calls, reads, clock advances and connection loss on the model (invariants by induction, using the Ext relation proved for every one of the ~100 engine functions): the state only moves forward (state_monotone); onClose is delivered exactly once, exactly when the transport is gone, and by no other event (onClose_at_most_once, onClose_only_at_lost); after loss the state is CLOSED (lost_closed) and every later operation - late data, timers, API calls - at most raises, nothing is delivered or written (silent_after_onClose, dead_forever); at most one close frame is ever sent, then the connection is CLOSING or CLOSED, and its status code is one RFC 6455 7.4 allows on the wire and its reason at most 123 octets and valid UTF-8: encode_truncate keeps UTF-8 validity for every string and limit (encodeTruncate_valid: the cut never needs to drop more than three octets), so the reason sendClose sends is valid whenever the application text is (sendClose_reason) and the echoed reason is valid because the reason of the peer is stored only after it passed the UTF-8 check (closeReasonStep_valid); and for whole histories: in every reachable state every reason recorded with a close frame we sent is valid UTF-8 and at most 123 octets, provided the application passes text to sendClose (close_reasons_valid: invariant V over every engine function; the Python API takes a str and encodes it); the octets the real objects write are checked as well (key close-frame-reason-not-utf8), whether it comes from sendClose, a failure or the echoed peer code (one_close_frame, close_frame_on_wire, closePayload_length); while CLOSING a drop timer is armed unless its timeout is configured off (closing_has_timer; the deadline itself is C17 close_timeout_drops / server_drop_timeout_drops). No data frame follows the close frame: in every reachable state the opcodes of the frames produced so far (history variable sentOps) have no 0/1/2 behind an 8, and a sent close frame implies CLOSING or CLOSED - for sendMessage, prepared messages, the streaming frame API, pings, pongs, timers, failures and replies alike (no_data_frame_after_close, no_data_frame_after_close_connecting; OpsRel proved for every receive-path, timer and close function, DataRel for every send-API function); the history variable is compared on every run with the opcodes of the frames the real objects wrote, and it agrees with the close record closeSent of the theorems below: one entry per close frame, in every reachable state (close_ghosts_agree; clean_close_has_close_frame restates the clean-close theorem in the frame vocabulary). Reported clean only if close frames travelled in both directions: every onClose(wasClean=True) in the log of every reachable state was delivered with our close frame sent (clean_close_needs_both, closing_has_sent_close: invariant J proved for every engine function, JP; clean_report_nothing_unsent: at a clean report the send queue is empty, so nothing produced - our close frame included - was left unwritten), and the flag is set in one place only, closeStateStep, i.e. on receipt of a close frame of the peer (closeStateStep_JP; with failByDrop that frame has passed the code and reason checks - with fail-by-close an invalid peer close frame is answered with 1002/1007 and then taken as the reply, open finding U4). What is proved is our half (our close frame sent) and where the flag comes from; that the reported code and reason are those of the peer is recv_refines_judge for a fresh connection and the CloseSpec oracle for whole histories. With recv_refines_judge (C02) a legal peer close frame is taken in with the peer code and reason and the close is clean. Closed in bounded time even if the peer never responds: from every reachable CLOSING state with the governing timeouts configured on, once the clock has moved max(closeHandshakeTimeout, serverConnectionDropTimeout) ahead with no further input and the due timers have run, the connection is CLOSED (closing_bounded = closing_has_timer + deadline_bounded: an armed drop timer is due no later than now + its timeout in every reachable state, invariant DB over every engine function + C17 close_timeout_drops / server_drop_timeout_drops; the side condition Quiescent says the run of advanceTo was not cut short by its fuel: advance provides dt/8+64 steps, which suffices when the ping interval is 0 or at least one second - not proved in general, a sub-second interval can exhaust it and then the model clock does not move; every compared run would show that as a difference). The clauses "clean only if close frames travelled in both directions" and "closed within the timeouts" are in addition decided on the real objects by the CloseSpec trace oracle (which also re-checks the close-last clause on the octets written) on real Twisted/asyncio objects over generated histories, with the model compared after every event; eight defects found this way were repaired in /repo (9d200e16, 5b48a5ce, a6d81347, 25c063cd, 1d0700cf, 4456518b, 10974c7e, 940acade). The opening phase is part of the histories too: an application onConnect() that returns a pending Deferred/Future (script ops hsd / hsdc, result op res) with connection loss and the opening-handshake timeout before the result arrives; a result arriving when the connection is no longer CONNECTING changes nothing (late_connect_result_inert; the real code re-opened the CLOSED connection and fired onOpen after onClose until the repair 940acade), in time it opens the connection and cancels the timer (connect_result_in_time_opens).',
    "note": 'Trusted: Lean kernel; model tied by differential execution; framework contract: connectionLost at most once and no input after it; OS socket teardown not modelled.',
}
TRUSTED = [
    "Lean 4.33 kernel; axioms of every theorem within {propext, Classical.choice, Quot.sound}",
    "hand-written model Abverif/Model/Ws.lean of sendClose/sendCloseFrame/onCloseFrame/dropConnection/_connectionLost/"
    "_fail_connection and the timeout handlers on a virtual clock; tied to the code by running the same event histories on real "
    "Twisted (task.Clock) and asyncio (virtual-time loop) protocol objects, exact comparison after every event",
    "CloseSpec: trace predicate evaluated on the implementation's trace by harness/c05.py (close_spec)",
    "framework contract: connectionLost is delivered at most once and no input after it (WellFormedEnv)",
]
ASSUMPTIONS = ["whether the OS tears the socket down after abortConnection is outside the model",
               "txaio batched timers fire at floor(now+delay) seconds; modelled exactly"]
SEC = wsgen.SEC
RANK = {"C": 0, "O": 1, "G": 2, "X": 3}
WIRE_LEGAL = set([1000, 1001, 1002, 1003, 1007, 1008, 1009, 1010, 1011, 1012, 1013]) | set(range(3000, 5000))


def gen_pending_connect(rng):
    """server whose onConnect() returns a pending Deferred/Future: the connection is lost, or the opening-handshake timer
    fires, or both, or neither, before the result arrives (`res`); then ordinary traffic / API calls"""
    T = rng.choice([SEC, 2 * SEC])
    srv = int(rng.random() < 0.6)
    cfg = {"srv": srv, "oht": T, "fbd": rng.randrange(2), "cht": rng.choice([0, SEC]), "sdt": SEC}
    ops = ["hsd" if srv else "hsdc"]
    for _ in range(rng.randrange(0, 3)):
        ops.append(rng.choice(["lost", f"adv,{T + 8}", f"adv,{SEC // 2}", f"adv,{T - 8}"]))
    ops.append("res")
    mk = lambda: rng.randbytes(4) if srv else None
    for _ in range(rng.randrange(0, 4)):
        ops.append(rng.choice(["msg,6162,1,n,0", "ping,-", "close,1000,n", "lost", f"adv,{SEC}",
                               "feed," + wsgen.hx(wsgen.frame(1, b"hi", mask=mk())),
                               "feed," + wsgen.hx(wsgen.frame(8, struct.pack("!H", 1000), mask=mk()))]))
    return {"cfg": cfg, "start": "connecting", "ops": ops}


def gen_history(rng, tier):
    if rng.random() < 0.06:
        return gen_pending_connect(rng)
    cfg = wsgen.rand_cfg(rng, timers=True)
    if rng.random() < 0.65:
        cfg.pop("pi", None), cfg.pop("pt", None)   # auto-ping timers are C17's subject; a third of the histories keep
        # them, because a ping timeout is one more way a CLOSING connection gets dropped (interaction with the drop timers)
    for k in ("mf", "mm", "af"):
        cfg.pop(k, None)
    need_mask = bool(cfg["srv"])
    mk = lambda: rng.randbytes(4) if need_mask else None
    ops = []
    deadlines = [cfg.get("cht", SEC), cfg.get("sdt", SEC)]
    for _ in range(rng.randrange(1, 9)):
        r = rng.random()
        if r < 0.2:
            ops.append(wsgen.close_op(rng, valid=rng.random() < 0.85))
        elif r < 0.3:
            ops += wsgen.api_ops(rng, n=1, valid_only=True)
        elif r < 0.45:
            kind = rng.choice(["valid", "valid", "empty", "badcode", "badutf8", "len1", "reason"])
            if kind == "empty":
                pl = b""
            elif kind == "len1":
                pl = b"\x03"
            elif kind == "badcode":
                pl = struct.pack("!H", rng.choice([0, 999, 1004, 1005, 1006, 1014, 1015, 2999, 5000, 65535]))
            elif kind == "badutf8":
                pl = struct.pack("!H", 1000) + rng.choice(wsgen.INVALID_UTF8)
            elif kind == "reason":
                pl = struct.pack("!H", rng.choice([1000, 1001, 3000, 4999])) + rng.choice(wsgen.VALID_TEXT[1:6]).encode()[:123]
            else:
                pl = struct.pack("!H", rng.choice([1000, 1001, 1011, 3000, 4999]))
            data = wsgen.frame(8, pl, mask=mk())
            for p in wsgen.segment(rng, data, rng.choice(["whole", "two"])):
                ops.append("feed," + wsgen.hx(p))
        elif r < 0.55:
            data = b"".join(f for f, _ in wsgen.peer_frames(rng, cfg, n_frames=1, allow_bad=rng.random() < 0.5))
            for p in wsgen.segment(rng, data, rng.choice(["whole", "two"])):
                ops.append("feed," + wsgen.hx(p))
        elif r < 0.85:
            d = rng.choice(deadlines + [SEC, 2 * SEC, 5 * SEC])
            ops.append(f"adv,{max(8, d + rng.choice([-SEC, -8, 0, 8, SEC // 2, -SEC // 2]))}")
        else:
            ops.append("lost")
    return {"cfg": cfg, "start": "open", "ops": ops}


def finish(sc):
    """append the probes of the bounded-time clause: a long wait, then the framework's connection-lost"""
    ops = list(sc["ops"]) + [f"adv,{20 * SEC}", "lost", f"adv,{20 * SEC}", "msg,6162,1,n,0", "ping,-", "close,1000,n", "prep,6162,1"]
    return dict(sc, ops=ops), len(sc["ops"])


def fed_close(driver_ans):
    evs, verdict, rest = wsoracle.parse_judge(driver_ans)
    cl = [e for e in evs if e.startswith("cl:")]
    return cl[-1] if (verdict == "peer" and cl) else None


def close_spec(sc, nbody, line, judge_ans):
    """CloseSpec on an implementation trace -> list of (key, what)"""
    cfg = sc["cfg"]
    bad = []
    if line.startswith("ERROR"):
        return [("exception-escaped", line[:300])]
    per = wsrun.parse_line(line)
    ops = sc["ops"]
    # 1. forward-only state
    prev = 0 if sc.get("start") == "connecting" else 1
    for (items, st), op in zip(per, ops):
        if RANK.get(st, -1) < prev:
            bad.append(("state-moved-backwards", f"state {st} after {op[:30]}"))
        prev = max(prev, RANK.get(st, prev))
    flat = []
    for k, (items, st) in enumerate(per):
        for it in items:
            flat.append((k, it))
    # 2. onClose exactly once, at the connection-lost event, nothing after it
    ocs = [(k, it) for k, it in flat if it.startswith("oc:")]
    lost_idx = [k for k, o in enumerate(ops) if o == "lost"]
    if len(ocs) > 1:
        bad.append(("onClose-fired-twice", f"{[x[1] for x in ocs]}"))
    if lost_idx and len(ocs) == 0:
        bad.append(("onClose-not-fired", "transport gone but no close notification"))
    if ocs:
        k0 = ocs[0][0]
        if not lost_idx or k0 != lost_idx[0]:
            bad.append(("onClose-before-transport-gone", f"onClose at op {k0}, connection lost at {lost_idx[:1]}"))
        seen = False
        for k, it in flat:
            if it.startswith("oc:"):
                seen = True
                continue
            if seen and it[:2] in ("m:", "w:", "cc", "pi", "po"):
                key = {"w:": "write-after-onClose", "m:": "delivery-after-onClose", "cc": "drop-after-onClose"}.get(it[:2], "callback-after-onClose")
                bad.append((key, f"{it[:60]} at op {k} ({ops[k][:30]}) after the close notification"))
                break
    # 3./4. close frames on the wire
    pr = wsoracle.Proj(line, cfg)
    frames = pr.written()
    closes = [i for i, f in enumerate(frames) if f[0] == 8]
    if len(closes) > 1:
        bad.append(("two-close-frames-sent", f"{len(closes)} close frames written"))
    if closes:
        after = [f for f in frames[closes[0] + 1:] if f[0] in (0, 1, 2)]
        if after:
            # which API wrote it?
            bad.append(("data-frame-after-close-frame", f"{len(after)} data frame(s) written after the close frame"))
        pl = frames[closes[0]][4]
        if len(pl) == 1:
            bad.append(("close-frame-payload-len1", "close frame with a 1-octet payload"))
        if len(pl) >= 2:
            code = struct.unpack("!H", pl[:2])[0]
            if code not in WIRE_LEGAL:
                bad.append(("close-frame-illegal-code", f"close code {code} written"))
            reason = pl[2:]
            if len(reason) > 123:
                bad.append(("close-frame-reason-too-long", f"{len(reason)} octets"))
            try:
                reason.decode("utf8")
            except UnicodeDecodeError:
                bad.append(("close-frame-reason-not-utf8", reason.hex()))
    # 5. clean only if close frames travelled both ways, and then with the peer's code/reason
    if ocs and ocs[0][1].startswith("oc:1:"):
        _, _, code, reason, _ = ocs[0][1].split(":")
        pc = fed_close(judge_ans)
        if not closes:
            bad.append(("clean-without-sending-close", ocs[0][1]))
        if pc is None:
            bad.append(("clean-without-valid-peer-close", f"reported {ocs[0][1]}; the octets received contain no acceptable close frame ({judge_ans[-40:]})"))
        else:
            _, pcode, preason = pc.split(":")
            if (code, reason) != (pcode, preason):
                bad.append(("clean-reports-other-code-than-peers", f"reported ({code},{reason}) peer sent ({pcode},{preason})"))
    # 6. bounded time: once CLOSING with the governing timeout > 0, CLOSED after the long wait (op index nbody)
    first_g = next((k for k, (_, st) in enumerate(per[:nbody]) if st == "G"), None)
    if first_g is not None and per[nbody][1] != "X":
        # closing begins during a feed either because the peer's close frame arrived (peer initiated) or because the
        # fed octets made us fail the connection with a close frame (failByDrop off): then WE initiated, and it is
        # closeHandshakeTimeout that bounds the wait (a check that ignored this raised a false alarm at seed 3:
        # cht=0 configured, violation answered with close 1002, no timer expected)
        we_initiated = (not ops[first_g].startswith("feed")) or fed_close(judge_ans) is None
        # we initiated: closeHandshakeTimeout bounds the wait for the reply, then (client) serverConnectionDropTimeout
        # bounds the wait for the TCP drop; peer initiated (client only - a server drops at once): serverConnectionDropTimeout
        governing = [cfg.get("cht", SEC)] if we_initiated else []
        if not cfg["srv"]:
            governing.append(cfg.get("sdt", SEC))
        if all(g > 0 for g in governing):
            bad.append(("closing-never-reaches-closed", f"still {per[nbody][1]} 20 s after closing began (cfg {cfg})"))
    return bad


def op_of_frames(sc, line):
    """for every complete frame written: (opcode, index of the op during which its last octet was written)"""
    per = wsrun.parse_line(line)
    buf, owner = b"", []
    for k, (items, st) in enumerate(per):
        for it in items:
            if it.startswith("w:"):
                d = wsoracle.unhex(it[2:])
                buf += d
                owner += [k] * len(d)
    frames, rest = wsoracle.split_frames(buf)
    out, pos = [], 0
    for f in frames:
        ln = 2 + (0 if f[6] < 126 else (2 if f[6] == 126 else 8)) + (4 if f[3] else 0) + len(f[5])
        pos += ln
        out.append((f[2], owner[pos - 1]))
    return out


def refine(key, sc, line, judge_ans):
    """make finding keys specific to the call site / history shape"""
    cfg = sc["cfg"]
    ops = sc["ops"]
    if key == "closing-never-reaches-closed":
        per = wsrun.parse_line(line)
        first_g = next((k for k, (_, st) in enumerate(per) if st == "G"), None)
        if first_g is not None and not cfg["srv"] and ops[first_g].startswith("feed"):
            return "closing-unbounded:client-replied-to-peer-close-no-timer"
        return key
    if key == "data-frame-after-close-frame":
        seen = False
        for opc, k in op_of_frames(sc, line):
            if seen and opc in (0, 1, 2):
                return key + ":" + ops[k].split(",")[0]
            if opc == 8:
                seen = True
        return key
    if key == "write-after-onClose":
        per = wsrun.parse_line(line)
        seen = False
        for (items, st), op in zip(per, ops):
            for it in items:
                if it.startswith("oc:"):
                    seen = True
                elif seen and it.startswith("w:"):
                    return key + ":" + op.split(",")[0]
        return key
    if key == "clean-without-sending-close":
        # our close frame was queued behind synchronous/chopped writes and the TCP drop discarded the queue
        per = wsrun.parse_line(line)
        for k, op in enumerate(ops):
            a = op.split(",")
            if (a[0] == "msg" and a[4] == "1") or (a[0] in ("fd", "mf") and a[-1] == "1"):
                return key + ":close-frame-stuck-behind-queued-sync-writes"
        return key
    if key == "clean-without-valid-peer-close" and not cfg.get("fbd", 1):
        return key + ":failByClose-invalid-peer-close-answered-then-taken-as-reply"
    if key in ("clean-reports-other-code-than-peers", "clean-without-valid-peer-close") and not cfg["srv"]:
        evs, verdict, rest = wsoracle.parse_judge(judge_ans)
        if verdict == "peer" and rest > 0:
            return "client-processes-data-after-peer-close"
    return key


def shrink(sc, fw, pred, driver):
    """ddmin over the op list keeping `pred(script)` true"""
    ops = list(sc["ops"])
    n = 2
    while len(ops) >= 2 and n <= len(ops):
        chunk = max(1, len(ops) // n)
        removed = False
        for i in range(0, len(ops), chunk):
            cand = ops[:i] + ops[i + chunk:]
            if cand and pred(dict(sc, ops=cand)):
                ops = cand
                n = max(n - 1, 2)
                removed = True
                break
        if not removed:
            if chunk == 1:
                break
            n = min(len(ops), n * 2)
    return dict(sc, ops=ops)


def run(ctx):
    res = core.Result()
    res.rule = ("event histories of 1-8 events over {sendClose variants, send API, peer close frame (valid/empty/invalid code/non-UTF-8/1 octet/with "
                "reason), peer data/ping/violating frame, clock advance to each configured deadline -1s/-8/0/+8/+0.5s, connection lost}, both "
                "roles, failByDrop x echoCloseCodeReason x closeHandshakeTimeout in {0,0.5,1,3}s x serverConnectionDropTimeout in {0,1,2}s, "
                "followed by a 20 s wait, connection-lost, another 20 s and four API calls; run on real Twisted and asyncio objects and "
                "on the Lean model (exact comparison after every event); CloseSpec evaluated on the implementation trace; "
                "non-trivial = distinct history that reaches CLOSING or CLOSED before the final probes")
    n = 700 if ctx.tier == "quick" else 12000
    if ctx.replay_path:
        rp = json.loads(Path(ctx.replay_path).read_text())["replay"]
        base = [rp["history"]]
    else:
        base = [gen_history(ctx.rng, ctx.tier) for _ in range(n)]
        base += corpus()
    scripts, nb = [], []
    for b in base:
        s, k = finish(b)
        scripts.append(s)
        nb.append(k)
    # what the peer sent, judged as a whole (for the "clean only if" clause)
    fed = []
    for s in scripts:
        data = b"".join(wsoracle.unhex(o.split(",")[1]) for o in s["ops"] if o.startswith("feed,"))
        fed.append(f"ws.judge {wsrun.cfg_token(dict(s['cfg'], mm=0, mf=0))} {wsgen.hx(data)}")
    judge = ctx.driver.run(fed)
    viol = {}
    for fw in ("twisted", "asyncio"):
        impl = wsrun.run_impl(scripts, fw, nproc=16)
        model = wsrun.run_model(ctx.driver, scripts, fw)
        impl = wsrun.stabilise(scripts, fw, impl, model, res.notes)
        res.evaluations += len(scripts)
        # the history variable the theorem no_data_frame_after_close speaks about, tied to the octets the real objects wrote:
        # the opcodes of the complete frames on the implementation's wire are a prefix of the model's sentOps (frames still in
        # the send queue when the transport goes, and a streaming frame whose payload is incomplete, are not on the wire)
        sent = wsrun.run_model_sentops(ctx.driver, scripts, fw)
        n_eq = 0
        for s, a, so in zip(scripts, impl, sent):
            if a.startswith("ERROR"):
                continue
            wire_ops = [f[0] for f in wsoracle.Proj(a, s["cfg"]).written()]
            ok = so is not None and wire_ops == so[0][:len(wire_ops)]
            # closeSent (the variable of one_close_frame / clean_close_needs_both) counts the close frames produced
            ok = ok and so[1] == so[0].count(8) and wire_ops.count(8) <= so[1]
            if not ok:
                res.correspondence_breaks.append({"stream": f"ws.ops sentOps/closeSent-vs-wire/{fw}", "script": s, "op": 0, "impl": str(wire_ops)[:400], "model": str(so)[:400]})
            elif len(wire_ops) == len(so[0]):
                n_eq += 1
        res.count(f"sentOps==wire-opcodes/{fw}", n_eq)
        res.count(f"sentOps-longer-than-wire/{fw}", len(scripts) - n_eq)
        for s, k, a, b, j in zip(scripts, nb, impl, model, judge):
            if a != b:
                fd = wsrun.first_diff(a, b) if not a.startswith("ERROR") else (0, a[:300], "")
                res.correspondence_breaks.append({"stream": f"ws.run close-history/{fw}", "script": s, "op": fd[0], "impl": fd[1][:400], "model": fd[2][:400]})
            per = wsrun.parse_line(a) if not a.startswith("ERROR") else []
            if any(st in ("G", "X") for _, st in per[:k]):
                res.distinct.add(core.sha(json.dumps(s, sort_keys=True))[:16])
            for key, what in close_spec(s, k, a, j):
                key = refine(key, s, a, j)
                if key not in viol:
                    viol[key] = core.Violation(key, f"{fw}: {what}", {"history": dict(s, ops=s["ops"][:k]), "fw": fw, "full_ops": s["ops"], "impl": a[:3000], "peer_octets_judged": j[:300]})
        for s in scripts[:2]:
            res.sample({"cfg": s["cfg"], "ops": [o[:50] for o in s["ops"]]})
    res.traces_validated = res.evaluations
    res.violations = list(viol.values())
    for o in set(o.split(",")[0] for s in base for o in s["ops"]):
        res.count("op:" + o, sum(1 for s in base for x in s["ops"] if x.split(",")[0] == o))
    return res


def corpus():
    """minimised past failures and ledger inputs, replayed first on every run"""
    out = []
    d = core.VERIF / "corpus" / "C05"
    if d.exists():
        for f in sorted(d.glob("*.json")):
            out.append(json.loads(f.read_text()))
    return out
