"""C14 worker, Twisted: real autobahn.twisted.component.Component on task.Clock (see c14_sim.py)."""
from harness.workers import c14_sim

if __name__ == "__main__":
    c14_sim.serve("twisted")
