"""C15 worker: runs the real maskers on cases and compares with expected (spec) outputs.
stdin: JSON {mode, nvxdir, cases:[[keyhex,p,datahex,exp_hex,exp_ptr],...], splits, aligns}
stdout: JSON {evaluations, mismatches:[...], by_impl:{}}"""
import json
import os
import sys

job = json.load(sys.stdin)
mode = job["mode"]
mism = []
by_impl = {}
evals = 0


def splits_for(n, how):
    if how == "all":
        return list(range(0, n + 1))
    s = {0, 1, 2, 3, 4, 5, 15, 16, 17, 31, 32, 33, n - 1, n, n // 2}
    return sorted(x for x in s if 0 <= x <= n)


def note(impl, key, p, align, data, split, got, gotptr, exp, expptr):
    global evals
    evals += 1
    by_impl[impl] = by_impl.get(impl, 0) + 1
    if got != exp or gotptr != expptr:
        if len(mism) < 50:
            mism.append({"impl": impl, "key": key.hex(), "offset": p, "align": align, "data": data.hex(),
                         "split": split, "got": got.hex(), "got_ptr": gotptr, "expected": exp.hex(),
                         "expected_ptr": expptr})


if mode == "pure":
    assert os.environ.get("AUTOBAHN_USE_NVX") == "0"
    from autobahn.websocket import xormasker as xm
    assert not xm.USES_NVX
    impls = {"py.simple": lambda k, n: xm.XorMaskerSimple(k), "py.shifted1": lambda k, n: xm.XorMaskerShifted1(k),
             "py.create": lambda k, n: xm.create_xor_masker(k, n), "py.create_none": lambda k, n: xm.create_xor_masker(k)}
    for keyhex, p, datahex, exphex, expptr in job["cases"]:
        key = bytes.fromhex(keyhex)
        data = bytes.fromhex(datahex)
        exp = bytes.fromhex(exphex)
        for name, mk in impls.items():
            for s in splits_for(len(data), job["splits"]):
                m = mk(key, len(data))
                if p:
                    m.process(b"\0" * p)
                got = m.process(data[:s]) + m.process(data[s:]) if s not in (0,) else m.process(data)
                if s == 0 and len(data) and name == "py.simple":
                    # an explicit empty first chunk as well
                    m2 = mk(key, len(data))
                    if p:
                        m2.process(b"\0" * p)
                    got2 = m2.process(b"") + m2.process(data)
                    note(name + "+empty", key, p, None, data, 0, got2, m2.pointer(), exp, expptr)
                note(name, key, p, None, data, s, got, m.pointer(), exp, expptr)
    # the null masker: identity, pointer counts
    nm = xm.XorMaskerNull()
    for keyhex, p, datahex, exphex, expptr in job["cases"][:200]:
        data = bytes.fromhex(datahex)
        nm.reset()
        out = nm.process(data)
        note("py.null", b"\0\0\0\0", 0, None, data, 0, out, nm.pointer(), data, len(data))
else:
    sys.path.insert(0, job["nvxdir"])
    import _nvx_xormasker as nx
    assert nx.__file__.startswith(job["nvxdir"]), nx.__file__
    ffi, lib = nx.ffi, nx.lib
    # public wrapper classes (they import the injected module)
    os.environ["AUTOBAHN_USE_NVX"] = "1"
    from autobahn.nvx import _xormasker as wrap
    big = ffi.new("uint8_t[]", 64 + 16 + 4 * 1024 * 1024 + 64)
    base = int(ffi.cast("uintptr_t", big))
    base_al = (base + 63) & ~63
    off0 = base_al - base
    aligns = job["aligns"]
    for keyhex, p, datahex, exphex, expptr in job["cases"]:
        key = bytes.fromhex(keyhex)
        data = bytes.fromhex(datahex)
        exp = bytes.fromhex(exphex)
        n = len(data)
        kb = ffi.new("uint8_t[4]", key)
        for impl_id, impl_name in ((1, "nvx.simple"), (2, "nvx.sse2")):
            for al in (aligns if impl_id == 2 else aligns[:2]):
                for s in splits_for(n, job["splits"]):
                    mk = lib.nvx_xormask_new(kb)
                    r = lib.nvx_xormask_set_impl(mk, impl_id)
                    if r != impl_id:
                        raise SystemExit("impl %d unavailable" % impl_id)
                    if p:
                        z = ffi.new("uint8_t[]", p)
                        lib.nvx_xormask_process(mk, z, p)
                    ptr = big + off0 + al
                    ffi.memmove(ptr, data, n)
                    # two chunks, processed in place at their true addresses
                    lib.nvx_xormask_process(mk, ptr, s)
                    lib.nvx_xormask_process(mk, ptr + s, n - s)
                    got = bytes(ffi.buffer(ptr, n))
                    gp = lib.nvx_xormask_pointer(mk)
                    lib.nvx_xormask_free(mk)
                    note(impl_name, key, p, al, data, s, got, gp, exp, expptr)
        # wrapper classes + factory
        for name, mkf in (("nvx.wrap.simple", lambda: wrap.XorMaskerSimple(key)),
                          ("nvx.wrap.shifted1", lambda: wrap.XorMaskerShifted1(key)),
                          ("nvx.wrap.create", lambda: wrap.create_xor_masker(key, n))):
            for s in splits_for(n, "few"):
                m = mkf()
                if p:
                    m.process(b"\0" * p)
                got = m.process(data[:s]) + m.process(data[s:])
                note(name, key, p, None, data, s, got, m.pointer(), exp, expptr)

json.dump({"evaluations": evals, "mismatches": mism, "by_impl": by_impl}, sys.stdout)
