"""C07 worker: the real `str` / `re` / `urllib` / autobahn helpers on Latin-1 strings, in the canonical
format of the Lean driver's `hs.str`, `hs.glob`, `hs.origin`, `hs.digest` answers.

stdin {"ops": [[fn, hex, ...], ...]}  ->  stdout {"results": [str, ...], "br": [[hex...] per op or None]}
"""
import base64
import hashlib
import json
import sys

from autobahn.util import wildcards2patterns
from autobahn.websocket import protocol as P

job = json.load(sys.stdin)


def ux(h):
    return bytes.fromhex(h).decode("latin-1") if h and h != "-" else ""


def rh(s):
    b = s.encode("latin-1") if isinstance(s, str) else s
    return b.hex() or "-"


def lst(l):
    return ",".join(rh(x) for x in l) if l else "_"


def br_candidates(s):
    from urllib.parse import _check_bracketed_host
    out = []
    opens = [i for i, c in enumerate(s) if c == "["]
    for i in opens[:6]:
        ends = [j for j in range(i + 1, len(s)) if s[j] in "]/?#"][:8] + [len(s)]
        for j in ends:
            try:
                _check_bracketed_host(s[i + 1:j])
                out.append(rh(s[i + 1:j]))
            except ValueError:
                pass
    return out


def run(op):
    fn, a = op[0], op[1:]
    if fn == "splitlines":
        return lst(ux(a[0]).splitlines()), None
    if fn == "strip":
        return rh(ux(a[0]).strip()), None
    if fn == "lower":
        return rh(ux(a[0]).lower()), None
    if fn == "splitws":
        return lst(ux(a[0]).split()), None
    if fn == "spliton":
        return lst(ux(a[1]).split(ux(a[0]))), None
    if fn == "find":
        return str(ux(a[1]).find(ux(a[0]))), None
    if fn == "rcut":
        c, s = ux(a[0]), ux(a[1])
        if c not in s:
            return "none", None
        h, p = s.rsplit(c, 1)
        return rh(h) + " " + rh(p), None
    if fn == "int":
        try:
            return str(int(ux(a[0]))), None
        except ValueError:
            return "ValueError", None
    if fn == "isspace":
        s = ux(a[0])
        return "1" if all(c.isspace() for c in s) else "0", None
    if fn == "utf8":
        try:
            bytes.fromhex(a[0] if a[0] != "-" else "").decode("utf8")
            return "1", None
        except UnicodeDecodeError:
            return "0", None
    if fn == "encode":
        return rh(ux(a[0]).encode("utf8")), None
    if fn == "parsehdr":
        try:
            line, h, c = P.parseHttpHeader(bytes.fromhex(a[0] if a[0] != "-" else ""))
        except IndexError:
            return "IndexError", None
        return rh(line) + " " + (",".join("%s:%s:%d" % (rh(k), rh(v), c[k]) for k, v in h.items()) if h else "_"), None
    if fn == "exts":
        es = P.WebSocketProtocol._parseExtensionsHeader(None, ux(a[0]))
        return json.dumps([[rh(n), [[rh(k), ["T" if v is True else "v" + rh(v) for v in vs]] for k, vs in ps.items()]]
                           for n, ps in es]), None
    if fn == "urlsplit":
        from urllib.parse import urlsplit
        s = ux(a[0])
        br = br_candidates(s)
        try:
            u = urlsplit(s)
        except ValueError:
            return "ValueError", br
        return " ".join(rh(x) for x in (u.scheme, u.netloc, u.path, u.query, u.fragment)), br
    if fn == "origin":
        s = ux(a[0])
        br = br_candidates(s)
        try:
            o = P._url_to_origin(s)
        except ValueError:
            return "error", br
        if o == "null":
            return "null", br
        return "%s %s %s" % (rh(o[0]), rh(o[1]), o[2]), br
    if fn == "glob":
        pat = wildcards2patterns([ux(a[0])])[0]
        return "1" if pat.match(ux(a[1])) else "0", None
    if fn == "sameorigin":
        pats = wildcards2patterns([ux(x) for x in a[0].split(",")] if a[0] != "_" else [])
        o = (ux(a[1]), ux(a[2]), None if a[3] == "None" else int(a[3]))
        return "1" if P._is_same_origin(o, "http", 80, pats) else "0", None
    if fn == "digest":
        key = bytes.fromhex(a[0] if a[0] != "-" else "")
        return rh(base64.b64encode(hashlib.sha1(key + P.WebSocketProtocol._WS_MAGIC).digest())), None
    if fn == "sha1":
        return hashlib.sha1(bytes.fromhex(a[0] if a[0] != "-" else "")).hexdigest(), None
    if fn == "b64":
        return rh(base64.b64encode(bytes.fromhex(a[0] if a[0] != "-" else ""))), None
    if fn == "nfkc":
        import unicodedata
        bad = [c for c in range(256) if any(x in unicodedata.normalize("NFKC", chr(c)) for x in "/?#@:") and chr(c) not in "/?#@:"]
        return ",".join(map(str, bad)) or "_", None
    raise ValueError(fn)


res, brs = [], []
for op in job["ops"]:
    r, b = run(op)
    res.append(r)
    brs.append(b)
json.dump({"results": res, "br": brs}, sys.stdout)
