"""C15 part B: mask bit and key of frames on the wire under default options.
Client: every frame masked, key = one random.getrandbits(32) per frame; server: never masked."""
import json
import random
import struct
import sys

from vlib import ws

seed, tier = int(sys.argv[1]), sys.argv[2]
rng = random.Random(seed)
out = {"frames": 0, "violations": []}

for fw in (sys.argv[3:] or ["twisted"]):
    env = ws.setup(fw)
    import autobahn.websocket.protocol as P
    # deterministic key source: the protocol takes keys from random.getrandbits(32)
    drawn = []
    real = random.getrandbits

    def fake(k):
        v = real(k)
        drawn.append(v)
        return v
    P.random.getrandbits = fake
    for role in ("client", "server"):
        ep = ws.make_ws(env, role)
        drawn.clear()
        p = ep.proto
        n = 60 if tier == "quick" else 400
        for i in range(n):
            ln = rng.choice([0, 1, 5, 125, 126, 127, 200, 70000 if i % 17 == 0 else 3])
            api = rng.choice(["msg", "frag", "ping", "stream", "prepared", "pong"])
            data = rng.randbytes(ln)
            if api == "msg":
                p.sendMessage(data, True)
            elif api == "frag":
                p.sendMessage(data, True, fragmentSize=rng.choice([1, 2, 64, 126]) if ln < 1000 else 4096)
            elif api == "ping":
                p.sendPing(data[:125])
            elif api == "pong":
                p.sendPong(data[:125])
            elif api == "prepared":
                p.sendPreparedMessage(ep.factory.prepareMessage(data, True))
            else:
                p.beginMessage(True)
                p.beginMessageFrame(ln)
                p.sendMessageFrameData(data)
                p.endMessage()
        env.pump()
        raw = ep.transport.take()
        frames, rest = ws.parse_frames(raw)
        out["frames"] += len(frames)
        if rest:
            out["violations"].append({"key": "wire-trailing-garbage", "what": f"{role}/{fw}: {len(rest)} octets after the last complete frame", "role": role})
        if role == "client":
            keys = [f["mask"] for f in frames]
            if not all(f["masked"] for f in frames):
                out["violations"].append({"key": "client-frame-unmasked", "what": f"{fw}: default client sent an unmasked frame", "role": role})
            exp = [struct.pack("!I", v).hex() for v in drawn]
            if keys != exp:
                out["violations"].append({"key": "client-key-not-per-frame",
                                          "what": f"{fw}: masking keys on the wire are not one fresh getrandbits(32) per frame",
                                          "keys": keys[:8], "drawn": exp[:8], "nkeys": len(keys), "ndrawn": len(exp)})
        else:
            if any(f["masked"] for f in frames):
                out["violations"].append({"key": "server-frame-masked", "what": f"{fw}: default server sent a masked frame", "role": role})
            if drawn:
                out["violations"].append({"key": "server-drew-keys", "what": f"{fw}: server drew masking keys", "role": role})
json.dump(out, sys.stdout)
