"""C16 (compression part): decompression size cap and refused sends, on real endpoints with an independent zlib peer.
argv: fw seed tier.  stdout: JSON {evaluations, violations:[{key, what, ...}]}"""
import json
import random
import sys
import zlib

from vlib import ws

fw, seed, tier = sys.argv[1], int(sys.argv[2]), sys.argv[3]
rng = random.Random(seed)
env = ws.setup(fw)
from autobahn.exception import PayloadExceededError
from autobahn.websocket.compress import (PerMessageDeflateOffer, PerMessageDeflateOfferAccept,
                                         PerMessageDeflateResponseAccept)
out = {"evaluations": 0, "violations": []}


def viol(key, what, **kw):
    if not any(v["key"] == key for v in out["violations"]):
        out["violations"].append(dict(key=key, what=what, fw=fw, **kw))


def deflate_frames(comp, msgs, mask):
    """an independent RFC 7692 sender: one compressed single-frame message per payload, context takeover kept"""
    data = b""
    for m in msgs:
        c = comp.compress(m) + comp.flush(zlib.Z_SYNC_FLUSH)
        assert c.endswith(b"\x00\x00\xff\xff")
        data += ws.build_frame(1 if m.isascii() else 2, c[:-4], rsv=4, mask=mask)
    return data


# --- (1) decompression cap: an over-cap compressed message is never delivered truncated or altered and never
#         corrupts later messages
caps = [10, 100, 1000] if tier == "quick" else [1, 10, 100, 1000, 65536]
for cap in caps:
    for role in ("server", "client"):
        for size in (cap - 1, cap, cap + 1, 10 * cap + 3):
            if size < 0:
                continue
            if role == "server":
                opts = dict(perMessageCompressionAccept=lambda offers, cap=cap: next(
                    (PerMessageDeflateOfferAccept(o, max_message_size=cap) for o in offers if isinstance(o, PerMessageDeflateOffer)), None))
                ep = ws.make_ws(env, role, opts, ext_request="permessage-deflate")
                mask = b"\x01\x02\x03\x04"
            else:
                opts = dict(perMessageCompressionOffers=[PerMessageDeflateOffer()],
                            perMessageCompressionAccept=lambda r, cap=cap: PerMessageDeflateResponseAccept(r, max_message_size=cap))
                ep = ws.make_ws(env, role, opts, ext_response="permessage-deflate")
                mask = None
            assert ep.proto._perMessageCompress is not None
            big = b"A" * size
            later = [b"h", b"2"] if cap >= 1 else []
            comp = zlib.compressobj(zlib.Z_DEFAULT_COMPRESSION, zlib.DEFLATED, -15)
            stream = deflate_frames(comp, [big] + later, mask)
            escaped = None
            try:
                ws.deliver(env, ep, stream)
            except Exception as e:  # noqa
                escaped = type(e).__name__ + ": " + str(e)[:80]
            out["evaluations"] += 1
            got = [e[1] for e in ep.events if e[0] == "onMessage"]
            rep = dict(role=role, cap=cap, size=size, delivered=[g[:40].hex() for g in got], escaped=escaped,
                       transport=[e[0] for e in ep.transport.log][:6])
            if size > cap:
                if any(g != big and big.startswith(g) and len(g) < len(big) for g in got[:1]) and got[:1] != [big]:
                    viol("decompression-cap-truncates-silently", f"{role}: a {size}-octet message over the {cap}-octet decompression cap was delivered truncated to {len(got[0])} octets", **rep)
                elif got[:1] and got[0] != big:
                    viol("decompression-cap-alters-message", f"{role}: over-cap message delivered altered", **rep)
                if escaped:
                    viol("decompression-cap-corrupts-later-messages", f"{role}: after the over-cap message the next message raised {escaped} out of dataReceived", **rep)
                elif got and got[0] != big and any(m in got for m in later):
                    pass
                # acceptable outcomes: failed with 1009 (nothing delivered), or delivered intact
            else:
                if got != [big] + later:
                    viol("message-within-decompression-cap-affected", f"{role}: message of {size} <= cap {cap} not delivered intact with its successors", **rep)
                if escaped:
                    viol("exception-escaped-dataReceived", f"{role}: {escaped}", **rep)

# --- (2) a send refused by maxMessagePayloadSize must write nothing and must not disturb later messages
for role in ("server", "client"):
    for limit in ([50, 500] if tier == "quick" else [10, 50, 500, 5000]):
        if role == "server":
            opts = dict(maxMessagePayloadSize=limit, perMessageCompressionAccept=lambda offers: next(
                (PerMessageDeflateOfferAccept(o) for o in offers if isinstance(o, PerMessageDeflateOffer)), None))
            ep = ws.make_ws(env, role, opts, ext_request="permessage-deflate")
        else:
            opts = dict(maxMessagePayloadSize=limit, perMessageCompressionOffers=[PerMessageDeflateOffer()],
                        perMessageCompressionAccept=lambda r: PerMessageDeflateResponseAccept(r))
            ep = ws.make_ws(env, role, opts, ext_response="permessage-deflate")
        p = ep.proto
        m1 = b"first message, compressible " * 1
        m2 = rng.randbytes(limit * 8)          # incompressible: over the limit after compression
        m3 = b"third message, compressible " * 1
        sent, refused_wrote = [], None
        inflater = zlib.decompressobj(-15)
        for m in (m1, m2, m3):
            before = len(ep.transport.written())
            try:
                p.sendMessage(m, True)
                sent.append(m)
            except PayloadExceededError:
                env.pump()
                if len(ep.transport.written()) != before:
                    refused_wrote = len(ep.transport.written()) - before
            env.pump()
        out["evaluations"] += 1
        wire = ep.transport.take()
        frames, rest = ws.parse_frames(wire)
        got, err = [], None
        for f in frames:
            if f["opcode"] in (1, 2) and f["rsv"] == 4:
                try:
                    got.append(inflater.decompress(f["payload"] + b"\x00\x00\xff\xff"))
                except zlib.error as e:
                    err = str(e)
                    break
            elif f["opcode"] in (1, 2):
                got.append(f["payload"])
        rep = dict(role=role, limit=limit, sent=len(sent), inflated=len(got), zlib_error=err)
        if refused_wrote:
            viol("refused-send-wrote-octets", f"{role}: sendMessage raised PayloadExceededError but {refused_wrote} octets were written", **rep)
        if err or got != sent:
            viol("refused-send-desynchronises-compressor",
                 f"{role}: after a send refused by maxMessagePayloadSize={limit} the peer cannot inflate later messages ({err})", **rep)
json.dump(out, sys.stdout)
