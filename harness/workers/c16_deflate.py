"""C16 (compression part): decompression size cap and refused sends, on real endpoints with an independent zlib peer.
argv: fw seed tier.  stdout: JSON {evaluations, violations:[{key, what, ...}]}"""
import json
import random
import sys
import zlib

from vlib import ws

fw, seed, tier = sys.argv[1], int(sys.argv[2]), sys.argv[3]
rng = random.Random(seed)
env = ws.setup(fw)
from autobahn.exception import PayloadExceededError
from autobahn.websocket.compress import (PerMessageDeflateOffer, PerMessageDeflateOfferAccept,
                                         PerMessageDeflateResponseAccept)
out = {"evaluations": 0, "violations": []}


def viol(key, what, **kw):
    if not any(v["key"] == key for v in out["violations"]):
        out["violations"].append(dict(key=key, what=what, fw=fw, **kw))


def deflate_frames(comp, msgs, mask):
    """an independent RFC 7692 sender: one compressed single-frame message per payload, context takeover kept"""
    data = b""
    for m in msgs:
        c = comp.compress(m) + comp.flush(zlib.Z_SYNC_FLUSH)
        assert c.endswith(b"\x00\x00\xff\xff")
        data += ws.build_frame(1 if m.isascii() else 2, c[:-4], rsv=4, mask=mask)
    return data


def deflate_message(comp, m, mask, nfrag):
    """one compressed message as nfrag frames (RSV1 on the first frame only)"""
    c = comp.compress(m) + comp.flush(zlib.Z_SYNC_FLUSH)
    assert c.endswith(b"\x00\x00\xff\xff")
    c = c[:-4]
    op = 1 if m.isascii() else 2
    if nfrag <= 1 or len(c) < nfrag:
        return ws.build_frame(op, c, rsv=4, mask=mask)
    k = max(1, len(c) // nfrag)
    parts = [c[i:i + k] for i in range(0, len(c), k)]
    data = b""
    for i, part in enumerate(parts):
        data += ws.build_frame(op if i == 0 else 0, part, fin=int(i == len(parts) - 1), rsv=4 if i == 0 else 0, mask=mask)
    return data


# --- (1) decompression cap: an over-cap compressed message is never delivered (whole, truncated or altered), the
#         connection is failed with 1009 per fail policy, nothing escapes dataReceived; messages within the cap and
#         their successors (shared inflater context) arrive intact
caps = [10, 100, 1000] if tier == "quick" else [1, 10, 100, 1000, 65536]
for cap in caps:
    for role in ("server", "client"):
        for size in (cap - 1, cap, cap + 1, 10 * cap + 3):
            if size < 0:
                continue
            for kind, nfrag, chunk, fbd in (("A", 1, 0, True), ("rnd", 1, 0, True), ("A", 3, 0, False), ("rnd", 4, 7, True), ("mix", 2, 1, False)):
                if tier == "quick" and cap == 1000 and chunk == 1:
                    chunk = 13
                if role == "server":
                    opts = dict(failByDrop=fbd, perMessageCompressionAccept=lambda offers, cap=cap: next(
                        (PerMessageDeflateOfferAccept(o, max_message_size=cap) for o in offers if isinstance(o, PerMessageDeflateOffer)), None))
                    ep = ws.make_ws(env, role, opts, ext_request="permessage-deflate")
                    mask = b"\x01\x02\x03\x04"
                else:
                    opts = dict(failByDrop=fbd, perMessageCompressionOffers=[PerMessageDeflateOffer()],
                                perMessageCompressionAccept=lambda r, cap=cap: PerMessageDeflateResponseAccept(r, max_message_size=cap))
                    ep = ws.make_ws(env, role, opts, ext_response="permessage-deflate")
                    mask = None
                assert ep.proto._perMessageCompress is not None
                big = {"A": b"A" * size, "rnd": rng.randbytes(size), "mix": (b"abc" * size + rng.randbytes(size))[:size]}[kind]
                first = b"before"[:cap]          # a message within the cap ahead of it (context takeover)
                later = [b"h", b"2"]
                comp = zlib.compressobj(zlib.Z_DEFAULT_COMPRESSION, zlib.DEFLATED, -15)
                ep.transport.take()
                stream = deflate_message(comp, first, mask, 1) + deflate_message(comp, big, mask, nfrag) + b"".join(deflate_message(comp, m, mask, 1) for m in later)
                escaped = None
                try:
                    if chunk:
                        for i in range(0, len(stream), chunk):
                            ws.deliver(env, ep, stream[i:i + chunk])
                    else:
                        ws.deliver(env, ep, stream)
                except Exception as e:  # noqa
                    escaped = type(e).__name__ + ": " + str(e)[:80]
                out["evaluations"] += 1
                got = [e[1] for e in ep.events if e[0] == "onMessage"]
                wire = ep.transport.take()
                frames, _ = ws.parse_frames(wire)
                codes = [int.from_bytes(f["payload"][:2], "big") for f in frames if f["opcode"] == 8 and len(f["payload"]) >= 2]
                dropped = any(e[0] in ("lose", "abort") for e in ep.transport.log)
                rep = dict(role=role, cap=cap, size=size, kind=kind, nfrag=nfrag, chunk=chunk, failByDrop=fbd, delivered=[g[:40].hex() for g in got],
                           escaped=escaped, close_codes=codes, dropped=dropped)
                if escaped:
                    viol("decompression-cap-corrupts-later-messages" if size > cap else "exception-escaped-dataReceived",
                         f"{role}: {escaped} left dataReceived (cap {cap}, message of {size})", **rep)
                elif size > cap:
                    rest = got[1:] if got[:1] == [first] else got
                    if got[:1] != [first]:
                        viol("message-within-decompression-cap-affected", f"{role}: the message ahead of the over-cap one was not delivered intact", **rep)
                    elif rest and rest[0] != big and big.startswith(rest[0]):
                        viol("decompression-cap-truncates-silently", f"{role}: a {size}-octet message over the {cap}-octet decompression cap was delivered truncated to {len(rest[0])} octets", **rep)
                    elif rest and rest[0] != big:
                        viol("decompression-cap-alters-message", f"{role}: over-cap message delivered altered", **rep)
                    elif rest:
                        viol("over-cap-message-delivered", f"{role}: a {size}-octet message was delivered although the decompression cap is {cap}", **rep)
                    elif not (dropped if fbd else codes == [1009]):
                        viol("over-cap-message-not-failed-1009", f"{role}: over-cap message neither delivered nor failed per policy (close codes {codes}, dropped {dropped})", **rep)
                else:
                    if got != [first, big] + later:
                        viol("message-within-decompression-cap-affected", f"{role}: message of {size} <= cap {cap} not delivered intact with its neighbours", **rep)
                    elif codes or dropped:
                        viol("within-cap-connection-failed", f"{role}: connection failed although every message is within the cap", **rep)

# --- (2) a send refused by maxMessagePayloadSize must write nothing and must not disturb later messages
for role in ("server", "client"):
    for limit in ([50, 500] if tier == "quick" else [10, 50, 500, 5000]):
        if role == "server":
            opts = dict(maxMessagePayloadSize=limit, perMessageCompressionAccept=lambda offers: next(
                (PerMessageDeflateOfferAccept(o) for o in offers if isinstance(o, PerMessageDeflateOffer)), None))
            ep = ws.make_ws(env, role, opts, ext_request="permessage-deflate")
        else:
            opts = dict(maxMessagePayloadSize=limit, perMessageCompressionOffers=[PerMessageDeflateOffer()],
                        perMessageCompressionAccept=lambda r: PerMessageDeflateResponseAccept(r))
            ep = ws.make_ws(env, role, opts, ext_response="permessage-deflate")
        p = ep.proto
        m1 = b"first message, compressible " * 1
        m2 = rng.randbytes(limit * 8)          # incompressible: over the limit after compression
        m3 = b"third message, compressible " * 1
        sent, refused_wrote = [], None
        inflater = zlib.decompressobj(-15)
        for m in (m1, m2, m3):
            before = len(ep.transport.written())
            try:
                p.sendMessage(m, True)
                sent.append(m)
            except PayloadExceededError:
                env.pump()
                if len(ep.transport.written()) != before:
                    refused_wrote = len(ep.transport.written()) - before
            env.pump()
        out["evaluations"] += 1
        wire = ep.transport.take()
        frames, rest = ws.parse_frames(wire)
        got, err = [], None
        for f in frames:
            if f["opcode"] in (1, 2) and f["rsv"] == 4:
                try:
                    got.append(inflater.decompress(f["payload"] + b"\x00\x00\xff\xff"))
                except zlib.error as e:
                    err = str(e)
                    break
            elif f["opcode"] in (1, 2):
                got.append(f["payload"])
        rep = dict(role=role, limit=limit, sent=len(sent), inflated=len(got), zlib_error=err)
        if refused_wrote:
            viol("refused-send-wrote-octets", f"{role}: sendMessage raised PayloadExceededError but {refused_wrote} octets were written", **rep)
        if err or got != sent:
            viol("refused-send-desynchronises-compressor",
                 f"{role}: after a send refused by maxMessagePayloadSize={limit} the peer cannot inflate later messages ({err})", **rep)
json.dump(out, sys.stdout)
