"""C12 worker (data path): real endpoint pairs of one framework wired through in-memory transports.
argv: framework; stdin: JSON {"scenarios": [...]}; stdout: JSON {"results": [...]}

scenario = {
  "id": str,
  "offers":  [["d", a, b, c, w] | ["z", acc, req] | ["r", acc, req], ...]      client perMessageCompressionOffers
  "spol":    [d, z, r]     server policy tokens (line-protocol syntax, see c12_common.server_policy)
  "cpol":    [d, z, r]     client policy tokens
  "peer":    "real" | "zlib-client" | "zlib-server"     the named side is an independent RFC 7692 implementation
  "sopts", "copts": extra protocol options per side (maxMessagePayloadSize, autoFragmentSize)
  "msgs":    [{"dir": "c2s"|"s2c", "bin": bool, "gen": [kind, size, seed], "api": "whole"|"stream"|"prepared",
               "frag": int|None, "pieces": int, "dnc": bool}, ...]
  "seg":     seed of the re-segmentation
  "inject":  [names]     frames injected after the messages (each on a fresh pair with the same negotiation)
}
result = {"id", "req_ext", "resp_ext", "server", "client", "violations": [{key, what, ...}], "frames": n, "msgs": n,
          "shapes": [[frag, opcode, rsv, total_len, "fin.rsv.op.len ..."], ...], "inject": {name: "failed"|"accepted"}}
"""
import json
import random
import sys
import zlib

from vlib import ws

from harness.workers import c12_common as cm

fw = sys.argv[1]
env = ws.setup(fw)
from autobahn.websocket.compress import PERMESSAGE_COMPRESSION_EXTENSION as EXT  # noqa: E402
from autobahn.websocket.compress_deflate import PerMessageDeflateOffer  # noqa: E402
from autobahn.exception import PayloadExceededError  # noqa: E402

WORDS = [b"alpha", b"beta", b"gamma", b"delta", b"websocket", b"compress", b"window", b"context", b"takeover",
         b"frame", b" ", b" ", b"\n", b"0123456789"]


def gen(kind, size, seed, prev):
    rng = random.Random(seed)
    if kind == "empty":
        return b""
    if kind == "rep":
        return prev if prev is not None else b"first"
    if kind == "rand":
        return rng.randbytes(size)
    if kind == "comp":
        out = bytearray()
        while len(out) < size:
            out += rng.choice(WORDS)
        return bytes(out[:size])
    if kind == "far":
        # a random block followed by itself: the second copy is a back-reference at distance size/2,
        # decodable only if the inflater's window reaches that far
        blk = rng.randbytes(max(1, size // 2))
        return blk + blk
    if kind == "zeros":
        return bytes(size)
    raise ValueError(kind)


def mk_offers(offs):
    out = []
    for o in offs:
        if o[0] == "d":
            out.append(PerMessageDeflateOffer(bool(o[1]), bool(o[2]), bool(o[3]), int(o[4])))
        elif o[0] == "z":
            out.append(EXT["permessage-bzip2"]["Offer"](bool(o[1]), int(o[2])))
        elif o[0] == "r":
            out.append(EXT["permessage-brotli"]["Offer"](bool(o[1]), bool(o[2])))
    return out


def build_pair(sc):
    """both ends through real opening handshakes; the server gets the header the client really renders,
    the client gets the header the server really answered"""
    offers = mk_offers(sc["offers"])
    req_ext = ",".join(o.get_extension_string() for o in offers)
    def capped(policy, cap):
        """the accept policy with a decompression limit (max_message_size) on what it returns: every single message of
        the scenario stays below it, so it must not change anything - also not over a sequence of messages"""
        if not cap:
            return policy

        def accept(x):
            a = policy(x)
            if a is not None and hasattr(a, "max_message_size"):
                a.max_message_size = cap
            return a
        return accept
    mms = sc.get("mms") or {}
    sopts = {"perMessageCompressionAccept": capped(cm.server_policy(*sc["spol"]), mms.get("s"))}
    sopts.update(sc.get("sopts") or {})
    copts = {"perMessageCompressionOffers": offers,
             "perMessageCompressionAccept": capped(cm.client_policy(*sc["cpol"]), mms.get("c"))}
    copts.update(sc.get("copts") or {})
    srv = ws.make_ws(env, "server", opts=sopts, ext_request=req_ext or None)
    resp_ext = cm.ext_header(srv.handshake_bytes, "response")
    cli = ws.make_ws(env, "client", opts=copts, ext_response=resp_ext)
    sent_ext = cm.ext_header(cli.handshake_bytes, "request")
    return srv, cli, req_ext, resp_ext, sent_ext


class RfcPeer:
    """independent permessage-deflate end built on the zlib module, configured ONLY from the response header
    (RFC 7692 §7.1): what any conforming peer would do."""

    def __init__(self, role, resp_ext, rng):
        self.role = role
        self.rng = rng
        ps = {}
        if resp_ext:
            parts = [x.strip() for x in resp_ext.split(";")]
            assert parts[0] == "permessage-deflate", resp_ext
            for p in parts[1:]:
                k, _, v = p.partition("=")
                ps[k.strip()] = v.strip()
        self.active = bool(resp_ext)
        self.s_nct = "server_no_context_takeover" in ps
        self.c_nct = "client_no_context_takeover" in ps
        self.s_w = int(ps.get("server_max_window_bits") or 15)
        self.c_w = int(ps.get("client_max_window_bits") or 15)
        self.comp = None
        self.dec = None
        self.rx_frames = []

    # ---- receive side: frames -> messages
    def inflate_msgs(self, raw):
        frames, rest = ws.parse_frames(raw)
        assert not rest
        msgs = []
        cur = None
        for f in frames:
            if f["opcode"] > 7:
                continue
            if cur is None:
                cur = {"bin": f["opcode"] == 2, "rsv1": f["rsv"] == 4, "data": bytearray()}
            cur["data"] += f["payload"]
            if f["fin"]:
                data = bytes(cur["data"])
                if cur["rsv1"]:
                    enc_nct, w = (self.s_nct, self.s_w) if self.role == "client" else (self.c_nct, self.c_w)
                    if self.dec is None or enc_nct:
                        self.dec = zlib.decompressobj(-w)
                    data = self.dec.decompress(data + b"\x00\x00\xff\xff")
                msgs.append((data, cur["bin"]))
                cur = None
        return frames, msgs

    # ---- send side: message -> frames
    def deflate_frames(self, payload, is_bin, dnc, frag):
        nct, w = (self.c_nct, self.c_w) if self.role == "client" else (self.s_nct, self.s_w)
        rsv = 0
        if self.active and not dnc:
            if self.comp is None or nct:
                self.comp = zlib.compressobj(self.rng.choice([1, 6, 9]), zlib.DEFLATED, -w, self.rng.choice([1, 8, 9]))
            data = self.comp.compress(payload) + self.comp.flush(zlib.Z_SYNC_FLUSH)
            assert data.endswith(b"\x00\x00\xff\xff")
            payload = data[:-4]
            rsv = 4
        chunks = [payload] if not frag else ([payload[i:i + frag] for i in range(0, len(payload), frag)] or [b""])
        out = b""
        for i, c in enumerate(chunks):
            mask = self.rng.randbytes(4) if self.role == "client" else None
            out += ws.build_frame((2 if is_bin else 1) if i == 0 else 0, c, fin=1 if i == len(chunks) - 1 else 0,
                                  rsv=rsv if i == 0 else 0, mask=mask)
        return out


def segment(rng, data):
    """cut a byte string into reads"""
    out = []
    i = 0
    mode = rng.choice(["tiny", "mixed", "big", "one"])
    while i < len(data):
        if mode == "one":
            n = len(data)
        elif mode == "tiny" and len(data) < 600:
            n = rng.choice([1, 1, 2, 3])
        elif mode == "big":
            n = rng.choice([4096, 65536, 1000])
        else:
            n = rng.choice([1, 2, 5, 17, 125, 126, 1000, 4096])
        out.append(data[i:i + n])
        i += n
    return out


def alive(ep):
    p = ep.proto
    return p.state == p.STATE_OPEN and not ep.transport.closed


def run_scenario(sc):
    res = {"id": sc["id"], "violations": [], "frames": 0, "msgs": 0, "shapes": [], "inject": {}}
    V = res["violations"]

    def viol(key, what, **kw):
        if len(V) < 5:
            V.append(dict(key=key, what="%s [%s %s]" % (what, fw, sc["id"]), fw=fw, scenario=sc, **kw))
    try:
        srv, cli, req_ext, resp_ext, sent_ext = build_pair(sc)
    except AssertionError as e:
        viol("handshake-did-not-open", "a guard-passing negotiation did not reach OPEN: %s" % str(e)[:200])
        return res
    res.update(req_ext=req_ext, resp_ext=resp_ext, sent_ext=sent_ext,
               server=cm.pmce_desc(srv.proto._perMessageCompress), client=cm.pmce_desc(cli.proto._perMessageCompress))
    if (sent_ext or "") != (req_ext or ""):
        viol("client-request-header-differs", "client sent %r, offers render as %r" % (sent_ext, req_ext))
    rng = random.Random(sc["seg"])
    peer = sc.get("peer", "real")
    rfc = None
    if peer != "real":
        rfc = RfcPeer("client" if peer == "zlib-client" else "server", resp_ext, rng)
        if not (9 <= rfc.s_w <= 15 and 9 <= rfc.c_w <= 15):
            viol("response-window-out-of-range", "the server's response carries a window size outside 9..15: %r" % resp_ext)
            return res
    prev = {"c2s": None, "s2c": None}
    refused = {"c2s": 0, "s2c": 0}
    seen_events = {"c2s": 0, "s2c": 0}
    for mi, m in enumerate(sc["msgs"]):
        d = m["dir"]
        payload = gen(m["gen"][0], m["gen"][1], m["gen"][2], prev[d])
        prev[d] = payload
        snd, rcv = (cli, srv) if d == "c2s" else (srv, cli)
        snd_is_rfc = rfc is not None and ((d == "c2s") == (rfc.role == "client"))
        rcv_is_rfc = rfc is not None and not snd_is_rfc
        is_bin, dnc, frag, api = m["bin"], m["dnc"], m.get("frag"), m["api"]
        pm = snd.proto._perMessageCompress
        expect_compressed = (pm is not None) and not dnc
        # ---------------------------------------------------------------- send
        if snd_is_rfc:
            wire = rfc.deflate_frames(payload, is_bin, dnc, frag)
        else:
            p = snd.proto
            try:
                if api == "whole":
                    p.sendMessage(payload, is_bin, fragmentSize=frag, doNotCompress=dnc)
                elif api == "prepared":
                    p.sendPreparedMessage(snd.factory.prepareMessage(payload, is_bin, dnc))
                else:
                    k = max(1, m.get("pieces") or 1)
                    step = max(1, (len(payload) + k - 1) // k)
                    parts = [payload[i:i + step] for i in range(0, len(payload), step)] or [b""]
                    p.beginMessage(is_bin, dnc)
                    for part in parts:
                        p.sendMessageFrame(part)
                    p.endMessage()
            except PayloadExceededError:
                refused[d] += 1
                env.pump()
                snd.transport.take()
                continue
            except Exception as e:
                takeover = pm is not None and not getattr(
                    pm, "server_no_context_takeover" if snd.role == "server" else "client_no_context_takeover", True)
                if type(pm).__name__ == "PerMessageBrotli" and takeover and seen_events[d] + refused[d] >= 1 \
                        and type(e).__name__ == "error":
                    viol("brotli-context-takeover-second-send-raises",
                         "permessage-brotli with context takeover: message #%d of the connection cannot be sent "
                         "(%s: %s) - finish() closed the shared compressor" % (mi + 1, type(e).__name__, e), msg_index=mi)
                else:
                    viol("send-raises:%s:%s" % (type(pm).__name__, type(e).__name__),
                         "sending message #%d raised %s: %s" % (mi + 1, type(e).__name__, str(e)[:120]), msg_index=mi)
                return res
            env.pump()
            wire = snd.transport.take()
            # ------------------------------------------------------------ wire observables
            frames, rest = ws.parse_frames(wire)
            res["frames"] += len(frames)
            if rest or not frames:
                viol("wire-not-frames", "message #%d: wire bytes are not a whole number of frames" % (mi + 1), msg_index=mi)
                return res
            data_frames = [f for f in frames if f["opcode"] <= 7]
            first = data_frames[0]
            bad = None
            if first["rsv"] != (4 if expect_compressed else 0):
                bad = "first frame RSV=%d, expected %d" % (first["rsv"], 4 if expect_compressed else 0)
            elif first["opcode"] != (2 if is_bin else 1):
                bad = "first frame opcode %d" % first["opcode"]
            elif any(f["rsv"] != 0 or f["opcode"] != 0 for f in data_frames[1:]):
                bad = "RSV/opcode set on a continuation frame"
            elif [f["fin"] for f in data_frames] != [0] * (len(data_frames) - 1) + [1]:
                bad = "FIN pattern %s" % [f["fin"] for f in data_frames]
            if bad:
                key = "rsv1-on-continuation" if "continuation" in bad else \
                      ("donotcompress-sent-compressed" if dnc and pm is not None and "RSV" in bad else "rsv1-rule-broken")
                viol(key, "message #%d (%s, dnc=%s): %s" % (mi + 1, api, dnc, bad), msg_index=mi)
                return res
            body = b"".join(f["payload"] for f in data_frames)
            if not expect_compressed and body != payload:
                viol("donotcompress-not-verbatim" if dnc else "uncompressed-not-verbatim",
                     "message #%d: uncompressed message does not travel verbatim" % (mi + 1), msg_index=mi)
                return res
            if api == "whole":
                res["shapes"].append(["~" if frag is None else str(frag), first["opcode"], first["rsv"], len(body),
                                      " ".join("%d.%d.%d.%d" % (f["fin"], f["rsv"], f["opcode"], f["length"])
                                               for f in data_frames)])
        # ---------------------------------------------------------------- receive
        if rcv_is_rfc:
            try:
                _, got = rfc.inflate_msgs(wire)
            except Exception as e:
                got = [("<%s: %s>" % (type(e).__name__, e), None)]
            delivered = [(g[0], g[1]) for g in got]
        else:
            n0 = len(rcv.events)
            try:
                for chunk in segment(rng, wire):
                    ws.deliver(env, rcv, chunk)
                    if not alive(rcv):
                        break
            except Exception as e:
                rcv.events.append(("raised", "%s: %s" % (type(e).__name__, str(e)[:100]), None))
            delivered = [(e[1], e[2]) for e in rcv.events[n0:] if e[0] in ("onMessage", "raised")]
            if not alive(rcv) and not any(e[0] == "raised" for e in rcv.events[n0:]):
                delivered.append(("<connection failed: %s>" % (rcv.proto.wasNotCleanReason,), None))
        res["msgs"] += 1
        seen_events[d] += 1
        if delivered != [(payload, is_bin)]:
            pmr = snd.proto._perMessageCompress if not snd_is_rfc else None
            takeover = pmr is not None and hasattr(pmr, "server_no_context_takeover") and not (
                pmr.server_no_context_takeover if snd.role == "server" else pmr.client_no_context_takeover)
            desc = [(x[0] if isinstance(x[0], str) else "%d octets" % len(x[0]), x[1]) for x in delivered]
            empty_tail = (not snd_is_rfc) and type(snd.proto._perMessageCompress).__name__ == "PerMessageBzip2" \
                and expect_compressed and len(data_frames) > 1 and data_frames[-1]["length"] == 0
            if empty_tail:
                viol("bzip2-empty-final-frame-after-end-of-stream",
                     "permessage-bzip2: message #%d (%d octets, frag=%s) whose compressed size is a multiple of the fragment "
                     "size ends with an empty continuation frame; BZ2Decompressor.decompress(b'') after end-of-stream "
                     "raises EOFError and the message is not delivered: %s" % (mi + 1, len(payload), frag, desc), msg_index=mi)
            elif refused[d] and takeover and expect_compressed:
                viol("send-refused-after-compress-desyncs-context",
                     "after a sendMessage refused by maxMessagePayloadSize (raised after compressing), message #%d "
                     "(%d octets, %s) is not received as sent: %s" % (mi + 1, len(payload), d, desc), msg_index=mi)
            else:
                viol("not-lossless:%s" % (res.get("server") or "~")[:1],
                     "message #%d (%d octets, %s, api=%s, frag=%s, dnc=%s, peer=%s) not received as sent: %s"
                     % (mi + 1, len(payload), d, api, frag, dnc, peer, desc), msg_index=mi)
            return res
    # -------------------------------------------------------------------- injections (fresh pairs)
    for name in sc.get("inject") or []:
        srv2, cli2, _, _, _ = build_pair(sc)
        for side, ep in (("server", srv2), ("client", cli2)):
            mask = b"\x01\x02\x03\x04" if side == "server" else None     # frames TO the server are masked
            n0 = len(ep.events)
            if name == "compressed-ping":
                raw = ws.build_frame(9, b"hi", rsv=4, mask=mask)
            elif name == "compressed-pong":
                raw = ws.build_frame(10, b"hi", rsv=4, mask=mask)
            elif name == "compressed-close":
                raw = ws.build_frame(8, b"\x03\xe8", rsv=4, mask=mask)
            elif name == "rsv1-continuation":
                raw = ws.build_frame(1, b"ab", fin=0, rsv=0, mask=mask) + ws.build_frame(0, b"cd", fin=1, rsv=4, mask=mask)
            elif name == "rsv1-continuation-of-compressed":
                # valid compressed data of the NEGOTIATED codec, so that only the RSV1 bit on the continuation is wrong
                kind = type(ep.proto._perMessageCompress).__name__
                if kind == "PerMessageBzip2":
                    import bz2
                    z = bz2.compress(b"abcdabcd")
                elif kind == "PerMessageBrotli":
                    import brotli
                    z = brotli.compress(b"abcdabcd")
                elif kind == "PerMessageSnappy":
                    import snappy
                    z = snappy.StreamCompressor().add_chunk(b"abcdabcd")
                else:
                    c = zlib.compressobj(6, zlib.DEFLATED, -9)
                    z = (c.compress(b"abcdabcd") + c.flush(zlib.Z_SYNC_FLUSH))[:-4]
                raw = ws.build_frame(1, z[:2], fin=0, rsv=4, mask=mask) + ws.build_frame(0, z[2:], fin=1, rsv=4, mask=mask)
            elif name == "rsv2-data":
                raw = ws.build_frame(1, b"ab", rsv=2, mask=mask)
            elif name == "plain-ping":           # positive control
                raw = ws.build_frame(9, b"hi", rsv=0, mask=mask)
            else:
                raise ValueError(name)
            try:
                for chunk in segment(rng, raw):
                    ws.deliver(env, ep, chunk)
                    if not alive(ep):
                        break
                exc = None
            except Exception as e:
                exc = type(e).__name__
            evs = [e[0] for e in ep.events[n0:] if e[0] in ("onMessage", "onPing", "onPong")]
            failed = (not alive(ep)) and ep.proto.failedByMe
            out = "exception:" + exc if exc else ("failed" if failed and not evs else
                                                  ("accepted" if alive(ep) else "closed-not-failed"))
            res["inject"]["%s@%s" % (name, side)] = out
    return res


job = json.load(sys.stdin)
results = []
for sc in job["scenarios"]:
    try:
        results.append(run_scenario(sc))
    except Exception as e:   # harness bug, not a verdict
        import traceback
        results.append({"id": sc["id"], "crash": traceback.format_exc()[-1500:]})
json.dump({"results": results}, sys.stdout)
