"""Shared by the C03/C08 workers: real-code access (run under /venv/bin/python with /repo/src first on sys.path)."""
import sys
import traceback

from vlib import wval

import txaio
txaio.use_asyncio()  # Serializer statistics call txaio.time_ns(); nothing else of the framework is used

from autobahn.wamp import message, role
from autobahn.wamp.exception import InvalidUriError, ProtocolError
from autobahn.wamp.serializer import Serializer

CLASSES = ["Hello", "Welcome", "Abort", "Challenge", "Authenticate", "Goodbye", "Error", "Publish", "Published",
           "Subscribe", "Subscribed", "Unsubscribe", "Unsubscribed", "Event", "EventReceived", "Call", "Cancel",
           "Result", "Register", "Registered", "Unregister", "Unregistered", "Invocation", "Interrupt", "Yield"]


def field_names(cls):
    """public attribute names of a message class = its own __slots__ without the underscore"""
    return [s[1:] for s in cls.__slots__ if s.startswith("_")]


def canon_field(v):
    """attribute value -> plain structure (RoleFeatures objects become {feature: value} of the set features)"""
    if isinstance(v, role.RoleFeatures):
        return {k: canon_field(x) for k, x in v.__dict__.items() if not k.startswith("_") and k != "ROLE" and x is not None}
    if isinstance(v, dict):
        return {k: canon_field(x) for k, x in v.items()}
    if isinstance(v, list):
        return [canon_field(x) for x in v]
    if isinstance(v, memoryview):
        return bytes(v)
    return v


def fields_of(msg):
    return {n: canon_field(getattr(msg, n)) for n in field_names(type(msg))}


class RawObjSer:
    """object serializer that hands a prepared raw structure to Serializer.unserialize (so the real envelope
    checks, the MESSAGE_TYPE_MAP dispatch and Klass.parse all run)"""
    NAME = "raw"
    BINARY = True

    def __init__(self):
        self.objs = None

    def serialize(self, obj):
        raise NotImplementedError

    def unserialize(self, payload):
        return self.objs


class RawSerializer(Serializer):
    SERIALIZER_ID = "raw"
    RAWSOCKET_SERIALIZER_ID = 15
    MIME_TYPE = "application/x-raw"

    def __init__(self):
        self.raw = RawObjSer()
        Serializer.__init__(self, self.raw)


def site_of(exc):
    """(function, source line) of the innermost frame inside autobahn/wamp/{message,role}.py"""
    tb = traceback.extract_tb(exc.__traceback__)
    for fr in reversed(tb):
        if fr.filename.endswith(("wamp/message.py", "wamp/role.py", "wamp/serializer.py")):
            return fr.name, (fr.line or "").strip()
    return "?", ""


def outcome_of_parse(raw, ser=None, reparse=True):
    """run the real Serializer.unserialize on one raw structure; -> (outcome string, detail)"""
    ser = ser or RawSerializer()
    ser.raw.objs = [raw]
    try:
        msgs = ser.unserialize(b"")
    except BaseException as e:  # noqa: BLE001 - the observable IS the exception class
        if isinstance(e, (KeyboardInterrupt, SystemExit)):
            raise
        fn, line = site_of(e)
        return "err " + type(e).__name__, {"where": fn, "line": line}
    if len(msgs) != 1:
        return "err WrongCount", {}
    m = msgs[0]
    try:
        mar = wval.enc(m.marshal(), sort=True)
    except Exception as e:  # noqa: BLE001
        mar = "marshal-raises:" + type(e).__name__
    det = {}
    # C08 "re-marshalled form is equivalent to the input": parse the re-marshalled message again
    if not mar.startswith("marshal-raises") and reparse:
        ser.raw.objs = [m.marshal()]
        try:
            m2 = ser.unserialize(b"")[0]
            det["reparse"] = "ok " + wval.enc(fields_of(m2), sort=True)
        except BaseException as e:  # noqa: BLE001
            if isinstance(e, (KeyboardInterrupt, SystemExit)):
                raise
            det["reparse"] = "err " + type(e).__name__
    return "ok %s %s %s" % (type(m).__name__, mar, wval.enc(fields_of(m), sort=True)), det
