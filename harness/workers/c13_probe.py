"""C13 translator probe: obtains the constants of the transport negotiation SEMANTICALLY, by driving real objects
built from the source under translation (sys.path[0] = <VERIF_REPO>/src) on fake transports.

usage: c13_probe.py <twisted|asyncio>      -> JSON on stdout; a value that cannot be determined is null / absent.

twisted:  per role (server/client): magic (the only accepted first octet), powBase/expAdd/shift (fit of `_max_len_send` over all 256
          second octets), serMask (fit of accept/serializer over all 256 second octets), hsLen (octets before the handshake is judged),
          sendGuard (512 goes out, 513 raises PayloadExceededError with peer maximum 512); sendFrameCap (peer exponent 15: 2^24 - 1 octets
          go out, 2^24 are refused -> 2^24 - 1; both go out -> 0); lengthLimitAction (over-long header: 0 abort, 1 raises, 2 close);
          plus the WebSocket mixin values (framework independent): wsWord, wsVersion, wsPrefix, close codes; serializer table.
asyncio:  magic, powBase/expAdd/shift/serMask (fit of `max_length_send`), typeMask/typeData/typePing/typePong (dispatch of all 256 first
          frame octets), errSerUnsupported (high nibble of the error reply), defaultMaxLength, lengthExp (client request octet),
          serverAbortsOnUnsupported (exception escapes / no reply), sendOverLimitExc (class raised by send()), sendFrameCap /
          sendStringFrameCap (as above), pingRaises / pongRaises / pingReplyType (PING and PONG frames of several lengths).
"""
import json
import sys

from vlib import ws

fw = sys.argv[1]
env = ws.setup(fw)

from autobahn.wamp import serializer as S  # noqa: E402
from autobahn.wamp import message  # noqa: E402

if fw == "twisted":
    from autobahn.twisted import rawsocket as R
else:
    from autobahn.asyncio import rawsocket as R

SERS = {1: S.JsonSerializer, 2: S.MsgPackSerializer, 3: S.CBORSerializer, 4: S.UBJSONSerializer}


class Sess:
    def __init__(self):
        self.opened = 0

    def onOpen(self, t):
        self.opened += 1

    def onMessage(self, m):
        pass

    def onClose(self, c):
        pass


def mk(role, ids):
    s = Sess()
    if role == "server":
        f = R.WampRawSocketServerFactory(lambda: s, serializers=[SERS[i]() for i in ids])
    else:
        f = R.WampRawSocketClientFactory(lambda: s, serializer=SERS[ids[0]]())
    p = f.buildProtocol(None) if fw == "twisted" else f()
    t = ws.RecTransport(env)
    (p.makeConnection if fw == "twisted" else p.connection_made)(t)
    first = t.take()
    return p, t, s, first


def feed(p, data):
    try:
        (p.dataReceived if fw == "twisted" else p.data_received)(data)
        return None
    except Exception as e:
        return type(e).__name__


def maxsend(p):
    return getattr(p, "_max_len_send", None) if fw == "twisted" else getattr(p, "max_length_send", None)


def one(vals):
    vals = sorted(set(vals))
    return vals[0] if len(vals) == 1 else None


def frame_cap(send_len):
    """send_len(n) -> "sent" (wire = 4 + n octets) | "refused" (exception, nothing written) | None; with the peer announcing 2^24:
    2^24 - 1 sent and 2^24 refused -> cap 2^24 - 1; both sent -> 0 (no cap); anything else -> None"""
    try:
        a, b = send_len(2 ** 24 - 1), send_len(2 ** 24)
    except Exception:
        return None
    if a == "sent" and b == "refused":
        return 2 ** 24 - 1
    if a == "sent" and b == "sent":
        return 0
    return None


def established(role="server", o2=0xF1):
    p, t, s, _ = mk(role, [1])
    feed(p, bytes([0x7F, o2, 0, 0]))
    t.take()
    return p, t, s


def msg_sender(p, t):
    base = len(p._serializer.serialize(message.Publish(1, "a.b", args=[""]))[0])

    def send_len(n):
        try:
            p.send(message.Publish(1, "a.b", args=["x" * (n - base)]))
        except Exception:
            return "refused" if not t.take() else None
        return "sent" if len(t.take()) == n + 4 else None
    return send_len


def fit_pow(v):
    """v: dict octet2 -> max send length; fit base ** (add + (o >> shift))"""
    if any(v.get(o) is None for o in range(256)):
        return None
    for shift in range(0, 8):
        step = 1 << shift
        v0, v1 = v[0], v[step] if step < 256 else None
        if not v0 or not v1 or v1 % v0 or v1 == v0:
            continue
        base = v1 // v0
        add, x = 0, v0
        while x > 1 and x % base == 0:
            x //= base
            add += 1
        if x != 1:
            continue
        if all(v[o] == base ** (add + (o >> shift)) for o in range(256)):
            return {"powBase": base, "expAdd": add, "shift": shift}
    return None


def fit_mask(acc, supported_sets):
    """acc: list of (supported ids, dict octet2 -> serializer id or None); the mask m with accepted <-> (o & m) in supported, ser = o & m"""
    fits = []
    for m in range(256):
        ok = True
        for sup, d in acc:
            for o in range(256):
                want = (o & m) if (o & m) in sup else None
                if d[o] != want:
                    ok = False
                    break
            if not ok:
                break
        if ok:
            fits.append(m)
    return fits[0] if len(fits) == 1 else None


def probe_role(role):
    out = {}
    ids_all = [1, 2, 3, 4]
    # magic: which first octets lead to an attached session (valid rest)
    acc = []
    for o1 in range(256):
        p, t, s, _ = mk(role, ids_all if role == "server" else [1])
        feed(p, bytes([o1, 0xF1, 0, 0]))
        if s.opened:
            acc.append(o1)
    out["magic"] = acc[0] if len(acc) == 1 else None
    magic = out["magic"]
    if magic is None:
        return out
    # the length formula and the serializer nibble over all second octets
    configs = [ids_all, [1], [2, 4]] if role == "server" else [[1], [2], [3], [4]]
    v = {}
    accs = []
    for ids in configs:
        d = {}
        for o2 in range(256):
            p, t, s, _ = mk(role, ids)
            feed(p, bytes([magic, o2, 0, 0]))
            ms = maxsend(p)
            if ids == configs[0]:
                v[o2] = ms
            ser = getattr(p, "_serializer", None)
            d[o2] = ser.RAWSOCKET_SERIALIZER_ID if (s.opened and ser is not None) else None
        accs.append((set(ids), d))
    out.update(fit_pow(v) or {})
    out["serMask"] = fit_mask(accs, None)
    # number of octets before the handshake is judged
    p, t, s, _ = mk(role, [1])
    n = 0
    for b in bytes([magic, 0xF1, 0, 0, 0, 0, 0, 0]):
        feed(p, bytes([b]))
        n += 1
        if s.opened:
            break
    out["hsLen"] = n if s.opened else None
    return out


res = {}
if fw == "twisted":
    for role in ("server", "client"):
        res[role] = probe_role(role)
    # send guard: peer maximum 512 -> 512 octets go out, 513 raise PayloadExceededError, nothing written
    try:
        p, t, s, _ = mk("server", [1])
        feed(p, bytes([0x7F, 0x01, 0, 0]))
        t.take()
        base = len(p._serializer.serialize(message.Publish(1, "a.b", args=[""]))[0])
        okc, exc = None, None
        p.send(message.Publish(1, "a.b", args=["x" * (512 - base)]))
        okc = len(t.take()) == 516
        try:
            p.send(message.Publish(1, "a.b", args=["x" * (513 - base)]))
        except Exception as e:
            exc = type(e).__name__
        res["sendGuard"] = bool(okc and exc == "PayloadExceededError" and not t.take())
    except Exception as e:
        res["sendGuard"] = None
        res["sendGuardError"] = type(e).__name__
    p, t, s = established()
    res["sendFrameCap"] = frame_cap(msg_sender(p, t))
    # an over-long frame header (local maximum 512)
    try:
        s_ = Sess()
        f = R.WampRawSocketServerFactory(lambda: s_, serializers=[SERS[1]()])
        f.setProtocolOptions(maxMessagePayloadSize=512)
        p = f.buildProtocol(None)
        t = ws.RecTransport(env)
        p.makeConnection(t)
        feed(p, bytes([0x7F, 0xF1, 0, 0]))
        t.take()
        n0 = len(t.log)
        exc = feed(p, bytes([0, 0, 2, 1]))
        calls = [e[0] for e in t.log[n0:] if e[0] != "write"]
        res["lengthLimitAction"] = (1 if exc == "PayloadExceededError" and not calls else
                                    0 if exc is None and calls == ["abort"] else
                                    2 if exc is None and calls == ["lose"] else None)
    except Exception as e:
        res["lengthLimitAction"] = None
    # ---- serializer table (importable classes only)
    sers = []
    for name in dir(S):
        c = getattr(S, name)
        if isinstance(c, type) and issubclass(c, S.Serializer) and c is not S.Serializer and hasattr(c, "RAWSOCKET_SERIALIZER_ID"):
            try:
                a, b = c(), c(batched=True)
                sers.append([c.SERIALIZER_ID, c.RAWSOCKET_SERIALIZER_ID, bool(a._serializer.BINARY), b.SERIALIZER_ID])
            except Exception:
                pass
    res["serializers"] = sorted(sers, key=lambda x: x[1])
    # ---- WebSocket mixins (wamp/websocket.py), driven without an engine
    from types import SimpleNamespace
    from autobahn.wamp import websocket as WW
    from autobahn.wamp.exception import ProtocolError
    import txaio
    wsr = {}
    try:
        fac = WW.WampWebSocketFactory(lambda: None, serializers=[S.JsonSerializer()])
        proto0 = fac._protocols[0]
        wsr["wsPrefix"] = proto0[:-len("json")] if proto0.endswith("json") else None
        word = proto0.split(".")[0]
        ok = WW.parseSubprotocolIdentifier(proto0) == (int(proto0.split(".")[1]), "json")
        bad = WW.parseSubprotocolIdentifier("x" + proto0) == (None, None)
        wsr["wsWord"] = word if ok and bad else None

        class Srv(WW.WampWebSocketServerProtocol):
            log = txaio.make_logger()
        sp = Srv()
        sp.factory = SimpleNamespace(_serializers=fac._serializers, protocols=fac._protocols)
        vers = []
        for v_ in range(0, 10):
            try:
                r = sp.onConnect(SimpleNamespace(protocols=["%s.%d.json" % (word, v_)]))
                if r and r[0]:
                    vers.append(v_)
            except Exception:
                pass
        wsr["wsVersion"] = vers[0] if len(vers) == 1 else None

        class Rec(WW.WampWebSocketProtocol):
            log = txaio.make_logger()

            def __init__(self):
                self.codes = []

            def _fail_connection(self, code=None, reason=None):
                self.codes.append(code)

            def sendClose(self, code=None, reason=None):
                self.codes.append(code)

        def code_of(fn):
            r = Rec()
            fn(r)
            return r.codes[0] if len(r.codes) == 1 else None

        class RaisingSer:
            def __init__(self, exc):
                self.exc = exc

            def unserialize(self, payload, isBinary=None):
                raise self.exc

        def on_message_with(exc):
            def f(r):
                r._serializer = RaisingSer(exc)
                r._session = SimpleNamespace(_authid=None, _session_id=None)
                r.onMessage(b"x", False)
            return f
        wsr["wsCloseProtocolError"] = code_of(on_message_with(ProtocolError("x")))
        wsr["wsCloseInternalError"] = code_of(on_message_with(RuntimeError("x")))

        def on_open(r):
            def boom():
                raise RuntimeError("x")
            r.factory = SimpleNamespace(_factory=boom)
            r.onOpen()
        wsr["wsCloseOnOpenError"] = code_of(on_open)

        def do_abort(r):
            r._session = object()
            r.abort()
        wsr["wsCloseAbort"] = code_of(do_abort)

        def do_close(r):
            r._session = object()
            r.close()
        wsr["wsCloseNormal"] = code_of(do_close)
    except Exception as e:
        wsr["error"] = type(e).__name__ + ": " + str(e)[:200]
    res["ws"] = wsr
else:
    srv = probe_role("server")
    cli = probe_role("client")
    res["server"], res["client"] = srv, cli
    magic = srv.get("magic")
    # frame-type dispatch over all first octets of a frame
    kinds = {}
    for b0 in range(256):
        p, t, s, _ = mk("server", [1])
        feed(p, bytes([0x7F, 0xF1, 0, 0]))
        t.take()
        seen = []
        p.stringReceived = lambda d, seen=seen: seen.append("data")
        p.ping = lambda d, seen=seen: seen.append("ping")
        p.pong = lambda d, seen=seen: seen.append("pong")
        exc = feed(p, bytes([b0, 0, 0, 1, 65]))
        kinds[b0] = seen[0] if seen else ("closed" if t.closed else ("exc:" + exc if exc else "none"))
    types = {}
    for name in ("data", "ping", "pong"):
        vals = [b for b in range(8) if kinds[b] == name]
        types[name] = vals[0] if len(vals) == 1 else None
    res["typeData"], res["typePing"], res["typePong"] = types["data"], types["ping"], types["pong"]
    masks = []
    if None not in types.values():
        inv = {v: k for k, v in types.items()}
        for m in range(256):
            if all((kinds[b] == inv.get(b & m, "closed")) for b in range(256)):
                masks.append(m)
    res["typeMask"] = masks[0] if len(masks) == 1 else None
    # every type above the largest dispatched one is refused: the code compares with `> FRAME_TYPE_PONG`
    p, t, s, first = mk("client", [1])
    res["lengthExp"] = (first[1] >> 4) if len(first) == 4 else None
    res["defaultMaxLength"] = getattr(p, "max_length", None)
    # unsupported serializer at the server
    p, t, s, _ = mk("server", [1])
    exc = feed(p, bytes([0x7F, 0xF2, 0, 0]))
    wrote = t.take()
    if exc is None and t.closed and len(wrote) == 4 and wrote[0] == 0x7F and (wrote[1] & 15) == 0:
        res["serverAbortsOnUnsupported"] = False
        res["errSerUnsupported"] = wrote[1] >> 4
    elif exc == "TransportLost" and not wrote:
        res["serverAbortsOnUnsupported"] = True
        res["errSerUnsupported"] = getattr(R, "ERR_SERIALIZER_UNSUPPORTED", None)
    else:
        res["serverAbortsOnUnsupported"] = None
        res["errSerUnsupported"] = None
    # over-limit send
    try:
        p, t, s, _ = mk("server", [1])
        feed(p, bytes([0x7F, 0x01, 0, 0]))
        t.take()
        base = len(p._serializer.serialize(message.Publish(1, "a.b", args=[""]))[0])
        p.send(message.Publish(1, "a.b", args=["x" * (512 - base)]))
        okc = len(t.take()) == 516
        exc = None
        try:
            p.send(message.Publish(1, "a.b", args=["x" * (513 - base)]))
        except Exception as e:
            exc = type(e).__name__
        res["sendOverLimitExc"] = exc if (okc and exc and not t.take()) else None
    except Exception as e:
        res["sendOverLimitExc"] = None
    p, t, s = established()
    res["sendFrameCap"] = frame_cap(msg_sender(p, t))
    p, t, s = established()

    def ss_len(n):
        try:
            p.sendString(b"x" * n)
        except Exception:
            return "refused" if not t.take() else None
        return "sent" if len(t.take()) == n + 4 else None
    res["sendStringFrameCap"] = frame_cap(ss_len)
    # PING / PONG frames of several lengths
    pr, rt, po = [], [], []
    for n in (0, 1, 2, 300):
        payload = bytes((65 + i) % 256 for i in range(n))
        ln = bytes([(n >> 16) & 255, (n >> 8) & 255, n & 255])
        p, t, s = established()
        exc = feed(p, bytes([res["typePing"] if res["typePing"] is not None else 1]) + ln + payload)
        w = t.take()
        if exc == "NotImplementedError" and not w and not t.closed:
            pr.append(True)
        elif exc is None and not t.closed and len(w) == 4 + n and w[1:4] == ln and w[4:] == payload:
            pr.append(False)
            rt.append(w[0])
        else:
            pr.append(None)
        p, t, s = established()
        exc = feed(p, bytes([res["typePong"] if res["typePong"] is not None else 2]) + ln + payload)
        w = t.take()
        po.append(True if (exc == "NotImplementedError" and not w and not t.closed) else
                  False if (exc is None and not w and not t.closed and not p._buffer) else None)
    res["pingRaises"], res["pongRaises"] = one(pr), one(po)
    res["pingReplyType"] = (one(rt) if rt else 0) if res["pingRaises"] is not None else None
json.dump(res, sys.stdout)
