"""live tables of the code under verification, for the translator self-check (C03/C08)"""
import json
import sys

from harness.workers import wamp_common as wc
import inspect

from autobahn.wamp import message, role
from autobahn.wamp.serializer import Serializer

job = json.load(sys.stdin)
out = {
    "codes": {c: getattr(message, c).MESSAGE_TYPE for c in wc.CLASSES},
    "type_map": {str(k): v.__name__ for k, v in Serializer.MESSAGE_TYPE_MAP.items()},
    "patterns": {n: getattr(message, n).pattern for n in job.get("patterns", [])},
    "fields": {c: wc.field_names(getattr(message, c)) for c in wc.CLASSES},
    "role_features": {r: [p.name for p in inspect.signature(cls.__init__).parameters.values()
                          if p.name != "self" and p.kind == p.POSITIONAL_OR_KEYWORD]
                      for r, cls in role.ROLE_NAME_TO_CLASS.items()},
}
json.dump(out, sys.stdout)
