"""C12 worker (negotiation): answers the driver's `pmce.*` request lines with the REAL classes.
stdin: request lines (same syntax as lean/Abverif/Drv/Pmce.lean); stdout: one answer per line.
No framework needed: only compress_*.py and WebSocketProtocol._parseExtensionsHeader are used."""
import sys

from autobahn.websocket import compress as C
from autobahn.websocket.compress_deflate import (PerMessageDeflate, PerMessageDeflateOffer,
                                                 PerMessageDeflateOfferAccept, PerMessageDeflateResponse,
                                                 PerMessageDeflateResponseAccept)
from autobahn.websocket.protocol import WebSocketProtocol

NAME = PerMessageDeflate.EXTENSION_NAME


def parse_hdr(s):
    return WebSocketProtocol._parseExtensionsHeader(None, s)


def hx(s):
    bs = s.encode("latin-1")
    return bs.hex() if bs else "-"


def B(x):
    return "1" if x else "0"


def pb(s):
    return {"0": False, "1": True}[s]


def po(f, s):
    return None if s == "~" else f(s)


def first_deflate(exts):
    for n, ps in exts:
        if n == NAME:
            return ps
    return None


def pmce_str(p):
    assert type(p._is_server) is bool and type(p.server_no_context_takeover) is bool and type(p.client_no_context_takeover) is bool
    return "d:%s,%s,%s,%d,%d,%d" % (B(p._is_server), B(p.server_no_context_takeover), B(p.client_no_context_takeover),
                                    p.server_max_window_bits, p.client_max_window_bits, p.mem_level)


def offer_str(o):
    return "%s,%s,%s,%d" % (B(o.accept_no_context_takeover), B(o.accept_max_window_bits),
                            B(o.request_no_context_takeover), o.request_max_window_bits)


def resp_str(r):
    return "%d,%s,%d,%s" % (r.client_max_window_bits, B(r.client_no_context_takeover),
                            r.server_max_window_bits, B(r.server_no_context_takeover))


def compat(enc, dec):
    """the Spec, restated on the real objects: what each end will actually hand to zlib"""
    ew = enc.server_max_window_bits if enc._is_server else enc.client_max_window_bits
    en = enc.server_no_context_takeover if enc._is_server else enc.client_no_context_takeover
    dw = dec.client_max_window_bits if dec._is_server else dec.server_max_window_bits
    dn = dec.client_no_context_takeover if dec._is_server else dec.server_no_context_takeover
    return B(ew <= dw and ((not dn) or en))


def mk_offer(a, b, c, w):
    return PerMessageDeflateOffer(pb(a), pb(b), pb(c), int(w))


def mk_accept(o, rn, rw, n, w, m):
    return PerMessageDeflateOfferAccept(o, pb(rn), int(rw), po(pb, n), po(int, w), po(int, m))


def mk_raccept(r, n, w, m):
    return PerMessageDeflateResponseAccept(r, po(pb, n), po(int, w), po(int, m))


def answer(t):
    op = t[0]
    if op == "pmce.offer":
        try:
            o = mk_offer(*t[1:5])
        except Exception:
            return "raise"
        s = o.get_extension_string()
        ps = first_deflate(parse_hdr(s))
        try:
            q = offer_str(PerMessageDeflateOffer.parse(ps)) if ps is not None else "!"
        except Exception:
            q = "!"
        return "ok %s %s" % (hx(s), q)
    if op == "pmce.accept":
        o = mk_offer(*t[1:5])
        try:
            a = mk_accept(o, *t[5:10])
        except Exception:
            return "raise"
        s = a.get_extension_string()
        p = PerMessageDeflate.create_from_offer_accept(True, a)
        ps = first_deflate(parse_hdr(s))
        try:
            q = resp_str(PerMessageDeflateResponse.parse(ps)) if ps is not None else "!"
        except Exception:
            q = "!"
        return "ok %s %s %s" % (hx(s), pmce_str(p), q)
    if op == "pmce.raccept":
        r = PerMessageDeflateResponse(int(t[1]), pb(t[2]), int(t[3]), pb(t[4]))
        try:
            ra = mk_raccept(r, *t[5:8])
        except Exception:
            return "raise"
        return "ok " + pmce_str(PerMessageDeflate.create_from_response_accept(False, ra))
    if op == "pmce.neg":
        # exactly what the two ends do, stage by stage, on the real classes
        try:
            o = mk_offer(*t[1:5])
            ps = first_deflate(parse_hdr(o.get_extension_string()))
            if ps is None:
                return "none"
            o2 = PerMessageDeflateOffer.parse(ps)
            a = mk_accept(o2, *t[5:10])
            srv = PerMessageDeflate.create_from_offer_accept(True, a)
            rps = first_deflate(parse_hdr(a.get_extension_string()))
            if rps is None:
                return "none"
            r = PerMessageDeflateResponse.parse(rps)
            ra = mk_raccept(r, *t[10:13])
            cli = PerMessageDeflate.create_from_response_accept(False, ra)
        except Exception:
            return "none"
        return "ok %s %s %s %s" % (pmce_str(srv), pmce_str(cli), compat(srv, cli), compat(cli, srv))
    if op == "pmce.parse":
        s = bytes.fromhex("" if t[1] == "-" else t[1]).decode("latin-1")
        exts = parse_hdr(s)
        if not exts:
            return "none"
        out = []
        for n, ps in exts:
            out.append(hx(n) + "{" + ";".join(
                hx(k) + ":" + ",".join("T" if v is True else "=" + hx(v) for v in vs) for k, vs in ps.items()) + "}")
        return "|".join(out)
    if op == "pmce.int":
        s = bytes.fromhex("" if t[1] == "-" else t[1]).decode("latin-1")
        try:
            return str(int(s))
        except ValueError:
            return "ValueError"
    if op == "pmce.consts":
        return "%s %s %s %d %d" % (hx(NAME), PerMessageDeflate.WINDOW_SIZE_PERMISSIBLE_VALUES,
                                   PerMessageDeflate.MEM_LEVEL_PERMISSIBLE_VALUES,
                                   PerMessageDeflate.DEFAULT_WINDOW_BITS, PerMessageDeflate.DEFAULT_MEM_LEVEL)
    return "bad-op"


def main():
    out = []
    for line in sys.stdin:
        t = line.split()
        if t:
            out.append(answer(t))
    sys.stdout.write("\n".join(out) + ("\n" if out else ""))


main()
