"""C09 worker: runs the real UTF-8 validators of /repo.

stdin : JSON {mode: "pure"|"nvx", nvxdir, internal: bool, impls: [names]|null,
              seqs: [[hex, ...], ...],                 chunk sequences, fed call by call after reset()
              enum: [[prefix_hex, n], ...],            all strings prefix ++ x, |x| = n, lexicographic
              enum_impls: [names]|null}                restrict the enumeration to these implementations
stdout: JSON {impls: [...], selected: "<module of websocket.utf8validator.Utf8Validator>",
              seqs: {impl: [[[v,e,cur,total], ...], ...]},
              enum: {impl: ["APx012...", ...]},
              table: [400 ints] (pure mode: the live UTF8VALIDATOR_DFA object), errors: [...]}

pure : AUTOBAHN_USE_NVX=0 must be set by the caller; implementation `py` = websocket.utf8validator.Utf8Validator.
nvx  : `nvxdir` (C rebuilt from /repo by vlib.core.build_nvx) goes first on sys.path; implementations
         nvx.wrap      the public class nvx._utf8validator.Utf8Validator, as constructed (default implementation)
         nvx.impl1..4  the public class after nvx_utf8vld_set_impl(k) (table, unrolled, sse2, sse4.1 selections)
         nvx.table / nvx.unrolled   the internal C entry points called directly (result mapped like the wrapper does)
"""
import itertools
import json
import os
import sys

job = json.load(sys.stdin)
mode = job["mode"]
errors = []
out = {"seqs": {}, "enum": {}, "errors": errors}


def vchar(r):
    v, e, c, t = r
    if v is True:
        return "A" if e is True else ("P" if e is False else "x")
    if v is False and e is False and c == t and 0 <= c < 10:
        return chr(48 + c)
    return "x"


def canon(r):
    # the observable is a 4-tuple (bool, bool, int, int); anything else is reported verbatim as a string
    if (isinstance(r, tuple) and len(r) == 4 and type(r[0]) is bool and type(r[1]) is bool
            and type(r[2]) is int and type(r[3]) is int):
        return [int(r[0]), int(r[1]), r[2], r[3]]
    return ["bad-shape:" + repr(r)[:80]]


impls = {}     # name -> factory returning an object with reset() and validate(bytes)

if mode == "pure":
    assert os.environ.get("AUTOBAHN_USE_NVX") == "0"
    import autobahn.websocket as aw
    from autobahn.websocket import utf8validator as u8
    import autobahn
    out["autobahn_file"] = autobahn.__file__
    out["uses_nvx"] = bool(aw.USES_NVX)
    out["selected"] = u8.Utf8Validator.__module__
    tbl = getattr(u8, "UTF8VALIDATOR_DFA", None)
    out["table"] = list(tbl) if tbl is not None else None
    out["consts"] = [getattr(u8, "UTF8_ACCEPT", None), getattr(u8, "UTF8_REJECT", None)]
    impls["py"] = u8.Utf8Validator
else:
    sys.path.insert(0, job["nvxdir"])
    import _nvx_utf8validator as nx
    assert nx.__file__.startswith(job["nvxdir"]), nx.__file__
    os.environ["AUTOBAHN_USE_NVX"] = "1"
    import autobahn.websocket as aw
    from autobahn.websocket import utf8validator as u8
    from autobahn.nvx import _utf8validator as wrap
    import autobahn
    out["autobahn_file"] = autobahn.__file__
    out["selected"] = u8.Utf8Validator.__module__
    out["uses_nvx"] = bool(aw.USES_NVX)
    lib, ffi = nx.lib, nx.ffi
    impls["nvx.wrap"] = wrap.Utf8Validator

    def with_impl(k):
        def mk():
            v = wrap.Utf8Validator()
            got = v.lib.nvx_utf8vld_set_impl(v._vld, k)
            if got != k:
                raise RuntimeError("impl %d not available (got %d)" % (k, got))
            return v
        return mk
    probe = wrap.Utf8Validator()
    out["default_impl"] = probe.lib.nvx_utf8vld_get_impl(probe._vld)
    for k in (1, 2, 3, 4):
        if probe.lib.nvx_utf8vld_set_impl(probe._vld, k) == k:
            impls["nvx.impl%d" % k] = with_impl(k)

    class Direct:
        """internal entry point + the result mapping of nvx/_utf8validator.py"""

        def __init__(self, fn):
            self.fn = fn
            self.vld = ffi.gc(lib.nvx_utf8vld_new(), lib.nvx_utf8vld_free)

        def reset(self):
            lib.nvx_utf8vld_reset(self.vld)

        def validate(self, ba):
            res = self.fn(self.vld, ba, len(ba))
            return (res >= 0, res == 0, lib.nvx_utf8vld_get_current_index(self.vld),
                    lib.nvx_utf8vld_get_total_index(self.vld))
    if job.get("internal"):
        impls["nvx.table"] = lambda: Direct(lib._nvx_utf8vld_validate_table)
        impls["nvx.unrolled"] = lambda: Direct(lib._nvx_utf8vld_validate_unrolled)

if job.get("impls"):
    impls = {k: v for k, v in impls.items() if k in job["impls"]}
out["impls"] = sorted(impls)

seqs = [[bytes.fromhex(h) for h in s] for s in job.get("seqs", [])]
for name, mk in impls.items():
    v = mk()
    res = []
    for s in seqs:
        v.reset()
        calls = []
        for c in s:
            try:
                calls.append(canon(v.validate(c)))
            except Exception as e:  # the validator must never raise on bytes
                calls.append(["raised:" + type(e).__name__])
                break
        res.append(calls)
    out["seqs"][name] = res

def one(validate, reset, data):
    reset()
    try:
        return vchar(validate(data))
    except Exception:
        return "x"


for name, mk in impls.items():
    if job.get("enum_impls") and name not in job["enum_impls"]:
        continue
    v = mk()
    rows = []
    validate, reset = v.validate, v.reset
    for prefix_hex, n in job.get("enum", []):
        pre = bytes.fromhex(prefix_hex)
        chars = []
        ap = chars.append
        if n == 0:
            ap(one(validate, reset, pre))
        elif n == 1:
            for a in range(256):
                ap(one(validate, reset, pre + bytes((a,))))
        else:
            for a in range(256):
                pa = pre + bytes((a,))
                for b in range(256):
                    ap(one(validate, reset, pa + bytes((b,))))
        rows.append("".join(chars))
    out["enum"][name] = rows

json.dump(out, sys.stdout)
