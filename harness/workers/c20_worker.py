"""C20 worker: two REAL ApplicationSessions with REAL NaCl key rings, joined through vlib.wampx.Router.

  A = originator (publisher / caller), B = responder (subscriber / callee)

stdin : JSON {"fw", "serializer", "scenarios": [...]}
stdout: JSON {"results": [ [obs per tamper] per scenario ], "exchanges": n}

scenario {"dir": "pub"|"call"|"yield"|"error", "ringA": ring, "ringB": ring, "uri", "uri2", "bad": bool,
          "error_uri": str (dir=error), "error_kind": "app"|"plain", "tampers": [tamper, ...]}
ring     null | {"default": key|null, "prefix": [[prefix, key], ...]}      key = {"id": "X", "roles": "both"|"orig"|"resp"}
tamper   ["none"] | ["garble", pos, mask] | ["trunc", n] | ["extend"] | ["algo"] | ["ser"] | ["swap", "sub"|"detail"]

observation (one exchange):
  {"sent": {"kind": ..., "sealed": bool, "clear_args": bool} | "raised:<cls>",
   "deliver": [[which, args, kwargs, enc_algo], ...]      handler / endpoint invocations at B (which = uri it was attached to)
   "reply":  {"kind": "Yield"|"Error", "sealed": bool, "clear_args": bool, "error": uri|null,
              "args": [...], "kwargs": {...} (the clear fields as sent)} | null
   "outcome": ["ok", value] | ["err", cls, uri, args, kwargs] | ["pending"] | null (pub)
   "leaks": [kind of every wire message whose bytes contain a marker string],
   "plen": payload length (for the harness to enumerate positions), "router_errors": [...]}
"""
import base64
import datetime
import hashlib
import json
import sys

from vlib import ws as vws, wampx

MARK_A = "MARK-ARGS-7f3a91"
MARK_K = "MARK-KWARGS-52c0de"
MARK_R = "MARK-RESULT-a81b44"
MARK_E = "MARK-ERROR-0e77f2"
MARKS = [MARK_A, MARK_K, MARK_R, MARK_E]


def priv(key_id, role):
    return base64.b64encode(hashlib.sha256(f"c20-key-{key_id}-{role}".encode()).digest()).decode()


def make_key(spec, cryptobox):
    from nacl.public import PrivateKey
    from nacl.encoding import Base64Encoder
    o_priv, r_priv = priv(spec["id"], "o"), priv(spec["id"], "r")
    o_pub = PrivateKey(o_priv, encoder=Base64Encoder).public_key.encode(encoder=Base64Encoder).decode()
    r_pub = PrivateKey(r_priv, encoder=Base64Encoder).public_key.encode(encoder=Base64Encoder).decode()
    if spec["roles"] == "both":
        return cryptobox.Key(originator_priv=o_priv, responder_priv=r_priv)
    if spec["roles"] == "orig":
        return cryptobox.Key(originator_priv=o_priv, responder_pub=r_pub)
    return cryptobox.Key(responder_priv=r_priv, originator_pub=o_pub)


def make_ring(spec, cryptobox):
    if spec is None:
        return None
    ring = cryptobox.KeyRing(default_key=make_key(spec["default"], cryptobox) if spec["default"] else None)
    for prefix, k in spec["prefix"]:
        ring.set_key(prefix, make_key(k, cryptobox))
    return ring


def alter(payload, t):
    if t[0] == "garble":
        b = bytearray(payload)
        b[t[1] % len(b)] ^= t[2]
        return bytes(b)
    if t[0] == "trunc":
        return payload[:max(1, len(payload) - t[1])]
    if t[0] == "extend":
        return payload + b"\x00"
    return payload


def main():
    job = json.load(sys.stdin)
    real_stdout = sys.stdout
    sys.stdout = sys.stderr
    fw = job["fw"]
    env = vws.setup(fw)
    from autobahn.wamp import types, cryptobox, message
    from autobahn.wamp.exception import ApplicationError
    AS = wampx.session_class(fw)

    class Sess(AS):
        def onUserError(self, fail, msg):
            self.user_errors = getattr(self, "user_errors", 0) + 1

    aware = datetime.datetime(2020, 1, 2, 3, 4, 5, tzinfo=datetime.timezone.utc)
    out = {"results": [], "exchanges": 0, "lookups": []}
    # key selection: KeyRing._get_box on real rings (identity of the returned Box tells which key was chosen)
    for lk in job.get("lookups", []):
        ring = cryptobox.KeyRing()
        ids = {}

        def reg(k, spec):
            if k.originator_box is not None:
                ids[id(k.originator_box)] = spec["id"]
            if k.responder_box is not None:
                ids[id(k.responder_box)] = spec["id"]
        keep = []
        if lk["ring"]["default"]:
            k = make_key(lk["ring"]["default"], cryptobox)
            keep.append(k)
            reg(k, lk["ring"]["default"])
            ring.set_key("", k)
        for prefix, spec in lk["ring"]["prefix"]:
            if spec is None:
                ring.set_key(prefix, None)
                continue
            k = make_key(spec, cryptobox)
            keep.append(k)
            reg(k, spec)
            ring.set_key(prefix, k)
        ans = []
        for role, u, exact in lk["queries"]:
            b = ring._get_box(role == "o", u, bool(exact))
            ans.append("-" if b is None else ids.get(id(b), "?"))
        out["lookups"].append(ans)
    for sc in job["scenarios"]:
        r = wampx.Router(env, job["serializer"])
        A = Sess(types.ComponentConfig(realm="realm1"))
        B = Sess(types.ComponentConfig(realm="realm1"))
        # the CALLER's error URI -> class registry: [[uri, "decor"|"explicit", "any"|"noargs", class name], ...]
        for muri, how, ckind, cname in sc.get("caller_map", []):
            if ckind == "any":
                def __init__(self, *a, **kw):
                    Exception.__init__(self, *a)
                    self.kwargs = kw
            else:
                def __init__(self):
                    Exception.__init__(self)
                    self.kwargs = {}
            cls = type(cname, (Exception,), {"__init__": __init__})
            if how == "decor":
                from autobahn.wamp import uri as wuri
                cls = wuri.error(muri)(cls)
                A.define(cls)
            else:
                A.define(cls, muri)
        A.set_payload_codec(make_ring(sc["ringA"], cryptobox))
        B.set_payload_codec(make_ring(sc["ringB"], cryptobox))
        r.attach("A", A)
        r.attach("B", B)
        uri, uri2 = sc["uri"], sc["uri2"]
        deliveries = []
        mode = {}

        def make_handler(which):
            def handler(*a, **kw):
                d = kw.pop("details", None)
                deliveries.append([which, wampx.canon(list(a)), wampx.canon(kw), getattr(d, "enc_algo", None)])
                if sc["dir"] in ("pub",):
                    return None
                if mode.get("raise"):
                    raise mode["raise"]()
                return mode["ret"]()
            return handler
        if sc["dir"] == "pub":
            B.subscribe(make_handler(uri), uri, options=types.SubscribeOptions(details_arg="details"))
            B.subscribe(make_handler(uri2), uri2, options=types.SubscribeOptions(details_arg="details"))
        else:
            B.register(make_handler(uri), uri, options=types.RegisterOptions(details_arg="details"))
            B.register(make_handler(uri2), uri2, options=types.RegisterOptions(details_arg="details"))
        r.run()
        assert not r.errors, r.errors
        sub_of = {t: sid for t, (sid, _) in r.subscriptions.items()}
        reg_of = {p: rid for p, (_, rid) in r.registrations.items()}
        # what the endpoint does
        if sc["dir"] == "yield":
            mode["ret"] = (lambda: types.CallResult(MARK_R, aware)) if sc["bad"] else (lambda: types.CallResult(MARK_R))
        elif sc["dir"] == "error":
            eargs = (MARK_E, aware) if sc["bad"] else (MARK_E,)
            if sc.get("error_kind") == "plain":
                mode["raise"] = lambda: ValueError(*eargs)
            else:
                mode["raise"] = lambda: ApplicationError(sc["error_uri"], *eargs, ek=MARK_K)
        else:
            mode["ret"] = lambda: "done"
        call_args = (MARK_A, aware) if (sc["bad"] and sc["dir"] in ("pub", "call")) else (MARK_A,)
        captured = {}
        res = []
        for t in sc["tampers"]:
            r.hooks.clear()
            deliveries.clear()
            mark = len(r.wire)
            nerr = len(r.errors)
            plen = {}
            target_kind = {"pub": "Event", "call": "Invocation", "yield": "Result", "error": "Error"}[sc["dir"]]

            def hook(m, t=t):
                if m.payload is not None:
                    plen["n"] = len(m.payload)
                if t[0] in ("garble", "trunc", "extend"):
                    if m.payload is not None:
                        m.payload = alter(m.payload, t)
                elif t[0] == "algo":
                    if m.payload is not None:
                        m.enc_algo = "mqtt"
                elif t[0] == "ser":
                    if m.payload is not None:
                        m.enc_serializer = "cbor"
                elif t[0] == "swap":
                    if sc["dir"] == "pub":
                        if t[1] == "sub":
                            m.subscription = sub_of[uri2]
                        else:
                            m.topic = uri2
                    elif sc["dir"] == "call":
                        if t[1] == "sub":
                            m.registration = reg_of[uri2]
                        else:
                            m.procedure = uri2
                    elif sc["dir"] == "yield":
                        if "result_payload" in captured and m.payload is not None:
                            m.payload = captured["result_payload"]
                            plen["swapped"] = True
                    elif sc["dir"] == "error":
                        if deliveries:      # only the ERROR that answers the endpoint's exception
                            m.error = sc.get("error_uri2", uri2)
                return m
            r.hooks[target_kind] = hook
            outcome = None
            sent = None
            try:
                if sc["dir"] == "pub":
                    A.publish(uri, *call_args, mk=MARK_K)
                else:
                    target = uri
                    if sc["dir"] == "yield" and t[0] == "swap":
                        # first an untampered call to `uri` whose RESULT payload is captured, then a call to `uri2`
                        # whose RESULT gets that payload
                        r.hooks.clear()
                        captured.clear()

                        def cap(m):
                            if m.payload is not None:
                                captured["result_payload"] = m.payload
                            return m
                        r.hooks["Result"] = cap
                        f0 = A.call(uri, MARK_A, mk=MARK_K)
                        wampx.outcome_cell(env, f0)
                        r.run()
                        r.hooks.clear()
                        r.hooks[target_kind] = hook
                        deliveries.clear()
                        mark = len(r.wire)
                        target = uri2
                    f = A.call(target, *call_args, mk=MARK_K)
                    cell = wampx.outcome_cell(env, f)
            except Exception as e:
                sent = "raised:" + type(e).__name__
            r.run()
            out["exchanges"] += 1
            wire = r.wire[mark:]
            obs = {"deliver": list(deliveries), "reply": None, "outcome": None, "leaks": [], "plen": plen.get("n"), "swapped": bool(plen.get("swapped")),
                   "router_errors": [e["where"] + ":" + e["err"] for e in r.errors[nerr:]]}
            for w in wire:
                if any(mk.encode() in w["bytes"] for mk in MARKS):
                    obs["leaks"].append(w["frm"] + ">" + w["kind"])
                m = r.ser.unserialize(w["bytes"])[0] if w["frm"] != "router" else None
                if w["frm"] == "A" and w["kind"] in ("Publish", "Call") and sent is None:
                    sent = {"kind": w["kind"], "sealed": m.payload is not None and m.enc_algo == "cryptobox",
                            "clear_args": bool(m.args) or bool(m.kwargs)}
                if w["frm"] == "B" and w["kind"] in ("Yield", "Error"):
                    obs["reply"] = {"kind": w["kind"], "sealed": m.payload is not None and m.enc_algo == "cryptobox",
                                    "clear_args": bool(m.args) or bool(m.kwargs), "error": getattr(m, "error", None),
                                    "args": wampx.canon(list(m.args or [])), "kwargs": wampx.canon(dict(m.kwargs or {}))}
            obs["sent"] = sent
            if sc["dir"] != "pub" and not (isinstance(sent, str)):
                if "ok" in cell:
                    obs["outcome"] = ["ok", wampx.canon(result_view(cell["ok"], types))]
                elif "err" in cell:
                    e = cell["err"]
                    obs["outcome"] = ["err", type(e).__name__, getattr(e, "error", None), wampx.canon(list(e.args)),
                                      wampx.canon(getattr(e, "kwargs", None) or {})]
                    if obs["outcome"][3] and isinstance(obs["outcome"][3][0], str) and not obs["outcome"][3][0].startswith("MARK"):
                        obs["outcome"][3][0] = "$text"
                else:
                    obs["outcome"] = ["pending"]
            res.append(obs)
        out["results"].append(res)
    real_stdout.write(json.dumps(out))


def result_view(v, types):
    if isinstance(v, types.CallResult):
        return {"results": list(v.results), "kwresults": dict(v.kwresults)}
    return {"results": [v], "kwresults": {}}


if __name__ == "__main__":
    main()
