"""C12: helpers shared by the workers (run under /venv/bin/python with the real autobahn classes)."""
from autobahn.websocket import compress as C
from autobahn.websocket.compress_deflate import (PerMessageDeflate, PerMessageDeflateOffer,
                                                 PerMessageDeflateOfferAccept, PerMessageDeflateResponse,
                                                 PerMessageDeflateResponseAccept)

Bz = C.PERMESSAGE_COMPRESSION_EXTENSION.get("permessage-bzip2")
Br = C.PERMESSAGE_COMPRESSION_EXTENSION.get("permessage-brotli")


def B(x):
    return "1" if x else "0"


def pb(s):
    return {"0": False, "1": True}[s]


def po(f, s):
    return None if s == "~" else f(s)


def hx(s):
    bs = s.encode("latin-1")
    return bs.hex() if bs else "-"


def unhx(h):
    return bytes.fromhex("" if h == "-" else h).decode("latin-1")


def pmce_desc(p):
    """canonical description of the extension object in use (same text as Drv/Pmce.lean `anyStr`)"""
    if p is None:
        return "~"
    if isinstance(p, PerMessageDeflate):
        return "d:%s,%s,%s,%d,%d,%d" % (B(p._is_server), B(p.server_no_context_takeover),
                                        B(p.client_no_context_takeover), p.server_max_window_bits,
                                        p.client_max_window_bits, p.mem_level)
    if Bz and isinstance(p, Bz["PMCE"]):
        return "z:%s,%d,%d" % (B(p._isServer), p.server_max_compress_level, p.client_max_compress_level)
    if Br and isinstance(p, Br["PMCE"]):
        return "r:%s,%s,%s" % (B(p._is_server), B(p.server_no_context_takeover), B(p.client_no_context_takeover))
    return "?:" + type(p).__name__


def server_policy(d, z, r):
    """`d`/`z`/`r`: policy tokens of the line protocol (`-` = kind disabled).
    For the first offer whose kind is enabled construct the OfferAccept; a raising constructor -> None."""
    dd = None if d == "-" else d.split(",")
    zz = None if z == "-" else z.split(",")
    rr = None if r == "-" else r.split(",")

    def accept(offers):
        for o in offers:
            try:
                if isinstance(o, PerMessageDeflateOffer):
                    if dd is not None:
                        return PerMessageDeflateOfferAccept(o, pb(dd[0]), int(dd[1]), po(pb, dd[2]), po(int, dd[3]),
                                                            po(int, dd[4]))
                elif Bz and isinstance(o, Bz["Offer"]):
                    if zz is not None:
                        return Bz["OfferAccept"](o, int(zz[0]), po(int, zz[1]))
                elif Br and isinstance(o, Br["Offer"]):
                    if rr is not None:
                        return Br["OfferAccept"](o, pb(rr[0]), po(pb, rr[1]))
            except Exception:
                return None
        return None
    return accept


def client_policy(d, z, r):
    dd = None if d == "-" else d.split(",")

    def accept(resp):
        try:
            if isinstance(resp, PerMessageDeflateResponse):
                if dd is not None:
                    return PerMessageDeflateResponseAccept(resp, po(pb, dd[0]), po(int, dd[1]), po(int, dd[2]))
            elif Bz and isinstance(resp, Bz["Response"]):
                if z != "-":
                    return Bz["ResponseAccept"](resp, po(int, z))
            elif Br and isinstance(resp, Br["Response"]):
                if r != "-":
                    return Br["ResponseAccept"](resp, po(pb, r))
        except Exception:
            return None
        return None
    return accept


def ext_header(raw, which):
    """value of the Sec-WebSocket-Extensions header in an HTTP message (bytes), or None"""
    head = raw.split(b"\r\n\r\n", 1)[0].decode("latin-1")
    vals = [line.split(":", 1)[1].strip() for line in head.split("\r\n")[1:]
            if line.lower().startswith("sec-websocket-extensions:")]
    if not vals:
        return None
    assert len(vals) == 1, vals
    return vals[0]
