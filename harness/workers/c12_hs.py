"""C12 worker (handshakes): malformed / well-formed Sec-WebSocket-Extensions headers through REAL opening
handshakes of real server and client protocol objects (vlib.ws.make_ws).
argv: framework; stdin: JSON list of request lines `pmce.srv <hexhdr> <d> <z> <r>` / `pmce.cli <hexhdr> <d> <z> <r>`
stdout: JSON list of answers in the driver's format: `fail` | `ok <hex ext|~> <pmce|~>` | `exception <class>`."""
import json
import sys

from vlib import ws

from harness.workers import c12_common as cm

fw = sys.argv[1]
env = ws.setup(fw)
lines = json.load(sys.stdin)
out = []


def server_case(hdr, d, z, r):
    ep = ws.make_ws(env, "server", opts={"perMessageCompressionAccept": cm.server_policy(d, z, r)}, handshake=False)
    req = ("GET / HTTP/1.1\r\nHost: localhost:9000\r\nUpgrade: websocket\r\nConnection: Upgrade\r\n"
           "Sec-WebSocket-Key: %s\r\nSec-WebSocket-Version: 13\r\nSec-WebSocket-Extensions: %s\r\n\r\n" % (ws.KEY, hdr))
    try:
        ws.deliver(env, ep, req.encode("latin-1"))
    except Exception as e:
        return "exception " + type(e).__name__
    p = ep.proto
    written = ep.transport.written()
    if p.state == p.STATE_OPEN:
        if not written.startswith(b"HTTP/1.1 101"):
            return "open-without-101"
        ext = cm.ext_header(written, "response")
        return "ok %s %s" % ("~" if ext is None else cm.hx(ext), cm.pmce_desc(p._perMessageCompress))
    if written.startswith(b"HTTP/1.1 400") and ep.transport.closed:
        return "fail"
    return "neither-open-nor-400 state=%s" % p.state


def client_case(hdr, d, z, r):
    ep = ws.make_ws(env, "client", opts={"perMessageCompressionAccept": cm.client_policy(d, z, r)}, handshake=False)
    sent = ep.transport.written().decode("latin-1")
    key = [ln.split(":", 1)[1].strip() for ln in sent.split("\r\n") if ln.lower().startswith("sec-websocket-key:")][0]
    resp = ("HTTP/1.1 101 Switching Protocols\r\nUpgrade: websocket\r\nConnection: Upgrade\r\n"
            "Sec-WebSocket-Accept: %s\r\nSec-WebSocket-Extensions: %s\r\n\r\n" % (ws.accept_for(key), hdr))
    try:
        ws.deliver(env, ep, resp.encode("latin-1"))
    except Exception as e:
        return "exception " + type(e).__name__
    p = ep.proto
    if p.state == p.STATE_OPEN:
        return "ok ~ %s" % cm.pmce_desc(p._perMessageCompress)
    if ep.transport.closed:
        return "fail"
    return "neither-open-nor-dropped state=%s" % p.state


for line in lines:
    t = line.split()
    hdr = cm.unhx(t[1])
    if t[0] == "pmce.srv":
        out.append(server_case(hdr, t[2], t[3], t[4]))
    else:
        out.append(client_case(hdr, t[2], t[3], t[4]))
json.dump(out, sys.stdout)
