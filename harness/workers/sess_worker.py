"""Worker for the WAMP session checks (C04, C11): runs event scripts against a real ApplicationSession of ONE
framework (argv[1] = twisted|asyncio) over a recording mock ITransport. See vlib/wamp.py (ScriptRunner)."""
from vlib import wamp

if __name__ == "__main__":
    wamp.worker_main()
