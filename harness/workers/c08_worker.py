"""C08 worker: runs the real autobahn code on generated untrusted inputs.

stdin: JSON job {"mode": "struct"|"uri"|"octets"|"replay", "tier", "seed", "part": i, "parts": n, ...}
stdout: JSON {"cases": [...]}; each case carries the input as a WVal token (or hex octets) and the real outcome.
"""
import itertools
import json
import random
import sys
from decimal import Decimal

from vlib import wval
from harness.workers import wamp_common as wc
from harness.workers.wamp_common import message

FF_OK = [{"session": 1, "authid": "a", "authrole": "r"}]
ROLES_C = {"caller": {"features": {"caller_identification": True, "progressive_call_results": False}}, "subscriber": {}}
ROLES_R = {"broker": {"features": {"publisher_identification": True}}, "dealer": {}}

# valid raw messages per class (minimal, with every option, payload form, args/kwargs forms)
BASES = {
    "Hello": [
        [1, "realm1", {"roles": {"caller": {}}}],
        [1, "realm1", {"roles": ROLES_C, "authmethods": ["wampcra", "ticket"], "authid": "joe", "authrole": "user",
                       "authextra": {"k": 1}, "resumable": True, "resume-session": 77, "resume-token": "tok"}],
        [1, None, {"roles": {"publisher": {"features": {}}, "callee": {"features": {"unknown_feature": 1}}}}],
    ],
    "Welcome": [
        [2, 1, {"roles": {"broker": {}}}],
        [2, 2 ** 53, {"roles": ROLES_R, "realm": "realm1", "authid": "joe", "authrole": "user", "authmethod": "ticket",
                      "authprovider": "static", "authextra": {"k": 1}, "resumed": True, "resumable": True,
                      "resume_token": "tok", "x_cb_node": "n1", "x_": 5}],
    ],
    "Abort": [[3, {}, "wamp.error.no_such_realm"], [3, {"message": "sorry"}, "a.b"]],
    "Challenge": [[4, "wampcra", {}], [4, "ticket", {"challenge": "x", "n": 1}]],
    "Authenticate": [[5, "sig", {}], [5, "", {"k": [1, 2]}]],
    "Goodbye": [[6, {}, "wamp.close.normal"], [6, {"message": "bye", "resumable": True}, "a.b"]],
    "Error": [
        [8, 48, 1, {}, "a.b"],
        [8, 68, 2 ** 53, {"callee": 5, "callee_authid": "c", "callee_authrole": "r", "forward_for": FF_OK}, "a.b", [1, "x"], {"k": 1}],
        [8, 32, 0, {}, "a.b", [1]],
        [8, 16, 3, {"enc_algo": "cryptobox", "enc_key": "k", "enc_serializer": "json"}, "a.b", b"\x01\x02"],
    ],
    "Publish": [
        [16, 1, {}, "a.b"],
        [16, 1, {"acknowledge": True, "exclude_me": False, "exclude": [1, 2], "exclude_authid": ["a"],
                 "exclude_authrole": ["r"], "eligible": [3], "eligible_authid": ["b"], "eligible_authrole": ["s"],
                 "retain": True, "transaction_hash": "h", "forward_for": FF_OK}, "a.b", [1], {"k": 1}],
        [16, 1, {}, "a.b", [1]],
        [16, 1, {"enc_algo": "mqtt", "enc_key": "k", "enc_serializer": "cbor"}, "a.b", b"\x00\xff"],
    ],
    "Published": [[17, 1, 2]],
    "Subscribe": [[32, 1, {}, "a.b"], [32, 1, {"match": "wildcard", "get_retained": True, "forward_for": FF_OK}, "a..b"]],
    "Subscribed": [[33, 1, 2]],
    "Unsubscribe": [[34, 1, 2], [34, 1, 2, {"forward_for": FF_OK}]],
    "Unsubscribed": [[35, 1], [35, 0, {"subscription": 7, "reason": "wamp.x"}], [35, 5, {"reason": "a.b"}]],
    "Event": [
        [36, 1, 2, {}],
        [36, 1, 2, {"publisher": 3, "publisher_authid": "a", "publisher_authrole": "r", "topic": "a.b", "retained": True,
                    "transaction_hash": "h", "x_acknowledged_delivery": True, "forward_for": FF_OK}, [1], {"k": 1}],
        [36, 1, 2, {"enc_algo": "xbr"}, b"zz"],
    ],
    "EventReceived": [[337, 1]],
    "Call": [
        [48, 1, {}, "a.b"],
        [48, 1, {"timeout": 10, "receive_progress": True, "transaction_hash": "h", "caller": 3, "caller_authid": "a",
                 "caller_authrole": "r", "forward_for": FF_OK}, "a.b", [1], {"k": 1}],
        [48, 1, {"enc_algo": "x_custom", "enc_serializer": "x_ser"}, "a.b", b"zz"],
    ],
    "Cancel": [[49, 1, {}], [49, 1, {"mode": "kill", "forward_for": FF_OK}]],
    "Result": [
        [50, 1, {}],
        [50, 1, {"progress": True, "callee": 3, "callee_authid": "a", "callee_authrole": "r", "forward_for": FF_OK}, [1], {"k": 1}],
        [50, 1, {"enc_algo": "cryptobox"}, b"zz"],
    ],
    "Register": [
        [64, 1, {}, "a.b"],
        [64, 1, {"match": "prefix", "invoke": "roundrobin", "concurrency": 3, "force_reregister": True, "forward_for": FF_OK}, "a.b."],
        [64, 1, {"match": "wildcard"}, "a..b"],
    ],
    "Registered": [[65, 1, 2]],
    "Unregister": [[66, 1, 2], [66, 1, 2, {"forward_for": FF_OK}]],
    "Unregistered": [[67, 1], [67, 0, {"registration": 7, "reason": "wamp.x"}]],
    "Invocation": [
        [68, 1, 2, {}],
        [68, 1, 2, {"timeout": 0, "receive_progress": True, "caller": 3, "caller_authid": "a", "caller_authrole": "r",
                    "procedure": "a.b", "transaction_hash": "h", "forward_for": FF_OK}, [1], {"k": 1}],
        [68, 1, 2, {"enc_algo": "cryptobox", "enc_key": "k"}, b"zz"],
    ],
    "Interrupt": [[69, 1, {}], [69, 1, {"mode": "killnowait", "reason": "a.b", "forward_for": FF_OK}]],
    "Yield": [
        [70, 1, {}],
        [70, 1, {"progress": True, "callee": 3, "callee_authid": "a", "callee_authrole": "r", "forward_for": FF_OK}, [1], {"k": 1}],
        [70, 1, {"enc_algo": "cryptobox", "enc_serializer": "msgpack"}, b"zz"],
    ],
}

# the type code is whatever the class under verification declares (so that a changed MESSAGE_TYPE is exercised, and
# judged against the protocol's code table by the Spec)
for _c, _bl in BASES.items():
    for _b in _bl:
        _b[0] = getattr(message, _c).MESSAGE_TYPE

# a value of every kind / boundary
KINDS = [
    None, True, False, -1, 0, 1, 2, 2 ** 53, 2 ** 53 + 1, 2 ** 63, -2 ** 63, 1.0, 0.0, 1.5, -0.0,
    "", "a", "a.b", "a..b", "a.b\n", " a", "a#b", "a.b.", ".a", "A.b", "com.f٣", "\n", "a b", "é.\U0001f600",
    "exact", "prefix", "wildcard", "kill", "skip", "killnowait", "single", "roundrobin",
    "x_", "x_ab", "x_ab\n", "x_a", "x_A", "cryptobox", "mqtt", "json", "flatbuffers", "null",
    b"", b"xx", b"\x00\xff",
    [], [1], [-1], [2 ** 53 + 1], ["a"], [""], [1, "a"], [[1]], [None], [True],
    {}, {"a": 1}, {"features": {}}, {"features": {"self": True}}, {"features": {"caller_identification": 1}},
    {1: 2}, {b"k": 1, "a": 2}, {"a": {1: 2}},
    [{"session": 1, "authid": "a", "authrole": "r"}],
    [{"session": 1, "authid": None, "authrole": "r"}],
    [{"session": 1, "authid": "a"}],
    [{"session": "x", "authid": "a", "authrole": "r"}],
    [{"session": True, "authid": "a", "authrole": "r"}],
    [{"session": 1, "authid": "a", "authrole": None}],
    [{"session": 1, "authid": "a", "authrole": "r"}, 1],
    [{"session": -1, "authid": "a", "authrole": "r", "extra": 1}],
    [{}], [{1: 2}],
    Decimal(1), Decimal(0), (1, 2), frozenset(),
]

EXTRA_KEYS = ["enc_algo", "enc_key", "enc_serializer", "forward_for", "x_custom", "unknown_key", "x_", "x_a\n"]
ROLE_VARIANTS = [
    {}, {"bogus": {}}, {"caller": 1}, {"caller": None}, {"caller": {"features": 1}}, {"caller": {"features": {"self": 1}}},
    {"caller": {"features": {"caller_identification": "yes"}}}, {"caller": {"features": {"caller_identification": None}}},
    {"caller": {"features": {"x": 1, "payload_transparency": True}}},
    {"broker": {"features": {"event_retention": True, "self": 1}}, "dealer": {"features": {"call_timeout": 1}}},
    {"bogus": {}, "caller": {"features": {"self": 1}}}, {"caller": {"features": {"self": 1}}, "bogus": {}},
    {"broker": {}, "dealer": {"features": {"testament_meta_api": False}}},
    {"subscriber": {"features": {"pattern_based_subscription": True}}, "publisher": {}, "caller": {}, "callee": {}},
    {"broker": {"features": {1: True}}}, {"dealer": {1: 2}}, {1: {}},
]
# role-feature strata (HELLO client roles / WELCOME router roles): every known feature x every kind of value
FEAT_VALUES = [0, 0.0, -0.0, "", [], {}, b"", 1, -1, 2, 1.5, "yes", "true", "0", [1], [True], [False], {"a": 1}, b"x",
               None, True, False, Decimal(0), Decimal(1)]
UNKNOWN_FEATURES = ["bogus", "x_y", "", "ROLE", "_private", "call_timeout ", "Call_Timeout", "features", "é"]
BAD_CONTAINERS = [0, 0.0, "", [], None, 1, "x", [1], True, False, {1: 2}, b"", [{}], Decimal(0)]
ROLE_SETS = {"Hello": ["subscriber", "publisher", "caller", "callee", "broker", "dealer", "bogus"],
             "Welcome": ["broker", "dealer", "caller", "subscriber", "bogus"]}


def known_features(rname):
    import inspect
    cls = wc.role.ROLE_NAME_TO_CLASS.get(rname)
    if cls is None:
        return ["call_timeout", "payload_transparency"]
    return [p.name for p in inspect.signature(cls.__init__).parameters.values()
            if p.name != "self" and p.kind == p.POSITIONAL_OR_KEYWORD]


def gen_rolefeat(sel):
    """yield (label, raw): label <Class>:rolefeat:<role>"""
    for cname, roles in ROLE_SETS.items():
        base = BASES[cname][0]
        di = dict_positions(base)[0]
        for r in roles:
            feats = known_features(r)
            for f in feats:
                for v in FEAT_VALUES:
                    if sel():
                        yield (f"{cname}:rolefeat:{r}", setopt(base, di, "roles", {r: {"features": {f: v}}}))
                # a good and a bad feature together, in both orders; second role carrying the bad one
                for v in (0, "", [], 1):
                    other = feats[(feats.index(f) + 1) % len(feats)]
                    if sel():
                        yield (f"{cname}:rolefeat2:{r}", setopt(base, di, "roles", {r: {"features": {other: True, f: v}}}))
                    if sel():
                        yield (f"{cname}:rolefeat2:{r}", setopt(base, di, "roles", {r: {"features": {f: v, other: False}}}))
            for f in UNKNOWN_FEATURES:
                for v in (0, 1, "x", None, True, [], {}):
                    if sel():
                        yield (f"{cname}:rolefeat-unknown:{r}", setopt(base, di, "roles", {r: {"features": {f: v, feats[0]: True}}}))
            for v in BAD_CONTAINERS:
                if sel():
                    yield (f"{cname}:rolefeat-container:{r}", setopt(base, di, "roles", {r: {"features": v}}))
                if sel():
                    yield (f"{cname}:role-container:{r}", setopt(base, di, "roles", {r: v}))
        for v in BAD_CONTAINERS + [{}]:
            if sel():
                yield (f"{cname}:roles-container", setopt(base, di, "roles", v))
        # two roles, the second one bad (dict order decides which error is seen first)
        good = roles[0]
        for r in roles[1:3]:
            f = known_features(r)[0]
            for v in (0, "", 1):
                if sel():
                    yield (f"{cname}:rolefeat-two-roles", setopt(base, di, "roles", {good: {}, r: {"features": {f: v}}}))


TYPE_CODES = [0, 7, 9, 15, 71, 336, 338, 2 ** 53, -1, -48, True, False, "1", 1.0, None, [1], b"\x01", Decimal(1)]


def clone(v):
    if isinstance(v, list):
        return [clone(x) for x in v]
    if isinstance(v, dict):
        return {k: clone(x) for k, x in v.items()}
    return v


def dict_positions(base):
    return [i for i, v in enumerate(base) if isinstance(v, dict) and i > 0]


class Sel:
    """round-robin case selector: a case is built only by the worker it belongs to"""

    def __init__(self, part, parts):
        self.part, self.parts, self.i = part, parts, -1

    def __call__(self):
        self.i += 1
        return self.i % self.parts == self.part


def setpos(b, i, v):
    m = clone(b)
    m[i] = clone(v)
    return m


def setopt(b, di, k, v):
    m = clone(b)
    m[di][k] = clone(v)
    return m


def delopt(b, di, k):
    m = clone(b)
    del m[di][k]
    return m


URI_DETAIL_CASES = [(c, r(s)) for s in ("not a uri!!", "a..b#", "..", "a.b.", ".a", "a b", "", "com.example.x")
                    for c, r in (("Welcome", lambda s: [2, 1, {"roles": {"broker": {}}, "realm": s}]),
                                 ("Event", lambda s: [36, 1, 2, {"topic": s}]),
                                 ("Invocation", lambda s: [68, 1, 2, {"procedure": s}]),
                                 ("Interrupt", lambda s: [69, 1, {"reason": s}]),
                                 ("Unsubscribed", lambda s: [35, 0, {"subscription": 7, "reason": s}]),
                                 ("Unregistered", lambda s: [67, 0, {"registration": 7, "reason": s}]))]


def gen_struct(tier, rng, sel):
    """yield (label, raw) for the cases selected by `sel`"""
    # details that are URIs by the WAMP spec (the Spec has its own field table): non-URI strings, every run
    for cname, raw in URI_DETAIL_CASES:
        if sel():
            yield (f"{cname}:uridetail", clone(raw))
    for cname, bases in BASES.items():
        keys = set(EXTRA_KEYS)
        for b in bases:
            for i in dict_positions(b):
                if cname in ("Challenge", "Authenticate") or (cname in ("Error", "Event", "Call", "Publish", "Result", "Invocation", "Yield") and i == len(b) - 1 and i > 3):
                    continue
                keys |= set(b[i].keys())
        for bi, b in enumerate(bases):
            if sel():
                yield (f"{cname}:base{bi}", clone(b))
            # every position replaced by every kind
            for i in range(1, len(b)):
                for v in KINDS:
                    if sel():
                        yield (f"{cname}:pos{i}", setpos(b, i, v))
            # every option replaced by / set to every kind (in the first dict position = options/details)
            dps = dict_positions(b)
            if dps and cname not in ("Challenge", "Authenticate"):
                di = dps[0]
                for k in sorted(keys):
                    for v in KINDS:
                        if sel():
                            yield (f"{cname}:opt:{k}", setopt(b, di, k, v))
                if cname in ("Hello", "Welcome"):
                    for rv in ROLE_VARIANTS:
                        if sel():
                            yield (f"{cname}:roles", setopt(b, di, "roles", rv))
                    if sel():
                        yield (f"{cname}:noroles", delopt(b, di, "roles"))
                # drop each option
                for k in list(b[di].keys()):
                    if sel():
                        yield (f"{cname}:drop:{k}", delopt(b, di, k))
            # wrong element counts
            for n in range(0, len(b) + 3):
                if sel():
                    yield (f"{cname}:len{n}", clone(b)[:n] + [None, 1, {}, [], "a.b"][: max(0, n - len(b))])
                if n > len(b):
                    for filler in ([], {}, b"x", "s", [1]):
                        if sel():
                            yield (f"{cname}:len{n}", clone(b) + [clone(filler) for _ in range(n - len(b))])
            # tail variants (args / kwargs / payload shapes) appended to the shortest form
            if cname in ("Error", "Publish", "Event", "Call", "Result", "Invocation", "Yield") and bi == 0:
                for a in KINDS:
                    if sel():
                        yield (f"{cname}:tail1", clone(b) + [clone(a)])
                for a, kw in itertools.product([None, [], [1], "s", b"x", {}, 1], [None, {}, {"k": 1}, {1: 2}, "s", b"x", [], 1]):
                    if sel():
                        yield (f"{cname}:tail2", clone(b) + [clone(a), clone(kw)])
                # enc_* subsets with a payload
                encv = {"enc_algo": ["cryptobox", "", 0, "bogus", "x_ab", None, False, 5, "x_"],
                        "enc_key": ["k", "", 0, None, 5, b"k", []],
                        "enc_serializer": ["json", "", 0, "bogus", "x_ab", None, 5, "flatbuffers"]}
                di = dict_positions(b)[0]
                for present in itertools.product([0, 1], repeat=3):
                    ks = [k for k, p in zip(encv, present) if p]
                    for vals in itertools.product(*[encv[k] for k in ks]):
                        def mk():
                            m = clone(b)
                            for k, v in zip(ks, vals):
                                m[di][k] = clone(v)
                            return m
                        for pl in (b"zz", b"", "str"):
                            if sel():
                                yield (f"{cname}:enc", mk() + [pl])
                        if sel():
                            yield (f"{cname}:enc-nopayload", mk() + [[1]])
    yield from gen_rolefeat(sel)
    # type codes
    for tc in TYPE_CODES:
        if sel():
            yield ("typecode", [tc, 1, {}, "a.b"])
        if sel():
            yield ("typecode", [tc])
    for raw in ([], None, {}, "x", 1, b"x", [[48, 1, {}, "a.b"]], {"0": 48}, (48, 1, {}, "a.b")):
        if sel():
            yield ("envelope", raw)
    # pairs of mutations (error precedence); the random stream is consumed identically by every worker
    npairs = 2500 if tier == "quick" else 600000
    names = list(BASES)
    for _ in range(npairs):
        mine = sel()
        cname = rng.choice(names)
        b0 = rng.choice(BASES[cname])
        b = clone(b0) if mine else None
        nmut = rng.choice([2, 2, 3])
        for _k in range(nmut):
            # draw the same random numbers whether or not the case is ours
            r1, r2, r3 = rng.random(), rng.random(), rng.random()
            kind = rng.randrange(len(KINDS))
            if not mine:
                continue
            dps = dict_positions(b)
            if dps and r1 < 0.6 and isinstance(b[dps[0]], dict):
                ks = sorted(set(k for k in b[dps[0]].keys() if isinstance(k, str)) | set(EXTRA_KEYS))
                b[dps[0]][ks[int(r2 * len(ks))]] = clone(KINDS[kind])
            elif len(b) > 1:
                b[1 + int(r3 * (len(b) - 1))] = clone(KINDS[kind])
        r4 = rng.random()
        kind = rng.randrange(len(KINDS))
        if mine:
            if r4 < 0.2:
                b = b + [clone(KINDS[kind])]
            yield (f"{cname}:pair", b)


def run_struct(job):
    rng = random.Random(job["seed"])
    part, parts = job["part"], job["parts"]
    ser = wc.RawSerializer()
    out = []
    seen = set()
    for label, raw in gen_struct(job["tier"], rng, Sel(part, parts)):
        tok = wval.enc(raw)
        if tok in seen or wval.has_surrogate(raw):
            continue
        seen.add(tok)
        real, det = wc.outcome_of_parse(raw, ser)
        if ":role" in label:
            # the same structure through the real transport serializers (where they can carry it unchanged)
            via = []
            for sname, s2 in real_sers().items():
                try:
                    data = s2._serializer.serialize(raw)
                    if s2._serializer.unserialize(data) != [raw]:
                        continue
                except Exception:  # noqa: BLE001
                    continue
                try:
                    ms = s2.unserialize(data)
                    r2 = "ok " + type(ms[0]).__name__
                except BaseException as e:  # noqa: BLE001
                    r2 = "err " + type(e).__name__
                via.append(sname)
                if r2.split(" ")[:2] != real.split(" ")[:2]:
                    real = "err SerializerDisagree:%s:%s-vs-raw:%s" % (sname, r2.replace(" ", "_"), real.replace(" ", "_")[:40])
                    break
            det["via"] = via
        out.append({"label": label, "tok": tok, "real": real, "det": det})
    return out


_SERS = {}


def real_sers():
    if not _SERS:
        from autobahn.wamp import serializer as S
        _SERS.update({"json": S.JsonSerializer(), "msgpack": S.MsgPackSerializer(), "cbor": S.CBORSerializer(),
                      "ubjson": S.UBJSONSerializer()})
    return _SERS


def run_replay(job):
    raw = wval.to_py(wval.dec(job["tok"]))
    real, det = wc.outcome_of_parse(raw)
    return [{"label": "replay", "tok": job["tok"], "real": real, "det": det}]


ALPHA = ["a", "0", "_", ".", "#", " ", "\n", "A", "é", "٣"]


def run_uri(job):
    """exhaustive small strings against check_or_raise_uri for every flag triple; also the raw patterns"""
    maxlen = job["maxlen"]
    part, parts = job["part"], job["parts"]
    pats = {n: getattr(message, n) for n in job["patterns"]}
    out = []
    idx = 0
    for n in range(0, maxlen + 1):
        for tup in itertools.product(ALPHA, repeat=n):
            idx += 1
            if idx % parts != part:
                continue
            s = "".join(tup)
            bits = []
            for strict in (False, True):
                for ae in (False, True):
                    for ale in (False, True):
                        try:
                            message.check_or_raise_uri(s, strict=strict, allow_empty_components=ae, allow_last_empty=ale)
                            bits.append("1")
                        except wc.InvalidUriError:
                            bits.append("0")
                        except BaseException as e:  # noqa: BLE001
                            bits.append("E:" + type(e).__name__)
            pb = ["1" if p.match(s) else "0" for p in pats.values()]
            out.append([s.encode("utf8").hex() or "-", "".join(bits) if all(len(b) == 1 for b in bits) else ",".join(bits), "".join(pb)])
    extra = []
    for s in job.get("extra", []):
        pb = ["1" if p.match(s) else "0" for p in pats.values()]
        extra.append([s.encode("utf8").hex() or "-", "".join(pb)])
    # non-str / None values
    nonstr = []
    for v in [None, 1, True, b"a.b", ["a"], {}, 1.5]:
        row = []
        for allow_none in (False, True):
            try:
                message.check_or_raise_uri(v, allow_none=allow_none)
                row.append("ok")
            except BaseException as e:  # noqa: BLE001
                row.append(type(e).__name__)
        nonstr.append([wval.enc(v), row])
    return {"rows": out, "extra": extra, "nonstr": nonstr}


def main():
    job = json.load(sys.stdin)
    mode = job["mode"]
    if mode == "struct":
        res = {"cases": run_struct(job)}
    elif mode == "replay":
        res = {"cases": run_replay(job)}
    elif mode == "uri":
        res = run_uri(job)
    elif mode == "octets":
        from harness.workers import c08_octets
        res = {"cases": c08_octets.run(job)}
    else:
        raise SystemExit("unknown mode")
    json.dump(res, sys.stdout)


if __name__ == "__main__":
    main()
