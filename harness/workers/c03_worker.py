"""C03 worker: builds real message objects (class x subsets of optional fields x boundary values), sends them through
every serializer (batched and not, batch sizes 1/2/7) and reports, per message and serializer, what came back —
compared FIELD BY FIELD through marshal() and the public attributes (never through __eq__).

stdin: JSON job {"mode": "gen"|"replay", "tier", "seed", "part", "parts"}
stdout: JSON {"messages": [...], "batches": [...], "cache": [...], "flags": [...]}
"""
import itertools
import json
import random
import sys

from vlib import wval
from harness.workers import wamp_common as wc
from harness.workers.wamp_common import message, role
from autobahn.wamp import serializer as S

IDS = [0, 1, 2 ** 53]
URIS = ["a.b", "com.example.topic1", "com.ex_ample.ünïcode.\U0001f600"]
ARGS = [[], [1], [1, "x", None, True, 1.5, b"\x00\xff", [1, [2, [3, [4]]]], {"k": {"n": [1, {"d": None}]}}],
        ["\U0001f600 é", "", -2 ** 53, 2 ** 53]]
KWARGS = [{}, {"k": 1}, {"ü": [1, 2], "nested": {"a": {"b": {"c": [None]}}}, "b": b"\x01"}]
FF = [[], [{"session": 1, "authid": "a", "authrole": "r"}],
      [{"session": 2 ** 53, "authid": None, "authrole": "r"}, {"session": 0, "authid": "ü", "authrole": "user"}],
      [{"session": 1, "authid": "a", "authrole": "r"}, {"session": 2, "authid": "b", "authrole": "s"}, {"session": 3, "authid": "c", "authrole": "t"}]]
# (payload, enc_algo, enc_key, enc_serializer)
PAYLOADS = [(b"\x01\x02", None, None, None), (b"\x00\xff" * 40, "cryptobox", "k", "json"), (b"x", "x_custom", None, "x_ser"),
            (b"\x18\x00", "mqtt", "key1", None), (b"", "cryptobox", None, None)]
BOOLS = [True, False]
STRS = ["joe", "", "ü\U0001f600"]


def slot(name, values):
    """an optional slot setting one constructor argument"""
    return (name, [{name: v} for v in values])


def payload_slot():
    return ("payload", [{"payload": p, "enc_algo": a, "enc_key": k, "enc_serializer": s} for p, a, k, s in PAYLOADS])


def roles_c():
    return [
        {"caller": role.RoleCallerFeatures()},
        {"subscriber": role.RoleSubscriberFeatures(publisher_identification=True, pattern_based_subscription=False),
         "publisher": role.RolePublisherFeatures(), "caller": role.RoleCallerFeatures(progressive_call_results=True),
         "callee": role.RoleCalleeFeatures(shared_registration=True, call_canceling=True)},
        dict(role.DEFAULT_CLIENT_ROLES),
    ]


def roles_r():
    return [
        {"broker": role.RoleBrokerFeatures()},
        {"broker": role.RoleBrokerFeatures(publisher_identification=True, event_retention=False),
         "dealer": role.RoleDealerFeatures(call_canceling=True, testament_meta_api=True)},
    ]


APP = [slot("args", ARGS), slot("kwargs", KWARGS), payload_slot()]
FWD = [slot("forward_for", FF)]

# class -> (required: list of dicts of constructor kwargs, optional slots, exclusion rule)
def specs():
    return {
        "Hello": ([{"realm": r, "roles": ro} for r in ["realm1", None] for ro in roles_c()],
                  [slot("authmethods", [[], ["wampcra", "ticket"]]), slot("authid", STRS), slot("authrole", ["user"]),
                   slot("authextra", [{}, {"k": [1, {"z": None}]}]), slot("resumable", BOOLS),
                   ("resume", [{"resume_session": 77, "resume_token": "tok"}, {"resume_session": 0}, {"resume_token": ""},
                               {"resume_session": 2 ** 53, "resume_token": "\U0001f600"}])]),
        "Welcome": ([{"session": i, "roles": ro} for i in IDS for ro in roles_r()],
                    [slot("realm", ["realm1"]), slot("authid", STRS), slot("authrole", ["user"]), slot("authmethod", ["ticket"]),
                     slot("authprovider", ["static"]), slot("authextra", [{}, {"k": 1}]), slot("resumed", BOOLS),
                     ("resume", [{"resumable": True, "resume_token": "tok"}, {"resumable": False}, {"resume_token": "t"}]),
                     slot("custom", [{}, {"x_cb_node": "n1", "x_": [1]}])]),
        "Abort": ([{"reason": u} for u in URIS], [slot("message", ["sorry", "", "\U0001f600"])]),
        "Challenge": ([{"method": m} for m in ["wampcra", ""]], [slot("extra", [{}, {"challenge": "x", "n": [1, {"a": None}]}])]),
        "Authenticate": ([{"signature": m} for m in ["sig", ""]], [slot("extra", [{}, {"k": b"\x01"}])]),
        "Goodbye": ([{"reason": u} for u in URIS], [slot("message", ["bye", ""]), slot("resumable", BOOLS)]),
        "Error": ([{"request_type": t, "request": i, "error": u} for t, i, u in zip([48, 68, 32, 34, 16, 64, 66], IDS * 3, URIS * 3)],
                  APP + [slot("callee", [0, 5, 2 ** 53]), slot("callee_authid", STRS), slot("callee_authrole", ["r"])] + FWD),
        "Publish": ([{"request": i, "topic": u} for i, u in zip(IDS, URIS)],
                    APP + [slot("acknowledge", BOOLS), slot("exclude_me", BOOLS), slot("exclude", [[], [1, 2 ** 53]]),
                           slot("exclude_authid", [[], ["a", ""]]), slot("exclude_authrole", [["r"]]), slot("eligible", [[], [0]]),
                           slot("eligible_authid", [["b"]]), slot("eligible_authrole", [[], ["s"]]), slot("retain", BOOLS),
                           slot("transaction_hash", ["h", ""])] + FWD),
        "Published": ([{"request": a, "publication": b} for a in IDS for b in IDS], []),
        "Subscribe": ([{"request": i, "topic": u} for i, u in zip(IDS, URIS)],
                      [slot("match", ["exact", "prefix", "wildcard"]), slot("get_retained", BOOLS)] + FWD),
        "Subscribed": ([{"request": a, "subscription": b} for a in IDS for b in IDS], []),
        "Unsubscribe": ([{"request": a, "subscription": b} for a in IDS for b in IDS], FWD),
        "Unsubscribed": ([{"request": a} for a in IDS], [("sub", [{"request": 0, "subscription": 7}, {"request": 0, "subscription": 2 ** 53}]),
                                                         slot("reason", ["wamp.x"])]),
        "Event": ([{"subscription": a, "publication": b} for a, b in zip(IDS, reversed(IDS))],
                  APP + [slot("publisher", [0, 3]), slot("publisher_authid", STRS), slot("publisher_authrole", ["r"]),
                         slot("topic", ["a.b", "com.example.t1"]), slot("retained", BOOLS), slot("transaction_hash", ["h"]),
                         slot("x_acknowledged_delivery", BOOLS)] + FWD),
        "EventReceived": ([{"publication": a} for a in IDS], []),
        "Call": ([{"request": i, "procedure": u} for i, u in zip(IDS, URIS)],
                 APP + [slot("timeout", [0, 10]), slot("receive_progress", BOOLS), slot("transaction_hash", ["h"]),
                        slot("caller", [0, 3]), slot("caller_authid", STRS), slot("caller_authrole", ["r"])] + FWD),
        "Cancel": ([{"request": i} for i in IDS], [slot("mode", ["skip", "kill", "killnowait"])] + FWD),
        "Result": ([{"request": i} for i in IDS],
                   APP + [slot("progress", BOOLS), slot("callee", [0, 3]), slot("callee_authid", STRS), slot("callee_authrole", ["r"])] + FWD),
        "Register": ([{"request": i, "procedure": u} for i, u in zip(IDS, URIS)],
                     [slot("match", ["exact", "prefix", "wildcard"]), slot("invoke", ["single", "first", "last", "roundrobin", "random"]),
                      slot("concurrency", [1, 5]), slot("force_reregister", BOOLS)] + FWD),
        "Registered": ([{"request": a, "registration": b} for a in IDS for b in IDS], []),
        "Unregister": ([{"request": a, "registration": b} for a in IDS for b in IDS], FWD),
        "Unregistered": ([{"request": a} for a in IDS], [("reg", [{"request": 0, "registration": 7}]), slot("reason", ["wamp.x"])]),
        "Invocation": ([{"request": a, "registration": b} for a, b in zip(IDS, reversed(IDS))],
                       APP + [slot("timeout", [0, 10]), slot("receive_progress", BOOLS), slot("caller", [0, 3]),
                              slot("caller_authid", STRS), slot("caller_authrole", ["r"]), slot("procedure", ["a.b"]),
                              slot("transaction_hash", ["h"])] + FWD),
        "Interrupt": ([{"request": i} for i in IDS], [slot("mode", ["kill", "killnowait"]), slot("reason", ["a.b"])] + FWD),
        "Yield": ([{"request": i} for i in IDS],
                  APP + [slot("progress", BOOLS), slot("callee", [0, 3]), slot("callee_authid", STRS), slot("callee_authrole", ["r"])] + FWD),
    }


def conflicts(names):
    return "payload" in names and ("args" in names or "kwargs" in names)


def gen_messages(tier, rng):
    """yield (class name, constructor kwargs)"""
    maxk = 3 if tier == "quick" else 4
    for cname, (reqs, slots) in specs().items():
        names = [s[0] for s in slots]
        subsets = [()]
        for k in range(1, maxk + 1):
            subsets += list(itertools.combinations(range(len(slots)), k))
        if len(slots) > maxk:
            subsets.append(tuple(range(len(slots))))
            # all-at-once without the payload slot / without args+kwargs
            if "payload" in names:
                subsets.append(tuple(i for i, n in enumerate(names) if n != "payload"))
                subsets.append(tuple(i for i, n in enumerate(names) if n not in ("args", "kwargs")))
        ri = 0
        for sub in subsets:
            sn = [names[i] for i in sub]
            if conflicts(sn):
                continue
            nvar = max([len(slots[i][1]) for i in sub], default=1)
            if not sub:
                nvar = len(reqs)
            if tier == "quick" and len(sub) >= 2:
                nvar = min(nvar, 3)
            reps = nvar if tier == "quick" else nvar * 3     # thorough: three rotations of every value assignment
            for j in range(reps):
                kw = dict(reqs[ri % len(reqs)])
                ri += 1
                for i in sub:
                    vals = slots[i][1]
                    kw.update(vals[(j + i * (1 + j // max(1, nvar))) % len(vals)])
                yield cname, kw


def clone(v):
    if isinstance(v, list):
        return [clone(x) for x in v]
    if isinstance(v, dict):
        return {k: clone(x) for k, x in v.items()}
    return v


def build(cname, kw):
    return getattr(message, cname)(**{k: clone(v) for k, v in kw.items()})


SERS = ["json", "msgpack", "cbor", "ubjson"]


def make_ser(name, batched):
    return {"json": S.JsonSerializer, "msgpack": S.MsgPackSerializer, "cbor": S.CBORSerializer,
            "ubjson": S.UBJSONSerializer}[name](batched=batched)


def describe(msg):
    try:
        mar = wval.enc(wc.canon_field(msg.marshal()), sort=True)
    except Exception as e:  # noqa: BLE001
        mar = "marshal-raises:" + type(e).__name__
    return type(msg).__name__, mar, wval.enc(wc.fields_of(msg), sort=True)


def roundtrip(ser, msgs):
    """-> list of (class, marshal token, fields token) or an error string"""
    datas = []
    flags = []
    for m in msgs:
        d, b = ser.serialize(m)
        datas.append(d)
        flags.append(b)
    payload = b"".join(datas)
    try:
        back = ser.unserialize(payload, flags[0])
    except BaseException as e:  # noqa: BLE001
        if isinstance(e, (KeyboardInterrupt, SystemExit)):
            raise
        return "err " + type(e).__name__ + ": " + str(e)[:120], flags, payload
    return [describe(b) for b in back], flags, payload


def run_gen(job):
    rng = random.Random(job["seed"])
    part, parts = job["part"], job["parts"]
    sers = {(n, b): make_ser(n, b) for n in SERS for b in (False, True)}
    out_msgs, out_batches, flags_out = [], [], []
    pool = []
    for idx, (cname, kw) in enumerate(gen_messages(job["tier"], rng)):
        if idx % parts != part:
            continue
        try:
            msg = build(cname, kw)
        except AssertionError:
            continue   # combination the constructor itself refuses: not an admissible message
        cls, mar, fields = describe(msg)
        rec = {"cls": cls, "marshal": mar, "fields": fields, "rt": {}}
        for (n, b), ser in sers.items():
            m2 = build(cname, kw)    # fresh object: no cached bytes
            res, flags, payload = roundtrip(ser, [m2])
            sid = n + (".batched" if b else "")
            if isinstance(res, str):
                rec["rt"][sid] = res
            elif len(res) != 1:
                rec["rt"][sid] = "count %d" % len(res)
            else:
                rec["rt"][sid] = list(res[0])
            if idx % 50 == part % 50:
                istext = True
                try:
                    payload.decode("utf8")
                except UnicodeDecodeError:
                    istext = False
                flags_out.append([sid, flags[0], istext, ser._serializer.NAME])
        out_msgs.append(rec)
        # batches are built from messages that survive on their own (so a batch failure is a batching failure)
        if all(isinstance(r, list) and r[2] == fields for r in rec["rt"].values()):
            pool.append((cname, kw))
    # batches of 2 and 7 (and 1) through the batched serializers: same N messages, same order
    nb = 40 if job["tier"] == "quick" else 600
    for _ in range(nb):
        if not pool:
            break
        n = rng.choice([1, 2, 7])
        group = [pool[rng.randrange(len(pool))] for _ in range(n)]
        exp = [list(describe(build(c, k))) for c, k in group]
        for name in SERS:
            ser = sers[(name, True)]
            res, flags, payload = roundtrip(ser, [build(c, k) for c, k in group])
            # the octets of each message on its own (unbatched object serializer), for the Lean batching model
            parts = [sers[(name, False)]._serializer.serialize(build(c, k).marshal()).hex() or "-" for c, k in group]
            out_batches.append({"ser": name + ".batched", "n": n, "expected": exp,
                                "got": res if isinstance(res, str) else [list(r) for r in res],
                                "payload": payload.hex(), "parts": parts})
    return {"messages": out_msgs, "batches": out_batches, "flags": flags_out, "cache": cache_checks() if part == 0 else []}


def cache_checks():
    """Message._serialized: bytes cached per serializer object must never leak into another serializer's output or
    survive uncache()"""
    out = []
    a, b, a2 = S.JsonSerializer(), S.MsgPackSerializer(), S.JsonSerializer()
    m = message.Call(1, "a.b", args=[1])
    d1, _ = a.serialize(m)
    m.args = [2, 3]                       # mutate after the first serialize (setter does not touch the cache)
    d2, _ = b.serialize(m)                # a different serializer must see the new value
    got = b.unserialize(d2)[0].args
    out.append({"check": "other-serializer-sees-mutation", "ok": got == [2, 3], "got": repr(got)})
    d3, _ = a2.serialize(m)               # another instance of the same serializer class: cache is keyed by object serializer
    got = a2.unserialize(d3)[0].args
    out.append({"check": "other-instance-sees-mutation", "ok": got == [2, 3], "got": repr(got)})
    d4, _ = a.serialize(m)                # same serializer without uncache(): cached bytes (documented behaviour)
    out.append({"check": "same-serializer-returns-cached", "ok": d4 == d1, "got": d4.decode()})
    m.uncache()
    d5, _ = a.serialize(m)
    got = a.unserialize(d5)[0].args
    out.append({"check": "uncache-drops-stale-bytes", "ok": got == [2, 3], "got": repr(got)})
    # cached bytes of one serializer never reach another one: binary flag and content
    m2 = message.Event(1, 2, args=["x"])
    dj, bj = a.serialize(m2)
    dm, bm = b.serialize(m2)
    out.append({"check": "per-serializer-bytes", "ok": (bj, bm) == (False, True) and dj != dm and a.unserialize(dj)[0].args == ["x"]
                and b.unserialize(dm)[0].args == ["x"], "got": ""})
    return out


def main():
    job = json.load(sys.stdin)
    if job["mode"] == "gen":
        json.dump(run_gen(job), sys.stdout)
    elif job["mode"] == "replay":
        kw = {k: v for k, v in wval.to_py(wval.dec(job["fields"])).items() if v is not None}
        cname = job["cls"]
        if "roles" in kw:
            kw["roles"] = {r: role.ROLE_NAME_TO_CLASS[r](**f) for r, f in kw["roles"].items()}
        msg = build(cname, kw)
        cls, mar, fields = describe(msg)
        rec = {"cls": cls, "marshal": mar, "fields": fields, "rt": {}}
        for n in SERS:
            for b in (False, True):
                res, flags, payload = roundtrip(make_ser(n, b), [build(cname, kw)])
                rec["rt"][n + (".batched" if b else "")] = res if isinstance(res, str) else list(res[0])
        json.dump({"messages": [rec], "batches": [], "flags": [], "cache": []}, sys.stdout)


if __name__ == "__main__":
    main()
