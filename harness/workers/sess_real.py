"""Worker for part B of C06 / C10: event scripts against a real ApplicationSession of ONE framework (argv[1]) over the
real WAMP-over-WebSocket / WAMP-over-RawSocket transports, wired in memory to an independent peer.
See vlib/wampreal.py (Link, RealRunner)."""
from vlib import wampreal

if __name__ == "__main__":
    wampreal.worker_main()
