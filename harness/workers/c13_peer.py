"""C13 peer worker: real autobahn transport endpoints of ONE framework, driven over a JSON-lines pipe.

usage: c13_peer.py <twisted|asyncio>
stdin : one JSON list of ops per line;  stdout: one JSON list of results per line (same order).

ops (every op returns a dict; `id` names an endpoint created by `mk`):
  {"op":"mk","id":..,"kind":"rs"|"ws","role":"server"|"client","sers":[ids..],"session":"rec"|"app",
   "max_size":int|None (twisted rs), "aio_max":int|None (asyncio rs: instance max_length/_length_exp),
   "fail_by_drop":bool (ws), "raise_at":k|None, "raise_exc":"RuntimeError"|.., "strict":bool}
      -> {"wrote":hex, ...state}
  {"op":"rx","id":..,"chunks":[hex..]}     deliver reads (stops when the transport was closed / an exception escaped)
  {"op":"tx","id":..,"msgs":[spec..]}      session-side ITransport.send(); spec = ["pub", reqid, pad] |
                                            ["len", reqid, L] (serialized length exactly L) | ["raw", ...]
  {"op":"lose","id":..,"clean":bool,"times":n}   framework reports the transport gone
  {"op":"call","id":..,"what":"close"|"abort"}    ITransport.close()/abort() from the session side
  {"op":"parse_sub","strings":[..]}        parseSubprotocolIdentifier on each
  {"op":"log2","sizes":[..]}               int(math.ceil(math.log(n, 2))) on each
every endpoint result carries: wrote (hex written since last op), tlog (close/abort calls since last op),
events (session callbacks since last op), exc (class name of an exception that escaped, or null),
open (transport.isOpen()), ser (serializer id in use or null), sub (ws subprotocol in use), maxsend.
"""
import hashlib
import json
import math
import sys

from vlib import ws

fw = sys.argv[1]
env = ws.setup(fw)

import txaio  # noqa: E402
from autobahn.wamp import message  # noqa: E402
from autobahn.wamp import serializer as S  # noqa: E402
from autobahn.wamp.exception import ProtocolError, SerializationError, InvalidUriError, TransportLost  # noqa: E402
from autobahn.exception import PayloadExceededError  # noqa: E402
from autobahn.wamp.protocol import ApplicationSession  # noqa: E402
from autobahn.wamp.types import ComponentConfig  # noqa: E402
from autobahn.wamp.websocket import parseSubprotocolIdentifier  # noqa: E402

if fw == "twisted":
    from autobahn.twisted import rawsocket as R
    from autobahn.twisted import websocket as W
    from twisted.internet.defer import CancelledError
else:
    from autobahn.asyncio import rawsocket as R
    from autobahn.asyncio import websocket as W
    from asyncio import CancelledError

txaio.start_logging(level="critical") if False else None

EXC = {"RuntimeError": RuntimeError, "ProtocolError": ProtocolError, "SerializationError": SerializationError,
       "InvalidUriError": InvalidUriError, "PayloadExceededError": PayloadExceededError, "ValueError": ValueError,
       "KeyError": KeyError, "CancelledError": CancelledError, "TransportLost": TransportLost}


def mk_ser(sid):
    base = sid.split(".")[0]
    batched = sid.endswith(".batched")
    cls = {"json": S.JsonSerializer, "msgpack": S.MsgPackSerializer, "cbor": S.CBORSerializer,
           "ubjson": S.UBJSONSerializer}[base]
    return cls(batched=batched)


def canon_msg(msg):
    try:
        m = msg.marshal()
        h = hashlib.sha256(repr(m).encode()).hexdigest()[:12]
    except Exception as e:  # pragma: no cover
        h = "marshal-failed:" + type(e).__name__
    return [type(msg).__name__, h]


class RecSession:
    """minimal ITransportHandler: records, optionally raises in onMessage"""

    def __init__(self, ep):
        self.ep = ep
        self._transport = None
        self._authid = None
        self._session_id = None

    def onOpen(self, transport):
        self.ep.events.append(["open"])
        self._transport = transport
        if self.ep.cfg.get("raise_in_open"):
            raise EXC[self.ep.cfg["raise_in_open"]]("boom")

    def onMessage(self, msg):
        k = self.ep.nmsg
        self.ep.nmsg += 1
        self.ep.events.append(["msg"] + canon_msg(msg))
        if self.ep.cfg.get("raise_at") is not None and k == self.ep.cfg["raise_at"]:
            raise EXC[self.ep.cfg.get("raise_exc", "RuntimeError")]("boom")

    def onClose(self, wasClean):
        self.ep.events.append(["close", bool(wasClean)])
        if self.ep.cfg.get("raise_in_close"):
            raise RuntimeError("boom in onClose")


class AppSession(ApplicationSession):
    """the real client session (protocol checks of wamp/protocol.py), with recording"""

    def __init__(self, ep):
        ApplicationSession.__init__(self, ComponentConfig(realm="realm1"))
        self.ep = ep

    def onOpen(self, transport):
        self.ep.events.append(["open"])
        return ApplicationSession.onOpen(self, transport)

    def onMessage(self, msg):
        self.ep.nmsg += 1
        self.ep.events.append(["msg"] + canon_msg(msg))
        return ApplicationSession.onMessage(self, msg)

    def onClose(self, wasClean):
        self.ep.events.append(["close", bool(wasClean)])
        return ApplicationSession.onClose(self, wasClean)


class EP:
    pass


eps = {}


def make(o):
    ep = EP()
    ep.cfg = o
    ep.events = []
    ep.nmsg = 0
    ep.exc = None
    ep.lost = False
    ep.kind = o["kind"]
    sers = [mk_ser(s) for s in o.get("sers", [])]

    def sess_factory():
        s = AppSession(ep) if o.get("session") == "app" else RecSession(ep)
        ep.session = s
        return s
    if o["kind"] == "rs":
        if o["role"] == "server":
            f = R.WampRawSocketServerFactory(sess_factory, serializers=sers)
        else:
            f = R.WampRawSocketClientFactory(sess_factory, serializer=sers[0])
        if fw == "twisted":
            if o.get("max_size"):
                f.setProtocolOptions(maxMessagePayloadSize=o["max_size"])
            p = f.buildProtocol(None)
        else:
            p = f()
            if o.get("aio_max"):
                # the `max_size` branch of RawSocketProtocol.__init__ is unreachable (hard-wired None);
                # the limits are plain instance attributes and can be configured only this way
                exp = int(math.ceil(math.log(o["aio_max"], 2))) - 9
                p.max_length = 2 ** (exp + 9)
                p._length_exp = exp
    else:
        kw = {"serializers": sers}
        if fw == "twisted":
            kw["reactor"] = env.clock
        else:
            kw["loop"] = env.loop
        if o["role"] == "server":
            f = W.WampWebSocketServerFactory(sess_factory, "ws://localhost:9000", **kw)
        else:
            f = W.WampWebSocketClientFactory(sess_factory, "ws://localhost:9000", **kw)
        opts = {}
        if "fail_by_drop" in o:
            opts["failByDrop"] = o["fail_by_drop"]
        if o["role"] == "server":
            opts["openHandshakeTimeout"] = 0
            opts["closeHandshakeTimeout"] = 0
        else:
            opts["openHandshakeTimeout"] = 0
            opts["closeHandshakeTimeout"] = 0
            opts["serverConnectionDropTimeout"] = 0
        f.setProtocolOptions(**opts)
        if o.get("strict") is False:
            base = f.protocol

            class NonStrict(base):
                STRICT_PROTOCOL_NEGOTIATION = False
            f.protocol = NonStrict
        p = f.buildProtocol(None) if fw == "twisted" else f()
    ep.factory = f
    ep.proto = p
    t = ws.RecTransport(env)
    t.proto = p
    ep.transport = t
    ep.tmark = 0
    try:
        if fw == "twisted":
            p.makeConnection(t)
        else:
            p.connection_made(t)
        env.pump()
    except Exception as e:
        ep.exc = type(e).__name__
    eps[o["id"]] = ep
    return ep


def state(ep):
    t = ep.transport
    new = t.log[ep.tmark:]
    ep.tmark = len(t.log)
    wrote = b"".join(e[1] for e in new if e[0] == "write")
    tlog = [e[0] for e in new if e[0] != "write"]
    # order of close calls relative to writes matters for "nothing written after close"
    after_close = False
    wrote_after_close = 0
    for e in new:
        if e[0] != "write":
            after_close = True
        elif after_close:
            wrote_after_close += len(e[1])
    evs = ep.events
    ep.events = []
    p = ep.proto
    ser = getattr(p, "_serializer", None)
    out = {"wrote": wrote.hex(), "tlog": tlog, "events": evs, "exc": ep.exc, "closed": t.closed,
           "wrote_after_close": wrote_after_close}
    try:
        out["open"] = bool(p.isOpen())
    except Exception as e:
        out["open"] = "raises:" + type(e).__name__
    if ep.kind == "rs":
        out["ser"] = ser.RAWSOCKET_SERIALIZER_ID if ser is not None else None
        out["maxsend"] = getattr(p, "_max_len_send", None) if fw == "twisted" else getattr(p, "max_length_send", None)
        out["maxrecv"] = getattr(p, "MAX_LENGTH", None) if fw == "twisted" else getattr(p, "max_length", None)
    else:
        out["ser"] = ser.SERIALIZER_ID if ser is not None else None
        out["sub"] = getattr(p, "websocket_protocol_in_use", None)
        out["wsstate"] = getattr(p, "state", None)
    return out


def deliver(ep, data):
    if ep.transport.closed or ep.exc or ep.lost:
        return False
    try:
        if fw == "twisted":
            ep.proto.dataReceived(data)
        else:
            ep.proto.data_received(data)
        env.pump()
    except Exception as e:
        ep.exc = type(e).__name__
    return True


def build_msg(ep, spec):
    kind = spec[0]
    if kind == "pub":
        return message.Publish(spec[1], "com.example.topic", args=["x" * spec[2]])
    if kind == "call":
        return message.Call(spec[1], "com.example.proc", args=["x" * spec[2]])
    if kind == "event":
        return message.Event(spec[1], spec[2], args=[spec[3]])
    if kind == "welcome":
        return message.Welcome(spec[1], {"broker": {}, "dealer": {}}, realm="realm1")
    if kind == "hello":
        return message.Hello("realm1", {"subscriber": {}})
    if kind == "result":
        return message.Result(spec[1], args=[spec[2]])
    if kind == "len":
        # PUBLISH whose serialization by this endpoint's serializer has exactly spec[2] octets
        ser = ep.proto._serializer
        target = spec[2]
        pad = max(0, target - 64)
        for _ in range(12):
            m = message.Publish(spec[1], "com.example.topic", args=["x" * pad])
            n = len(m.serialize(ser._serializer))
            if n == target:
                return m
            pad += target - n
            if pad < 0:
                raise ValueError("target length too small for a PUBLISH")
        raise ValueError("cannot hit serialized length %d" % target)
    if kind == "unserializable":
        return message.Publish(spec[1], "com.example.topic", args=[object()])
    raise ValueError(kind)


def do(o):
    op = o["op"]
    if op == "mk":
        return state(make(o))
    if op == "parse_sub":
        return {"res": [list(parseSubprotocolIdentifier(s)) for s in o["strings"]]}
    if op == "log2":
        return {"res": [int(math.ceil(math.log(n, 2))) for n in o["sizes"]]}
    ep = eps[o["id"]]
    if op == "rx":
        n = 0
        for c in o["chunks"]:
            if not deliver(ep, bytes.fromhex(c)):
                break
            n += 1
        st = state(ep)
        st["delivered"] = n
        return st
    if op == "tx":
        res = []
        tr = ep.session._transport if getattr(ep, "session", None) is not None else ep.proto
        tr = ep.proto
        for spec in o["msgs"]:
            before = len(ep.transport.log)
            try:
                m = build_msg(ep, spec)
                tr.send(m)
                env.pump()
                w = b"".join(e[1] for e in ep.transport.log[before:] if e[0] == "write")
                res.append({"ok": True, "n": len(w), "head": w[:4].hex(), "sent": canon_msg(m),
                            "sha": hashlib.sha256(w).hexdigest()[:16]})
            except Exception as e:
                w = b"".join(e2[1] for e2 in ep.transport.log[before:] if e2[0] == "write")
                res.append({"ok": False, "exc": type(e).__name__, "n": len(w)})
        st = state(ep)
        st["tx"] = res
        if o.get("drop_wire"):
            st["wrote_len"] = len(st["wrote"]) // 2
            st["wrote"] = ""
        return st
    if op == "sendstring":
        # PrefixProtocol.sendString / Int32StringReceiver.sendString called directly with n octets
        res = []
        for n in o["lens"]:
            before = len(ep.transport.log)
            try:
                ep.proto.sendString(b"x" * n)
                w = b"".join(e[1] for e in ep.transport.log[before:] if e[0] == "write")
                res.append({"ok": True, "n": len(w), "head": w[:4].hex()})
            except Exception as e:
                w = b"".join(e2[1] for e2 in ep.transport.log[before:] if e2[0] == "write")
                res.append({"ok": False, "exc": type(e).__name__, "n": len(w)})
        st = state(ep)
        st["wrote"] = ""
        st["ss"] = res
        return st
    if op == "lose":
        for _ in range(o.get("times", 1)):
            try:
                ep.lost = True
                clean = o.get("clean", True)
                if fw == "twisted":
                    from twisted.internet import error
                    from twisted.python.failure import Failure
                    ep.proto.connectionLost(Failure(error.ConnectionDone() if clean else error.ConnectionLost()))
                else:
                    ep.proto.connection_lost(None if clean else ConnectionResetError("reset"))
                env.pump()
            except Exception as e:
                ep.exc = "lose:" + type(e).__name__
        return state(ep)
    if op == "call":
        try:
            getattr(ep.proto, o["what"])()
            env.pump()
        except Exception as e:
            st = state(ep)
            st["raised"] = type(e).__name__
            return st
        return state(ep)
    if op == "advance":
        env.advance(o["dt"])
        return state(ep)
    if op == "drop":
        eps.pop(o["id"], None)
        return {}
    raise ValueError(op)


def main():
    for line in sys.stdin:
        line = line.strip()
        if not line:
            continue
        ops = json.loads(line)
        out = []
        for o in ops:
            try:
                out.append(do(o))
            except Exception as e:  # infrastructure error inside the worker: report, do not die
                import traceback
                out.append({"worker_error": type(e).__name__ + ": " + str(e), "tb": traceback.format_exc()[-800:]})
        sys.stdout.write(json.dumps(out) + "\n")
        sys.stdout.flush()


main()
