"""C19 worker: runs the real autobahn authentication helpers on the given cases.

stdin : JSON {"fw": "twisted"|"asyncio", "cases": [ {"op": ..., ...}, ... ]}
stdout: JSON {"results": [ {...}, ... ], "libs": {...}}

Byte strings travel as hex, text as hex of its UTF-8 octets ("t:" fields), errors as class names.
Besides calling the code under verification the worker plays the *independent* counterpart where that
needs libraries the harness process (plain python3, stdlib only) does not have:
  * OpenSSL Ed25519 (package `cryptography`) to verify / re-create cryptosign signatures
    (autobahn signs with libsodium through PyNaCl),
  * OpenSSL Argon2id (`cryptography`'s Argon2id) for the SCRAM salted password
    (autobahn uses argon2-cffi = the reference C implementation),
  * passlib's saslprep is used by autobahn itself and is only reported, not judged,
  * hashlib's PBKDF2 over the base64-decoded salt as the independent KDF of the SCRAM PBKDF2 flavour.
`extra_cps` of a scram case gives challenge attributes as code point lists (for lone surrogates, which no
UTF-8 hex can carry).
Everything HMAC/PBKDF2/base64 is judged in the harness process (Lean driver + hashlib), not here.
"""
import base64
import binascii
import hashlib
import hmac
import json
import os
import sys
import time

job = json.load(sys.stdin)
FW = job.get("fw", "twisted")

import txaio
if FW == "twisted":
    txaio.use_twisted()
else:
    txaio.use_asyncio()
    import asyncio
    _loop = asyncio.new_event_loop()
    asyncio.set_event_loop(_loop)
    txaio.config.loop = _loop

from autobahn import util
from autobahn.wamp import auth
from autobahn.wamp import cryptosign
from autobahn.wamp.types import Challenge

from cryptography.hazmat.primitives.asymmetric.ed25519 import Ed25519PrivateKey, Ed25519PublicKey
from cryptography.exceptions import InvalidSignature
try:
    from cryptography.hazmat.primitives.kdf.argon2 import Argon2id
    HAVE_INDEP_ARGON = True
except Exception:  # pragma: no cover
    HAVE_INDEP_ARGON = False

_real_time = time.time
_real_urandom = os.urandom


def H(b):
    return b.hex()


def B(h):
    return bytes.fromhex(h)


def T(h):
    return bytes.fromhex(h).decode("utf8")


def err(e):
    return {"err": type(e).__name__}


def txt(s):
    """a str/bytes result -> hex of its octets, tagged with the Python type"""
    if isinstance(s, str):
        return {"ok": s.encode("utf8").hex(), "type": "str"}
    return {"ok": bytes(s).hex(), "type": "bytes"}


class _Log:
    def __init__(self):
        self.calls = []

    def error(self, *a, **k):
        self.calls.append("error")

    def info(self, *a, **k):
        self.calls.append("info")

    debug = warn = info


class _Sess:
    def __init__(self, channel_id=None):
        self.log = _Log()

        class TD:
            pass

        class TR:
            pass
        self._transport = TR()
        self._transport.transport_details = TD()
        self._transport.transport_details.channel_id = channel_id or {}


def resolve(d):
    """value of a txaio future that the code resolves synchronously (Twisted) / after one loop turn (asyncio)"""
    if FW == "twisted":
        out = []
        d.addCallbacks(lambda r: out.append(("ok", r)), lambda f: out.append(("err", f.value)))
        if not out:
            raise RuntimeError("deferred did not fire")
        if out[0][0] == "err":
            raise out[0][1]
        return out[0][1]
    return _loop.run_until_complete(d)


def flip(b, i):
    a = bytearray(b)
    a[i // 8] ^= 1 << (i % 8)
    return bytes(a)


# ------------------------------------------------------------------------------------------------ ops

def op_xor(c):
    try:
        return {"ok": H(util.xor(B(c["a"]), B(c["b"])))}
    except Exception as e:
        return err(e)


def op_wcs(c):
    key, ch = B(c["key"]), B(c["challenge"])
    try:
        if c.get("as_str"):
            key, ch = key.decode("utf8"), ch.decode("utf8")
        r = txt(auth.compute_wcs(key, ch))
    except Exception as e:
        return err(e)
    if c.get("flips"):
        # every single-bit alteration of key and challenge: count signatures equal to the original
        same, wrong = [], 0
        k0, c0 = B(c["key"]), B(c["challenge"])
        for i in range(8 * len(k0)):
            k1 = flip(k0, i)
            s = auth.compute_wcs(k1, c0)
            if s.hex() == r["ok"]:
                same.append(["key", i])
            if s != base64.b64encode(hmac.new(k1, c0, hashlib.sha256).digest()):
                wrong += 1
        for i in range(8 * len(c0)):
            c1 = flip(c0, i)
            s = auth.compute_wcs(k0, c1)
            if s.hex() == r["ok"]:
                same.append(["challenge", i])
            if s != base64.b64encode(hmac.new(k0, c1, hashlib.sha256).digest()):
                wrong += 1
        r["flips"] = {"n": 8 * (len(k0) + len(c0)), "same": same[:5], "not_hmac": wrong}
    return r


def op_pbkdf2(c):
    try:
        return {"ok": H(auth.pbkdf2(B(c["data"]), B(c["salt"]), c["iterations"], c["keylen"]))}
    except Exception as e:
        return err(e)


def op_derive(c):
    sec, salt = B(c["secret"]), B(c["salt"])
    try:
        if c.get("as_str"):
            sec, salt = sec.decode("utf8"), salt.decode("utf8")
        r = txt(auth.derive_key(sec, salt, c["iterations"], c["keylen"]))
    except Exception as e:
        return err(e)
    if c.get("flips"):
        same = []
        s0, t0 = B(c["secret"]), B(c["salt"])
        for i in range(8 * len(s0)):
            if auth.derive_key(flip(s0, i), t0, c["iterations"], c["keylen"]).hex() == r["ok"]:
                same.append(["secret", i])
        for i in range(8 * len(t0)):
            if auth.derive_key(s0, flip(t0, i), c["iterations"], c["keylen"]).hex() == r["ok"]:
                same.append(["salt", i])
        for d in (-1, 1):
            if c["iterations"] + d >= 1 and \
                    auth.derive_key(s0, t0, c["iterations"] + d, c["keylen"]).hex() == r["ok"]:
                same.append(["iterations", d])
        r["flips"] = {"n": 8 * (len(s0) + len(t0)) + 2, "same": same[:5]}
    return r


def op_cra(c):
    """AuthWampCra.on_challenge; secret given as str (or bytes when secret_bytes)"""
    try:
        secret = B(c["secret"]) if c.get("secret_bytes") else T(c["secret"])
        a = auth.AuthWampCra(authid="u", secret=secret)
        extra = {"challenge": T(c["challenge"])}
        if "salt" in c:
            extra.update(salt=T(c["salt"]), iterations=c["iterations"], keylen=c["keylen"])
        r = txt(a.on_challenge(None, Challenge("wampcra", extra)))
        r["welcome"] = repr(a.on_welcome(None, {}))
        return r
    except Exception as e:
        return err(e)


def op_totp(c):
    """compute_totp / check_totp with time.time() patched to c['now'] (a decimal string, may have a fraction)"""
    now = float(c["now"])
    time.time = lambda: now
    try:
        secret = T(c["secret"])
        r = {}
        r["codes"] = {}
        for o in c.get("offsets", [0]):
            try:
                r["codes"][str(o)] = txt(auth.compute_totp(secret, o))
            except Exception as e:
                r["codes"][str(o)] = err(e)
        chk = {}
        for t in c.get("tickets", []):
            try:
                chk[t] = {"ok": bool(auth.check_totp(secret, T(t)))}
            except Exception as e:
                chk[t] = err(e)
        r["checks"] = chk
        return r
    finally:
        time.time = _real_time


def op_totp_secret(c):
    """generate_totp_secret(length) with os.urandom returning the given octets"""
    rnd = B(c["random"])
    os.urandom = lambda n: rnd[:n] if len(rnd) >= n else (_ for _ in ()).throw(RuntimeError("short"))
    try:
        try:
            if c["length"] is None:
                return txt(auth.generate_totp_secret())
            return txt(auth.generate_totp_secret(c["length"]))
        except Exception as e:
            return err(e)
    finally:
        os.urandom = _real_urandom


def op_wcs_secret(c):
    try:
        s = auth.generate_wcs(c["length"])
        return {"ok": H(s), "charset_ok": all(ch in auth.WCS_SECRET_CHARSET.encode() for ch in s)}
    except Exception as e:
        return err(e)


def op_scram(c):
    """AuthScram: authextra -> on_challenge -> on_welcome for a list of alleged signatures.
    The worker also plays an independent server: Argon2id from OpenSSL, PBKDF2 / HMAC from hashlib."""
    rnd = B(c["nonce_random"])
    os.urandom = lambda n: rnd[:n]
    try:
        a = auth.AuthScram(authid=T(c["authid"]), password=T(c["password"]))
        cn = a.authextra["nonce"]
    except Exception as e:
        return {"init": err(e)}
    finally:
        os.urandom = _real_urandom
    r = {"client_nonce": cn.encode().hex(), "nonce_again": a.authextra["nonce"] == cn}
    # mutual authentication: a WELCOME that was never preceded by a CHALLENGE proves nothing about the router; whatever
    # signature it carries (the ones anyone can compute from empty exchange state included) must not be accepted
    nc = []
    for name, text in (("const-empty-state", base64.b64encode(hmac.new(hmac.new(b"", b"Server Key", hashlib.sha256).digest(), b"", hashlib.sha256).digest()).decode()),
                       ("empty", ""), ("zeros", base64.b64encode(bytes(32)).decode())):
        try:
            a0 = auth.AuthScram(authid=T(c["authid"]), password=T(c["password"]))
            a0.authextra
            res0 = a0.on_welcome(_Sess(), {"scram_server_signature": text})
            nc.append([name, "accept" if res0 is None else "reject"])
        except Exception as e:
            nc.append([name, "raised " + type(e).__name__])
    r["welcome_no_challenge"] = nc
    extra = {k: (T(v) if isinstance(v, str) else v) for k, v in c["extra"].items()}
    extra.update({k: "".join(map(chr, v)) for k, v in c.get("extra_cps", {}).items()})   # code point lists (lone surrogates)
    for k in ("iterations", "memory"):
        if k in c.get("extra_raw", {}):
            extra[k] = c["extra_raw"][k]
    try:
        from passlib.utils import saslprep
        r["authid_prepped"] = saslprep(T(c["authid"])).encode("utf8").hex()
    except Exception as e:
        r["authid_prepped"] = None
        r["saslprep_err"] = type(e).__name__
    try:
        proof = a.on_challenge(None, Challenge("scram", extra))
        r["proof"] = txt(proof)
        r["salted_password"] = H(a._salted_password)
        r["auth_message"] = H(a._auth_message)
    except Exception as e:
        r["proof"] = err(e)
    # the independent KDF (raw output)
    kdf = extra.get("kdf")
    try:
        pw = T(c["password"]).encode("utf8")
        salt = base64.b64decode(extra.get("salt", ""))
        if kdf == "argon2id-13" and "memory" in extra and HAVE_INDEP_ARGON:
            raw = Argon2id(salt=salt, length=32, iterations=int(extra["iterations"]), lanes=1,
                           memory_cost=int(extra["memory"])).derive(pw)
            r["indep_kdf_raw"] = H(raw)
            r["indep_kdf"] = "cryptography/OpenSSL Argon2id"
        elif kdf == "pbkdf2":
            r["indep_kdf_raw"] = H(hashlib.pbkdf2_hmac("sha256", pw, salt, int(extra["iterations"]), 32))
            r["indep_kdf"] = "hashlib.pbkdf2_hmac"
    except Exception as e:
        r["indep_kdf_err"] = type(e).__name__
    # on_welcome for the alleged signatures supplied by the harness ("sig:<hex>" = canonical base64 of these
    # octets, "txt:<hex>" = this text as is), or generated here from the server signature the *code's own*
    # salted password implies (so that this also runs where the independent KDF differs)
    if "salted_password" in r:
        sp, am = a._salted_password, a._auth_message
        server_sig = hmac.new(hmac.new(sp, b"Server Key", hashlib.sha256).digest(), am, hashlib.sha256).digest()
        r["server_sig_from_impl_sp"] = H(server_sig)
        genuine = base64.b64encode(server_sig).decode()
        alleged = [("genuine", genuine)]
        if c.get("welcome") in ("exhaustive", "few"):
            bits = range(256) if c["welcome"] == "exhaustive" else (0, 7, 100, 255)
            for i in bits:
                alleged.append((f"sigbit{i}", base64.b64encode(flip(server_sig, i)).decode()))
            tb = range(8 * len(genuine)) if c["welcome"] == "exhaustive" else (0, 1, 8 * 42, 8 * 42 + 1, 8 * 42 + 2, 8 * 43, 8 * 43 + 2, 7)
            for i in tb:
                g = flip(genuine.encode(), i)
                alleged.append((f"txtbit{i}", g.decode("latin1")))
            alleged += [("empty", ""), ("prefix16", base64.b64encode(server_sig[:16]).decode()),
                        ("prefix31", base64.b64encode(server_sig[:31]).decode()),
                        ("extended", base64.b64encode(server_sig + b"\0").decode()),
                        ("nopad", genuine.rstrip("=")), ("junk", "!" + genuine[:10] + " \n" + genuine[10:]),
                        ("other", base64.b64encode(hashlib.sha256(server_sig).digest()).decode()),
                        ("clientsig", base64.b64encode(hmac.new(hashlib.sha256(hmac.new(sp, b"Client Key", hashlib.sha256).digest()).digest(), am, hashlib.sha256).digest()).decode()),
                        ("swapped-label", base64.b64encode(hmac.new(hmac.new(sp, b"Client Key", hashlib.sha256).digest(), am, hashlib.sha256).digest()).decode())]
        out = []
        for name, text in alleged:
            s = _Sess()
            try:
                res = a.on_welcome(s, {"scram_server_signature": text})
                o = "accept" if res is None else ("reject" if isinstance(res, str) else "other:" + repr(res))
            except Exception as e:
                o = "raised " + type(e).__name__
            out.append([name, text.encode("latin1").hex(), o, s.log.calls])
        r["welcome"] = out
        try:
            a.on_welcome(_Sess(), {})
            r["welcome_missing_key"] = "no-exception"
        except Exception as e:
            r["welcome_missing_key"] = type(e).__name__
    return r


def op_cryptosign(c):
    """CryptosignKey.sign_challenge / AuthCryptoSign.on_challenge; OpenSSL verifies and re-signs."""
    seed = B(c["seed"])
    r = {}
    try:
        key = cryptosign.CryptosignKey.from_bytes(seed)
        r["pubkey"] = key.public_key()
        r["pubkey_bin"] = H(key.public_key(binary=True))
    except Exception as e:
        return {"key": err(e)}
    ossl_priv = Ed25519PrivateKey.from_private_bytes(seed)
    from cryptography.hazmat.primitives import serialization
    ossl_pub_raw = ossl_priv.public_key().public_bytes(serialization.Encoding.Raw, serialization.PublicFormat.Raw)
    r["openssl_pubkey"] = H(ossl_pub_raw)
    cid = None if c["channel_id"] is None else B(c["channel_id"])
    ctype = c["binding"]
    chal_text = T(c["challenge"])

    def sign(chal_text, cid, ctype):
        ch = Challenge(c.get("method", "cryptosign"), {"challenge": chal_text})
        if c.get("via") == "authenticator":
            kw = {"authid": "u", "privkey": H(seed)}
            if ctype is not None:
                kw["authextra"] = {"channel_binding": ctype}
            a = auth.AuthCryptoSign(**kw)
            r["authextra_pubkey"] = a.authextra.get("pubkey")
            sess = _Sess({} if cid is None else {ctype or "tls-unique": cid})
            return resolve(a.on_challenge(sess, ch))
        return resolve(key.sign_challenge(ch, channel_id=cid, channel_id_type=ctype))

    try:
        ans = sign(chal_text, cid, ctype)
    except BaseException as e:
        if isinstance(e, (KeyboardInterrupt, SystemExit)):
            raise
        r["answer"] = err(e)
        return r
    r["answer"] = txt(ans)
    if not (isinstance(ans, str) and len(ans) == 192):
        return r
    try:
        sig, data = bytes.fromhex(ans[:128]), bytes.fromhex(ans[128:])
    except ValueError:
        return r
    pub = Ed25519PublicKey.from_public_bytes(ossl_pub_raw)

    def ok(sig, data):
        try:
            pub.verify(sig, data)
            return True
        except InvalidSignature:
            return False
    r["openssl_verifies_answer"] = ok(sig, data)
    if c.get("expected_data") is not None:
        exp = B(c["expected_data"])
        r["openssl_verifies_expected"] = ok(sig, exp)
        r["openssl_signature_of_expected"] = H(ossl_priv.sign(exp))      # Ed25519 is deterministic (RFC 8032)
    if c.get("flips"):
        acc = []
        for i in range(512):
            if ok(flip(sig, i), data):
                acc.append(["sig", i])
        for i in range(256):
            if ok(sig, flip(data, i)):
                acc.append(["data", i])
        # altering the challenge or the channel id: new signed data, new signature, old signature invalid
        same = []
        chal_raw = bytes.fromhex(chal_text)
        for i in range(256):
            a2 = sign(flip(chal_raw, i).hex(), cid, ctype)
            if a2[128:] == ans[128:] or a2[:128] == ans[:128] or ok(sig, bytes.fromhex(a2[128:])):
                same.append(["challenge", i])
            if not ok(bytes.fromhex(a2[:128]), bytes.fromhex(a2[128:])):
                same.append(["challenge-invalid", i])
        if ctype == "tls-unique" and cid is not None:
            for i in range(256):
                a2 = sign(chal_text, flip(cid, i), ctype)
                if a2[128:] == ans[128:] or a2[:128] == ans[:128] or ok(sig, bytes.fromhex(a2[128:])):
                    same.append(["channel_id", i])
        # another key must not verify
        other = Ed25519PrivateKey.from_private_bytes(hashlib.sha256(seed).digest()).public_key()
        try:
            other.verify(sig, data)
            acc.append(["other-key", 0])
        except InvalidSignature:
            pass
        r["flips"] = {"n": 512 + 256 + 256 + (256 if ctype == "tls-unique" and cid is not None else 0) + 1,
                      "accepted": acc[:5], "unchanged": same[:5]}
    return r


OPS = {"xor": op_xor, "wcs": op_wcs, "pbkdf2": op_pbkdf2, "derive": op_derive, "cra": op_cra, "totp": op_totp,
       "totp_secret": op_totp_secret, "wcs_secret": op_wcs_secret, "scram": op_scram, "cryptosign": op_cryptosign}

results = []
for case in job["cases"]:
    try:
        results.append(OPS[case["op"]](case))
    except Exception as e:  # harness/worker bug or an exception class the op did not expect
        results.append({"worker_exception": type(e).__name__, "detail": str(e)[:200]})

import importlib.metadata as md
libs = {}
for p in ("cryptography", "PyNaCl", "argon2-cffi", "passlib", "txaio"):
    try:
        libs[p] = md.version(p)
    except Exception:
        libs[p] = None
libs["independent_argon2id"] = HAVE_INDEP_ARGON
import autobahn
libs["autobahn_path"] = os.path.dirname(autobahn.__file__)
json.dump({"results": results, "libs": libs, "fw": FW}, sys.stdout)
