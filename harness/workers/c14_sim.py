"""C14 simulation core shared by the two framework workers (c14_tx.py / c14_aio.py).

Drives the REAL autobahn Component (autobahn.twisted.component / autobahn.asyncio.component) on a virtual clock.
Nothing inside the component is patched:

  * Twisted: every transport's `endpoint` is an IStreamClientEndpoint fake whose connect() records
    (virtual time, transport index) and returns a Deferred that the script resolves later;
  * asyncio: `loop.create_connection` of the virtual-time loop is stubbed the same way (index = port - 9000);
  * the "router" side is played by feeding real bytes to the real client protocol objects the component's
    factories build (WebSocket 101 / RawSocket handshake reply, WELCOME, ABORT, GOODBYE, TCP loss);
  * `random.normalvariate` (the jitter source read by _Transport.next_delay) is replaced by mu + z*sigma with the
    z values of the case, so that jittered delays are reproducible; exactness of the float arithmetic is checked
    with Fractions and reported per case (`exact`).

Events of a case (same alphabet as the Lean model Abverif.Comp):
  ["start"] ["delay"] ["stop"] ["out", <outcome>, <fatal 0/1>]
  outcome in refused hsfail abort jlost jleave mret mraise
"""
import json
import struct
import sys
import traceback
from fractions import Fraction

from vlib import ws as vws

WELCOME = [2, 1234, {"roles": {"broker": {}, "dealer": {}}, "realm": "realm1", "authid": "x", "authrole": "y",
                     "authmethod": "anonymous", "authprovider": "static"}]
ABORT = [3, {"message": "no"}, "wamp.error.no_such_realm"]
GOODBYE_REPLY = [6, {}, "wamp.close.goodbye_and_out"]
EVENTS = ["connect", "join", "ready", "leave", "disconnect"]


def frac(x):
    f = Fraction(x)
    return "%d/%d" % (f.numerator, f.denominator)


def small(x):
    """a float whose odd part is small cannot be the rounded result of an inexact product of the grid values"""
    n = Fraction(x).numerator
    while n and n % 2 == 0:
        n //= 2
    return abs(n) < (1 << 40)


class Conn:
    """one TCP connection as seen by the fake router"""

    def __init__(self, sim, idx, kind, proto, transport):
        self.sim, self.idx, self.kind, self.proto, self.transport = sim, idx, kind, proto, transport
        self.lost = False
        self.inbuf = b""     # bytes from the client not yet parsed
        self.msgs = []       # WAMP messages (JSON lists) received from the client
        self.close_seen = False
        self.hs_done = False

    # ---- bytes from the client
    def poll(self):
        data = self.transport.take()
        if not data:
            return
        self.inbuf += data
        if self.kind == "websocket":
            if not self.hs_done:
                if b"\r\n\r\n" not in self.inbuf:
                    return
                head, self.inbuf = self.inbuf.split(b"\r\n\r\n", 1)
                self.ws_key = None
                for line in head.decode("latin-1").split("\r\n"):
                    if line.lower().startswith("sec-websocket-key:"):
                        self.ws_key = line.split(":", 1)[1].strip()
                self.hs_done = True
            frames, self.inbuf = vws.parse_frames(self.inbuf)
            for f in frames:
                if f["opcode"] == 1:
                    self.msgs.append(json.loads(f["payload"].decode()))
                elif f["opcode"] == 8:
                    self.close_seen = True
        else:
            if not self.hs_done:
                if len(self.inbuf) < 4:
                    return
                self.rs_req, self.inbuf = self.inbuf[:4], self.inbuf[4:]
                self.hs_done = True
            while len(self.inbuf) >= 4:
                n = struct.unpack("!I", b"\0" + self.inbuf[1:4])[0]
                if len(self.inbuf) < 4 + n:
                    break
                self.msgs.append(json.loads(self.inbuf[4:4 + n].decode()))
                self.inbuf = self.inbuf[4 + n:]

    # ---- bytes to the client
    def feed(self, data):
        if self.lost:
            return
        if self.sim.fw == "twisted":
            self.proto.dataReceived(data)
        else:
            self.proto.data_received(data)
        self.sim.env.pump()

    def handshake_ok(self):
        self.poll()
        if self.kind == "websocket":
            assert self.ws_key, "no websocket handshake from the client"
            self.feed(("HTTP/1.1 101 Switching Protocols\r\nUpgrade: websocket\r\nConnection: Upgrade\r\n"
                       "Sec-WebSocket-Accept: %s\r\nSec-WebSocket-Protocol: wamp.2.json\r\n\r\n"
                       % vws.accept_for(self.ws_key)).encode())
        else:
            self.feed(bytes([0x7F, self.rs_req[1], 0, 0]))

    def handshake_bad(self):
        self.poll()
        if self.kind == "websocket":
            self.feed(b"HTTP/1.1 400 Bad Request\r\n\r\n")
        else:
            self.feed(bytes([0x7F, 0x10, 0, 0]))   # error reply: serializer unsupported

    def send_msg(self, msg):
        pl = json.dumps(msg).encode()
        if self.kind == "websocket":
            self.feed(vws.build_frame(1, pl))
        else:
            self.feed(struct.pack("!I", len(pl)) + pl)

    def finish_close(self, clean=True):
        """the router's side of an orderly shutdown started by the client"""
        self.poll()
        if self.kind == "websocket" and self.close_seen and clean:
            self.feed(vws.build_frame(8, struct.pack("!H", 1000)))
        self.drop(clean)

    def drop(self, clean):
        if self.lost:
            return
        self.lost = True
        if self.sim.fw == "twisted":
            from twisted.internet import error
            from twisted.python.failure import Failure
            self.proto.connectionLost(Failure(error.ConnectionDone() if clean else error.ConnectionLost()))
        else:
            self.proto.connection_lost(None if clean else ConnectionResetError("reset"))
        self.sim.env.pump()


class Sim:
    def __init__(self, fw, env, case):
        self.fw, self.env, self.case = fw, env, case
        self.attempts = []      # [time, idx]
        self.log = []           # unified observation log (encoding of Abverif.Drv.Component.parseObs)
        self.t_mark = 0.0       # virtual time at which the last external event was applied
        self.cur_idx = None     # transport of the connection made last
        self.stop_ctx = []      # what the component was doing at each stop()
        self.pending = None     # (idx, resolver) of the connect in flight
        self.done = []          # completions of the future returned by start()
        self.listener = []      # [event, session#]
        self.sessions = []      # sessions created, in order
        self.errors = []        # exceptions that left the event loop / reactor
        self.conn = None
        self.up = False
        self.cur_out = None     # outcome being played (read by main / is_fatal)
        self.fatal_flag = False
        self.exact = True
        self.zs = list(case.get("zs", []))
        self.classified = []
        self.main_calls = 0
        self._install_random()
        self._build()

    # -------------------------------------------------------------- jitter source
    def _install_random(self):
        import autobahn.wamp.component as wc
        sim = self

        if self.case.get("real_random") is not None:
            # non-dyadic grid: the real random.Random.normalvariate on a private seeded generator (the WebSocket
            # factories call random.seed() on the global one); delays are then only compared with the maximum
            import random as _r
            self.exact = False
            self._wc = wc
            self._orig_random = wc.random
            wc.random = _r.Random(self.case["real_random"])
            return

        class R:
            @staticmethod
            def normalvariate(mu, sigma):
                z = sim.zs.pop(0) if sim.zs else 0
                z = Fraction(z[0], z[1]) if isinstance(z, list) else Fraction(z)
                r = mu + float(z) * sigma
                if Fraction(mu) + z * Fraction(sigma) != Fraction(r) or not (small(mu) and small(sigma)):
                    sim.exact = False
                return r
        self._wc = wc
        self._orig_random = wc.random
        wc.random = R

    def restore(self):
        if self._wc is not None:
            self._wc.random = self._orig_random

    # -------------------------------------------------------------- component
    def _build(self):
        case = self.case
        fw = self.fw
        sim = self
        transports = []
        for i, t in enumerate(case["transports"]):
            d = {"type": t["kind"], "max_retries": t["max_retries"], "max_retry_delay": t["max_delay"],
                 "initial_retry_delay": t["initial"], "retry_delay_growth": t["growth"],
                 "retry_delay_jitter": t["jitter"]}
            if t["kind"] == "websocket":
                d["url"] = "ws://127.0.0.1:%d/ws" % (9000 + i)
                d["serializers"] = ["json"]
            else:
                d["url"] = "rs://127.0.0.1:%d" % (9000 + i)
                d["serializer"] = "json"
            if fw == "twisted":
                d["endpoint"] = self._tx_endpoint(i, t["kind"])
            else:
                d["endpoint"] = {"type": "tcp", "host": "127.0.0.1", "port": 9000 + i}
            transports.append(d)
        if fw == "twisted":
            from autobahn.twisted.component import Component
        else:
            from autobahn.asyncio.component import Component
            self._aio_stub()
        kw = {}
        if case.get("main"):
            kw["main"] = self._main
        if case.get("classifier") == "script":
            kw["is_fatal"] = self._is_fatal
        self.comp = Component(transports=transports, realm="realm1", **kw)
        base = self.comp.session_factory

        class S(base):
            def __init__(s, *a, **k):
                base.__init__(s, *a, **k)
                s._v_n = len(sim.sessions)
                s._v_idx = sim.cur_idx
                sim.sessions.append(s)
                sim.log.append("s%d.%d" % (s._v_n, s._v_idx))

            def fire(s, event, *a, **k):
                if event in EVENTS:
                    if event == "join":
                        sim.log.append("j%d" % s._v_idx)
                    sim.log.append("f%s%d" % (event[0], s._v_n))
                return base.fire(s, event, *a, **k)
        self.comp.session_factory = S
        for ev in EVENTS:
            if ev[0] in case.get("listeners", "cjrld"):
                self.comp.on(ev, self._mk_listener(ev))

    def _mk_listener(self, ev):
        def f(session, *a, **k):
            self.listener.append("%s%d" % (ev[0], session._v_n))
            self.log.append("c%s%d" % (ev[0], session._v_n))
        return f

    def _main(self, reactor, session):
        self.main_calls += 1
        o = self.cur_out
        if o == "mret":
            return None
        if o == "mraise":
            self.log.append("r%d" % session._v_idx)
            raise RuntimeError("main failed")
        # keeps running
        return self.env.txaio.create_future()

    def _is_fatal(self, e):
        self.classified.append(type(e).__name__)
        if self.fatal_flag:
            self.log.append("F%d" % self.cur_idx)
        return bool(self.fatal_flag)

    # -------------------------------------------------------------- connection fakes
    def _tx_endpoint(self, idx, kind):
        from twisted.internet import defer
        from twisted.internet.interfaces import IStreamClientEndpoint
        from zope.interface import implementer
        sim = self

        @implementer(IStreamClientEndpoint)
        class EP:
            def connect(self_, factory):
                d = defer.Deferred()
                sim.note_attempt(idx)
                factory.reactor = sim.env.clock

                def resolve(ok):
                    if not ok:
                        from twisted.internet.error import ConnectionRefusedError
                        d.errback(ConnectionRefusedError())
                        return None
                    proto = factory.buildProtocol(None)
                    tr = vws.RecTransport(sim.env)
                    proto.makeConnection(tr)
                    c = Conn(sim, idx, kind, proto, tr)
                    d.callback(proto)
                    return c
                sim.pending = (idx, resolve)
                return d
        return EP()

    def _aio_stub(self):
        sim = self
        loop = self.env.loop

        def create_connection(protocol_factory=None, host=None, port=None, **kw):
            idx = port - 9000
            kind = sim.case["transports"][idx]["kind"]
            fut = loop.create_future()
            sim.note_attempt(idx)

            def resolve(ok, early_close=False):
                if not ok:
                    fut.set_exception(ConnectionRefusedError(111, "refused"))
                    return None
                proto = protocol_factory()
                tr = vws.RecTransport(sim.env)
                proto.connection_made(tr)
                c = Conn(sim, idx, kind, proto, tr)
                if early_close:
                    # the peer has closed the connection before the connect future's callbacks run
                    # (_wrap_connection_future.on_connect_success then sees transport.is_closing())
                    tr.closed = True
                fut.set_result((tr, proto))
                return c
            sim.pending = (idx, resolve)
            return fut
        loop.create_connection = create_connection

    def note_attempt(self, idx):
        now = self.env.now()
        self.cur_idx = idx
        self.attempts.append("%d@%s" % (idx, frac(now)))
        self.log.append("a%d@%s" % (idx, frac(Fraction(now) - Fraction(self.t_mark))))

    # -------------------------------------------------------------- running
    def guard(self, fn, *a):
        try:
            return fn(*a)
        except Exception as e:
            self.errors.append(type(e).__name__)
            if self.case.get("debug"):
                traceback.print_exc()
            return None

    def pump(self):
        self.guard(self.env.pump)

    def ev_start(self):
        if getattr(self, "started", False):
            return
        self.started = True
        self.t_mark = self.env.now()
        if self.fw == "twisted":
            f = self.comp.start(self.env.clock)
        else:
            f = self.comp.start(self.env.loop)
        self.start_f = f
        self.env.txaio.add_callbacks(f, lambda r: self._done(True, None), lambda fail: self._done(False, fail))
        self.pump()

    def _done(self, ok, fail):
        self.done.append("ok" if ok else "err")
        self.done_detail = "ok" if ok else type(fail.value).__name__
        self.log.append("d1" if ok else "d0")

    def ev_delay(self):
        """let virtual time run until the pending retry delay has elapsed (a new connect shows up)"""
        if not getattr(self, "started", False) or self.pending is not None or self.up:
            return
        n0 = len(self.attempts)
        for _ in range(64):
            if len(self.attempts) > n0:
                break
            ts = self.env.pending_timers()
            if not ts:
                break
            dt = max(0.0, ts[0] - self.env.now())
            self.guard(self.env.advance, dt)
        self.pump()

    def ev_stop(self):
        if not getattr(self, "started", False):
            return
        self.t_mark = self.env.now()
        goodbye_sent = False
        if self.up and self.conn is not None:
            self.conn.poll()
            goodbye_sent = any(m[0] == 6 for m in self.conn.msgs)
        self.stop_ctx.append("connecting" if self.pending is not None else
                             ("closing" if goodbye_sent else "joined") if self.up else
                             ("done" if self.done else "waiting-or-dead"))
        self.log.append("X")
        self.guard(self.comp.stop)
        self.pump()

    def ev_sess(self, what, fatal=False):
        """events of a session that stayed up (outcome `joined`): lost | leave | goodbye"""
        c = self.conn
        if c is None or c.lost or not self.up:
            return
        c.poll()
        goodbye_sent = any(m[0] == 6 for m in c.msgs)
        self.fatal_flag = fatal
        if what == "lost":
            self.up = False
            self.t_mark = self.env.now()
            self.log.append("x%d" % c.idx)
            self.guard(c.drop, False)
        elif what == "leave":
            if goodbye_sent:
                return
            self.up = False
            self.t_mark = self.env.now()
            self.guard(self.sessions[-1].leave)
            self.pump()
            self.log.append("e%d" % c.idx)
            self.guard(c.send_msg, GOODBYE_REPLY)
            self.guard(c.finish_close, True)
        elif what == "goodbye":
            if not goodbye_sent:
                return
            self.up = False
            self.t_mark = self.env.now()
            self.log.append("e%d" % c.idx)
            self.guard(c.send_msg, GOODBYE_REPLY)
            self.guard(c.finish_close, True)
        self.pump()

    def ev_out(self, o, fatal, variant=None):
        if self.pending is None:
            return
        if o in ("mret", "mraise") and not self.case.get("main"):
            return
        idx, resolve = self.pending
        self.pending = None
        self.cur_out = o
        self.fatal_flag = fatal
        self.t_mark = self.env.now()
        if o in ("refused", "hsfail", "abort", "jlost"):
            self.log.append("x%d" % idx)
        if o == "refused":
            self.guard(resolve, False)
            self.pump()
            return
        if o == "hsfail" and variant == "early" and self.fw == "asyncio":
            c = self.guard(resolve, True, True)
            self.pump()
            if c is not None:
                self.conn = c
                self.guard(c.drop, False)
                self.pump()
            return
        c = self.guard(resolve, True)
        self.pump()
        if c is None:
            return
        self.conn = c
        if o == "hsfail":
            self.guard(c.handshake_bad)
            self.guard(c.drop, False)
            self.pump()
            return
        self.guard(c.handshake_ok)
        c.poll()
        if o == "abort":
            self.guard(c.send_msg, ABORT)
            self.guard(c.finish_close, True)
            self.pump()
            return
        self.guard(c.send_msg, WELCOME)
        self.pump()
        if o == "joined":
            self.up = True
        elif o == "jlost":
            self.guard(c.drop, False)
        elif o == "jleave":
            s = self.sessions[-1]
            self.guard(s.leave)
            self.pump()
            self.log.append("e%d" % idx)
            self.guard(c.send_msg, GOODBYE_REPLY)
            self.guard(c.finish_close, True)
        elif o == "mret":
            # main returned; leave() is scheduled with call_later(0)
            self.pump()
            c.poll()
            if any(m[0] == 6 for m in c.msgs):
                self.log.append("e%d" % idx)
                self.guard(c.send_msg, GOODBYE_REPLY)
            self.guard(c.finish_close, True)
        elif o == "mraise":
            self.guard(c.finish_close, True)
        self.pump()

    def run(self):
        for ev in self.case["events"]:
            k = ev[0]
            if k == "start":
                self.ev_start()
            elif k == "delay":
                self.ev_delay()
            elif k == "stop":
                self.ev_stop()
            elif k == "out":
                self.ev_out(ev[1], bool(ev[2]), ev[3] if len(ev) > 3 else None)
            elif k == "sess":
                self.ev_sess(ev[1], bool(ev[2]) if len(ev) > 2 else False)
        tr = []
        for t in self.comp._transports:
            tr.append("%d/%d/%d/%s/%d" % (t.connect_attempts, t.connect_sucesses, t.connect_failures,
                                          frac(t.retry_delay), 1 if t._permanent_failure else 0))
        timers = len(self.env.pending_timers())
        idle = self.pending is None and not self.up and timers == 0
        return {"attempts": self.attempts, "done": self.done, "listener": self.listener, "errors": self.errors,
                "tr": tr, "exact": self.exact, "pending": self.pending is not None, "up": self.up,
                "timers": timers, "idle": idle, "sessions": len(self.sessions), "log": self.log,
                "stop_ctx": self.stop_ctx, "done_detail": getattr(self, "done_detail", None),
                "classified": self.classified, "main_calls": self.main_calls}


def serve(fw):
    """stdin: one JSON case per line; stdout: one JSON observation per line"""
    import os
    import txaio
    import autobahn
    want = os.environ.get("VERIF_REPO")
    if want and not os.path.realpath(autobahn.__file__).startswith(os.path.realpath(want)):
        raise SystemExit("autobahn imported from %s, expected under %s" % (autobahn.__file__, want))
    env = vws.setup(fw)
    for line in sys.stdin:
        line = line.strip()
        if not line:
            continue
        case = json.loads(line)
        # fresh virtual clock per case
        if fw == "twisted":
            from twisted.internet import task
            env.clock = task.Clock()
            txaio.config.loop = env.clock
            clock = env.clock
            env.now = clock.seconds
            env.pump = lambda: clock.advance(0)

            def advance(dt, clock=clock):
                target = clock.seconds() + dt
                for _ in range(100000):
                    calls = [c.getTime() for c in clock.getDelayedCalls()]
                    nxt = min(calls) if calls else None
                    if nxt is None or nxt > target:
                        break
                    clock.advance(max(0.0, nxt - clock.seconds()))
                clock.advance(target - clock.seconds())
            env.advance = advance
            env.pending_timers = lambda clock=clock: sorted(c.getTime() for c in clock.getDelayedCalls())
        else:
            import asyncio
            loop = env.loop
            # asyncio.sleep()/wait_for() look up the *running* loop; VLoop.pump() drives _run_once() directly
            asyncio.events._set_running_loop(loop)
            for h in list(loop._scheduled):
                h.cancel()
            loop._ready.clear()
            loop._vt = 0.0
        sim = None
        try:
            sim = Sim(fw, env, case)
            out = sim.run()
        except Exception as e:
            out = {"crash": type(e).__name__ + ": " + str(e)[:300], "tb": traceback.format_exc()[-1500:]}
        finally:
            if sim is not None:
                sim.restore()
        sys.stdout.write(json.dumps(out) + "\n")
        sys.stdout.flush()
