"""C07 worker: drives real WebSocket{Server,Client}Protocol objects of one framework through the opening handshake.

stdin: {"fw": "twisted"|"asyncio", "cases": [case, ...]}      stdout: {"results": [obs, ...]}

case kinds
  srv   {"cfg": {...}, "conn": n, "onconnect": [...], "chunks": [hex, ...]}
  cli   {"cfg": {...}, "key": hex16, "chunks": [hex, ...]}             (chunks may contain the token "@ACCEPT@" hex-encoded)
  req   {"cfg": {...}, "key": hex16}                                    -> octets the client writes on connect

obs: {"written": hex, "state": n, "closed": "lose"|"abort"|"", "events": [...], "exc": "Class@func/callee"|"" ,
      "br": {hex: 0|1}, "redirect": [...], "request": hex (cli)}
"""
import json
import sys
import traceback

from vlib import ws

job = json.load(sys.stdin)
env = ws.setup(job["fw"])
m = ws._classes(env.fw)

from autobahn.websocket import protocol as P  # noqa: E402
from autobahn.websocket.types import ConnectionDeny, ConnectingRequest  # noqa: E402
from autobahn.websocket.compress import (PerMessageDeflateOffer, PerMessageDeflateOfferAccept,  # noqa: E402
                                         PerMessageDeflateResponse, PerMessageDeflateResponseAccept)

loop_errors = []
if env.fw == "asyncio":
    env.loop.set_exception_handler(lambda loop, ctx: loop_errors.append(ctx))


class _OsShim:
    """`os` as seen by autobahn.websocket.protocol, with a controllable urandom (the client nonce)"""
    key = None

    def __getattr__(self, name):
        import os
        return getattr(os, name)

    def urandom(self, n):
        import os
        if self.key is not None and n == 16:
            return self.key
        return os.urandom(n)


shim = _OsShim()
P.os = shim


def lat(b):
    return b.decode("latin-1")


def exc_key(e):
    """class @ innermost autobahn function : the call on the source line where the exception surfaced"""
    import re
    tb = traceback.extract_tb(e.__traceback__)
    site, tag = "?", "-"
    for fr in tb:
        if "/autobahn/" in fr.filename:
            site = fr.name
            m = re.search(r"([A-Za-z_][A-Za-z_0-9\.]*)\(", fr.line or "")
            tag = m.group(1) if m else "-"
    return "%s@%s:%s" % (type(e).__name__, site, tag)


def unhex(h):
    return bytes.fromhex(h) if h and h != "-" else b""


def build(role, factory, events, attrs=None):
    base = m.WebSocketServerProtocol if role == "server" else m.WebSocketClientProtocol
    factory.protocol = ws.recording_subclass(base, events)
    p = factory.buildProtocol(None) if env.fw == "twisted" else factory()
    for k, v in (attrs or {}).items():
        setattr(p, k, v)
    t = ws.RecTransport(env, trace=events)
    t.proto = p
    return p, t


def connect(p, t):
    if env.fw == "twisted":
        p.makeConnection(t)
    else:
        p.connection_made(t)
    env.pump()


def feed(p, chunks):
    """-> exception key or ''"""
    del loop_errors[:]
    for c in chunks:
        try:
            if env.fw == "twisted":
                p.dataReceived(c)
            else:
                p.data_received(c)
            env.pump()
        except Exception as e:  # leaves dataReceived / data_received
            return exc_key(e)
        if loop_errors:
            ctx = loop_errors[0]
            e = ctx.get("exception")
            return exc_key(e) if e is not None else "LoopError:" + str(ctx.get("message"))[:60]
    return ""


def fk():
    return {"reactor": env.clock} if env.fw == "twisted" else {"loop": env.loop}


def closed_kind(t):
    for e in t.log:
        if e[0] in ("lose", "abort"):
            return e[0]
    return ""


def ev_names(events):
    return [e[0] for e in events if e[0] in ("onConnect", "onOpen", "onClose", "onMessage")]


def bracket_oracle(data):
    """validity (urllib's own rule) of every text between a '[' and a later ']' in the input"""
    from urllib.parse import _check_bracketed_host
    s = lat(data)
    out = {}
    opens = [i for i, c in enumerate(s) if c == "["]
    for i in opens[:6]:
        # the text urllib would check: from after '[' to the next ']' -- or, without one, to the end of the netloc
        ends = [j for j in range(i + 1, len(s)) if s[j] in "]/?#" or s[j].isspace()][:10] + [len(s)]
        for j in ends:
            cand = s[i + 1:j]
            try:
                _check_bracketed_host(cand)
                ok = 1
            except ValueError:
                ok = 0
            out[cand.encode("latin-1").hex() or "-"] = ok
    return out


def redirect_oracle(p):
    """what parse_qs + hyperlink + int make of the query the server parsed"""
    params = getattr(p, "http_request_params", None)
    if not isinstance(params, dict):
        return ["absent"]
    if not ("redirect" in params and len(params["redirect"]) > 0):
        return ["absent"]
    import hyperlink
    try:
        url = hyperlink.URL.from_text(params["redirect"][0]).to_uri().normalize().to_text()
    except Exception as e:
        return ["bad", type(e).__name__]
    u = url.encode("utf8").hex() or "-"
    if "after" in params and len(params["after"]) > 0:
        try:
            return ["url", u, "val", int(params["after"][0])]
        except ValueError:
            return ["url", u, "bad"]
    return ["url", u, "absent"]


def srv_accept_policy(name):
    if name == "firstDeflate":
        def accept(offers):
            for o in offers:
                if isinstance(o, PerMessageDeflateOffer):
                    return PerMessageDeflateOfferAccept(o)
            return None
        return accept
    return None


def make_server(cfg, conn=1, onconnect=None):
    kw = fk()
    if "server" in cfg:
        kw["server"] = cfg["server"]
    if cfg.get("headers"):
        hd = {}
        for k, v in cfg["headers"]:
            hd.setdefault(k, []).append(v)
        kw["headers"] = {k: (v[0] if len(v) == 1 else v) for k, v in hd.items()}
    if cfg.get("externalPort"):
        kw["externalPort"] = cfg["externalPort"]
    f = m.WebSocketServerFactory(cfg.get("url", "ws://localhost:9000"), **kw)
    opts = {}
    for k in ("versions", "webStatus", "allowedOrigins", "allowNullOrigin", "maxConnections", "serveFlashSocketPolicy",
              "trustXForwardedFor"):
        if k in cfg:
            opts[k] = cfg[k]
    pol = srv_accept_policy(cfg.get("accept", ""))
    if pol:
        opts["perMessageCompressionAccept"] = pol
    # setProtocolOptions() resets allowNullOrigin to False whenever it is called without it (the factory default is True)
    opts["allowNullOrigin"] = cfg.get("allowNullOrigin", True)
    f.setProtocolOptions(**opts)
    f.countConnections = conn - 1
    events = []
    p, t = build("server", f, events)
    oc = onconnect or ["accept", None, []]

    def on_connect(request):
        if oc[0] == "deny":
            raise ConnectionDeny(oc[1], "denied")
        if oc[0] == "raises":
            raise RuntimeError("boom")
        proto = oc[1]
        hdrs = oc[2] if len(oc) > 2 else []
        if oc[0] == "accept1":      # plain value (not a tuple)
            return proto
        hd = {}
        for k, v in hdrs:
            hd.setdefault(k, []).append(v)
        return (proto, {k: (v[0] if len(v) == 1 else v) for k, v in hd.items()})
    p._v_onConnect = on_connect
    return f, p, t, events


def run_srv(case):
    f, p, t, events = make_server(case["cfg"], case.get("conn", 1), case.get("onconnect"))
    connect(p, t)
    chunks = [unhex(c) for c in case["chunks"]]
    exc = feed(p, chunks)
    data = b"".join(chunks)
    obs = {"written": t.written().hex(), "state": p.state, "closed": closed_kind(t), "events": ev_names(events),
           "exc": exc, "br": bracket_oracle(data[:4096]) if b"[" in data[:4096] else {},
           "redirect": redirect_oracle(p)}
    return obs


def cli_accept_policy(name):
    if name == "acceptAll":
        def accept(response):
            if isinstance(response, PerMessageDeflateResponse):
                return PerMessageDeflateResponseAccept(response)
            from autobahn.websocket.compress import PerMessageBzip2Response, PerMessageBzip2ResponseAccept
            if isinstance(response, PerMessageBzip2Response):
                return PerMessageBzip2ResponseAccept(response)
            return None
        return accept
    return None


def make_client(cfg, key):
    kw = fk()
    for k in ("origin", "protocols", "useragent"):
        if k in cfg:
            kw[k] = cfg[k]
    if cfg.get("headers"):
        kw["headers"] = dict(cfg["headers"])
    f = m.WebSocketClientFactory(cfg.get("url", "ws://localhost:9000"), **kw)
    opts = {}
    if "version" in cfg:
        opts["version"] = cfg["version"]
    if cfg.get("offers"):
        off = []
        for o in cfg["offers"]:
            off.append(PerMessageDeflateOffer(**o))
        opts["perMessageCompressionOffers"] = off
    pol = cli_accept_policy(cfg.get("accept", ""))
    if pol:
        opts["perMessageCompressionAccept"] = pol
    if opts:
        f.setProtocolOptions(**opts)
    events = []
    p, t = build("client", f, events)
    if "connecting" in cfg:      # onConnecting returns its own ConnectingRequest
        cr = cfg["connecting"]

        def on_connecting(td):
            return ConnectingRequest(host=cr.get("host", f.host), port=cr.get("port", f.port),
                                     resource=cr.get("resource", f.resource), headers=dict(cr.get("headers", [])),
                                     useragent=cr.get("useragent"), origin=cr.get("origin"),
                                     protocols=cr.get("protocols"))
        p.onConnecting = on_connecting
    shim.key = bytes.fromhex(key)
    try:
        connect(p, t)
    finally:
        shim.key = None
    return f, p, t, events


def run_cli(case):
    f, p, t, events = make_client(case["cfg"], case["key"])
    request = t.written()
    t.log[:] = []
    import base64
    import hashlib
    k64 = base64.b64encode(bytes.fromhex(case["key"]))
    acc = base64.b64encode(hashlib.sha1(k64 + b"258EAFA5-E914-47DA-95CA-C5AB0DC85B11").digest())
    chunks = [unhex(c) for c in case.get("chunks", [])]
    exc = feed(p, chunks) if chunks else ""
    return {"request": request.hex(), "written": t.written().hex(), "state": p.state, "closed": closed_kind(t),
            "events": ev_names(events), "exc": exc, "wskey": k64.decode(), "accept": acc.decode(),
            "proto": getattr(p, "websocket_protocol_in_use", None),
            "nexts": len(getattr(p, "websocket_extensions_in_use", []) or [])}


def run(case):
    k = case["kind"]
    if k == "srv":
        return run_srv(case)
    if k in ("cli", "req"):
        return run_cli(case)
    raise ValueError(k)


def cleanup():
    """drop the timers (opening-handshake timeouts ...) of the finished case so that the virtual clock stays small"""
    if env.fw == "twisted":
        for c in env.clock.getDelayedCalls():
            c.cancel()
    else:
        for h in list(env.loop._scheduled):
            h.cancel()
        env.pump()


res = []
for case in job["cases"]:
    try:
        res.append(run(case))
    except Exception:
        res.append({"error": traceback.format_exc()[-1500:]})
    cleanup()
json.dump({"results": res}, sys.stdout)
