"""stdin: JSON {"fw": "twisted"|"asyncio", "scripts": [{"cfg": {...}, "start": "open", "ops": [tok,...]}, ...]}
stdout: JSON {"results": [line, ...]} — one `ws.run` answer per script, from the real protocol objects."""
import json
import sys
import traceback

from vlib import ws, wsscript

job = json.load(sys.stdin)
env = ws.setup(job["fw"])
r = wsscript.Runner(env)
res = []
for sc in job["scripts"]:
    try:
        res.append(r.run(sc["cfg"], sc.get("start", "open"), sc["ops"]))
    except Exception:
        res.append("ERROR " + traceback.format_exc()[-1500:].replace("\n", " / "))
json.dump({"results": res}, sys.stdout)
