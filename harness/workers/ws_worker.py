"""stdin: JSON {"fw": "twisted"|"asyncio", "scripts": [{"cfg": {...}, "start": "open", "ops": [tok,...]}, ...]}
stdout: JSON {"results": [line, ...]} — one `ws.run` answer per script, from the real protocol objects."""
import json
import sys
import traceback

from vlib import ws, wsscript

import os
job = json.load(sys.stdin)
if os.environ.get("AUTOBAHN_USE_NVX") == "1":
    import _nvx_utf8validator, _nvx_xormasker
    assert _nvx_xormasker.__file__.startswith(sys.path[0]) or "abverif-nvx" in _nvx_xormasker.__file__, _nvx_xormasker.__file__
env = ws.setup(job["fw"])
r = wsscript.Runner(env)
res = []
for sc in job["scripts"]:
    try:
        res.append(r.run(sc["cfg"], sc.get("start", "open"), sc["ops"]))
    except Exception:
        res.append("ERROR " + traceback.format_exc()[-1500:].replace("\n", " / "))
json.dump({"results": res}, sys.stdout)
