"""C14 worker, asyncio: real autobahn.asyncio.component.Component on the virtual-time loop (see c14_sim.py)."""
from harness.workers import c14_sim

if __name__ == "__main__":
    c14_sim.serve("asyncio")
