"""C13 bulk worker: real RawSocket protocol objects of one framework, many cases per process.

stdin: JSON job, stdout: JSON result.

mode "hs": the 4-octet opening handshake, exhaustively.
  job: {mode, fw, role, sers:[ids], max_size, cases:[[o1,o2,o3,o4],..], exp_table:[str..], exp_idx:[..],
        spec:[0/1..], splits:"all8"|"rot4", request: hex|None}
  Every case is run once per split pattern on a fresh protocol object; observed outcome is rendered exactly
  like the driver's `rs.hs` answer (with `ser=-` when not accepted).
mode "stream": handshake + framed stream, fed read by read, `stringReceived` recorded (framing layer isolated).
  job: {mode, fw, role, sers, max_size, aio_max, cases:[{"chunks":[hex..]}..]}
  -> per case the observed event string (driver `rs.conn` format).
"""
import json
import math
import sys

from vlib import ws

batch = json.load(sys.stdin)       # {"fw":..., "jobs":[job, ...]}: several jobs share one process (start-up costs seconds)
fw = batch["fw"]
env = ws.setup(fw)

from autobahn.wamp import serializer as S  # noqa: E402

if fw == "twisted":
    from autobahn.twisted import rawsocket as R
else:
    from autobahn.asyncio import rawsocket as R


def mk_ser(sid):
    base = sid.split(".")[0]
    cls = {"json": S.JsonSerializer, "msgpack": S.MsgPackSerializer, "cbor": S.CBORSerializer,
           "ubjson": S.UBJSONSerializer}[base]
    return cls(batched=sid.endswith(".batched"))


class Sess:
    def __init__(self, seq):
        self.seq = seq

    def onOpen(self, t):
        self.seq.append(("open",))

    def onMessage(self, m):
        self.seq.append(("msg",))

    def onClose(self, c):
        self.seq.append(("sclose", bool(c)))


class SeqTransport(ws.RecTransport):
    """records into one sequence shared with the session, so that relative order is observable"""

    def __init__(self, env, seq):
        ws.RecTransport.__init__(self, env)
        self.seq = seq

    def write(self, data):
        self.seq.append(("write", bytes(data)))

    def loseConnection(self):
        self.seq.append(("close",))
        self.closed = True

    def abortConnection(self):
        self.seq.append(("abort",))
        self.closed = True


def run_job(job):
    role = job["role"]
    sers = [mk_ser(s) for s in job["sers"]]
    cur = {"seq": None}


    def sess_factory():
        return Sess(cur["seq"])


    if role == "server":
        factory = R.WampRawSocketServerFactory(sess_factory, serializers=sers)
    else:
        factory = R.WampRawSocketClientFactory(sess_factory, serializer=sers[0])
    if fw == "twisted" and job.get("max_size"):
        factory.setProtocolOptions(maxMessagePayloadSize=job["max_size"])

    record_strings = job["mode"] == "stream"
    if record_strings:
        base = factory.protocol

        class Rec(base):
            def stringReceived(self, payload):
                self._v_seq.append(("string", bytes(payload)))
        factory.protocol = Rec


    def new_proto():
        seq = []
        cur["seq"] = seq
        p = factory.buildProtocol(None) if fw == "twisted" else factory()
        p._v_seq = seq
        if fw == "asyncio" and job.get("aio_max"):
            exp = int(math.ceil(math.log(job["aio_max"], 2))) - 9
            p.max_length = 2 ** (exp + 9)
            p._length_exp = exp
        t = SeqTransport(env, seq)
        if fw == "twisted":
            p.makeConnection(t)
        else:
            p.connection_made(t)
        return p, t, seq


    def feed(p, t, seq, chunks):
        """deliver reads; stop after a close/abort or an escaping exception (what the frameworks do)"""
        rx = p.dataReceived if fw == "twisted" else p.data_received
        for c in chunks:
            if t.closed:
                break
            try:
                rx(c)
            except Exception as e:
                seq.append(("raised", type(e).__name__))
                break


    def maxsend_of(p):
        v = getattr(p, "_max_len_send", None) if fw == "twisted" else getattr(p, "max_length_send", None)
        return "none" if v is None else str(v)


    def render_hs(p, t, seq, skip):
        evs = seq[skip:]
        acc = sum(1 for e in evs if e[0] == "open")
        wr = b"".join(e[1] for e in evs if e[0] == "write")
        closes = [e[0] for e in evs if e[0] in ("close", "abort")]
        exc = [e[1] for e in evs if e[0] == "raised"]
        ser = "-"
        if acc:
            ser = str(p._serializer.RAWSOCKET_SERIALIZER_ID)
        s = "acc=%d ser=%s maxsend=%s wr=%s tr=%s exc=%s" % (
            acc, ser, maxsend_of(p), wr.hex() or "-", closes[0] if closes else "open", exc[0] if exc else "-")
        extra = None
        if len(closes) > 1 or acc > 1 or len(exc) > 1:
            extra = "multi:%d-closes,%d-opens" % (len(closes), acc)
        return s, extra


    COMPOSITIONS = [[4], [1, 3], [2, 2], [3, 1], [1, 1, 2], [1, 2, 1], [2, 1, 1], [1, 1, 1, 1]]
    WITH_EMPTY = [[0, 4], [0, 1, 0, 3, 0], [2, 0, 0, 2], [1, 1, 1, 0, 1, 0]]


    def cut(data, comp):
        out = []
        i = 0
        for n in comp:
            out.append(data[i:i + n])
            i += n
        return out


    out = {"evaluations": 0, "mismatch": [], "viol": {}, "dist": {}}


    def count(k, n=1):
        out["dist"][k] = out["dist"].get(k, 0) + n


    def viol(key, what, replay):
        v = out["viol"].setdefault(key, {"count": 0, "what": what, "examples": []})
        v["count"] += 1
        if len(v["examples"]) < 3:
            v["examples"].append(replay)


    if job["mode"] == "hs":
        exp_table = job["exp_table"]
        supported = set(s.RAWSOCKET_SERIALIZER_ID for s in sers)
        # the request a client writes by itself
        p, t, seq = new_proto()
        req = b"".join(e[1] for e in seq if e[0] == "write")
        out["request"] = req.hex()
        for ci, (o1, o2, o3, o4) in enumerate(job["cases"]):
            data = bytes([o1, o2, o3, o4])
            if job["splits"] == "all8":
                comps = COMPOSITIONS + WITH_EMPTY
            else:
                comps = [COMPOSITIONS[0], COMPOSITIONS[1 + ci % 3], COMPOSITIONS[4 + ci % 3], COMPOSITIONS[7],
                         WITH_EMPTY[ci % 4]]
            seen = {}
            for comp in comps:
                p, t, seq = new_proto()
                skip = len(seq)
                feed(p, t, seq, cut(data, comp))
                s, extra = render_hs(p, t, seq, skip)
                out["evaluations"] += 1
                seen.setdefault(s, comp)
                if extra:
                    viol("rs-hs/%s/%s/%s" % (fw, role, extra.split(":")[0]), "more than one close/open/exception for one handshake",
                         {"fw": fw, "role": role, "sers": job["sers"], "handshake": data.hex(), "reads": comp, "observed": s, "extra": extra})
            cause = ("bad-magic" if o1 != 0x7F else
                     "reserved-nonzero" if (o3 or o4) else
                     "serializer-error-reply" if (role == "client" and (o2 & 15) == 0) else
                     "unsupported-serializer" if (o2 & 15) not in supported else "valid")
            rep = {"fw": fw, "role": role, "sers": job["sers"], "max_size": job.get("max_size"), "handshake": data.hex()}
            if len(seen) > 1:
                viol("rs-hs/%s/%s/segmentation-dependent" % (fw, role), "outcome of the handshake depends on how it is cut into reads",
                     dict(rep, outcomes={k: v for k, v in seen.items()}))
            obs = next(iter(seen))
            count("cause:" + cause)
            f = dict(x.split("=", 1) for x in obs.split(" "))
            spec_accept = job["spec"][ci]
            if spec_accept:
                ok = f["acc"] == "1" and f["exc"] == "-" and f["tr"] == "open"
                if role == "server":
                    ok = ok and len(f["wr"]) == 8 and f["wr"][:2] == "7f" and f["wr"][4:] == "0000" \
                        and int(f["wr"][2:4], 16) & 15 == (o2 & 15)
                ok = ok and f["ser"] == str(o2 & 15) and f["maxsend"] == str(2 ** (9 + (o2 >> 4)))
                if not ok:
                    viol("rs-hs/%s/%s/valid-handshake-mishandled" % (fw, role), "a valid handshake was not accepted as the Spec says",
                         dict(rep, observed=obs))
            else:
                if f["acc"] != "0":
                    viol("rs-hs/%s/%s/%s/session-attached" % (fw, role, cause), "session attached on a handshake the Spec refuses",
                         dict(rep, observed=obs))
                elif f["exc"] != "-":
                    viol("rs-hs/%s/%s/%s/raises-%s" % (fw, role, cause, f["exc"]),
                         "refusing the handshake lets %s escape from %s (transport=%s, written=%s)" % (
                             f["exc"], "dataReceived" if fw == "twisted" else "data_received", f["tr"], f["wr"]),
                         dict(rep, observed=obs))
                elif f["tr"] == "open":
                    viol("rs-hs/%s/%s/%s/transport-left-open" % (fw, role, cause), "refused handshake does not close the transport",
                         dict(rep, observed=obs))
            exp = exp_table[job["exp_idx"][ci]]
            if obs != exp and len(seen) == 1:
                if len(out["mismatch"]) < 20:
                    out["mismatch"].append(dict(rep, observed=obs, model=exp))
                count("model-mismatch")
    else:
        res = []
        for case in job["cases"]:
            p, t, seq = new_proto()
            skip = len(seq)
            chunks = [bytes.fromhex(c) for c in case["chunks"]]
            feed(p, t, seq, chunks)
            out["evaluations"] += 1
            evs = []
            pend = b""
            for e in seq[skip:]:
                if e[0] == "write":
                    pend += e[1]
                    continue
                if pend:
                    evs.append("W:" + pend.hex())
                    pend = b""
                if e[0] == "open":
                    evs.append("A:%s:%s" % (p._serializer.RAWSOCKET_SERIALIZER_ID, maxsend_of(p)))
                elif e[0] == "string":
                    evs.append("S:" + (e[1].hex() or "-"))
                elif e[0] in ("close", "abort"):
                    evs.append("C:" + e[0])
                elif e[0] == "raised":
                    evs.append("X:" + e[1])
            if pend:
                evs.append("W:" + pend.hex())
            dead = t.closed or any(e[0] == "raised" for e in seq[skip:])
            if dead:
                phase = "dead"
            else:
                done = p._handshake_complete if fw == "twisted" else p._handshake_done
                if done:
                    phase = "est:%d" % (len(p._unprocessed) if fw == "twisted" else len(p._buffer))
                else:
                    hb = p._handshake_bytes if fw == "twisted" else p._buffer
                    phase = "hs:" + (bytes(hb).hex() or "-")
            res.append((";".join(evs) or "-") + " " + phase)
        out["observed"] = res

    return out


json.dump([run_job(j) for j in batch["jobs"]], sys.stdout)
