"""C18 worker: two REAL ApplicationSessions (callee + caller) of one framework joined through vlib.wampx.Router.

stdin: JSON {"fw", "serializers": [...], "zoo": [...], "cases": [...], "reg_cases": [...]}
stdout: JSON {"results": {serializer: [obs per case]}, "reg": [obs per reg case], "calls": n}

zoo entry   {"name", "base" (zoo name or null), "decor": uri|null, "explicit": uri|null, "ctor": kind,
             "callee": bool, "caller": bool}   (which sessions define() the class)
case        {"src": "app"|<zoo name>|"Undefined", "uri": <carried URI, for app / appsub>, "args": [...], "kwargs": {..}|null
             (null = the instance has no `kwargs` attribute), "tb": bool, "unser": bool}
observation {"error": [uri, args, kwargs] | null, "caller": ["app"|"user", uri|cls, args, kwargs] | ["pending"] |
             ["ok", ...], "router_errors": [...]}
"""
import json
import sys

from vlib import ws as vws, wampx


def build_class(entry, classes, ApplicationError, wamp_error):
    kind = entry["ctor"]
    base = classes[entry["base"]] if entry.get("base") else (ApplicationError if entry.get("appsub") else Exception)
    ns = {}
    if entry.get("appsub"):
        # subclass of ApplicationError with a fixed URI, like autobahn.wamp.exception.TypeCheckError
        fixed = entry["appsub"]

        def __init__(self, *a, **kw):
            self._ctor = (a, dict(kw))
            ApplicationError.__init__(self, fixed, *a, **kw)
        ns["__init__"] = __init__
    elif kind == "any" or kind == "falsy":
        def __init__(self, *a, **kw):
            Exception.__init__(self, *a)
            self.kwargs = kw
            self._ctor = (a, dict(kw))
        ns["__init__"] = __init__
        if kind == "falsy":
            ns["__bool__"] = lambda self: False
    elif kind == "argsonly":
        def __init__(self, *a):
            Exception.__init__(self, *a)
            self._ctor = (a, {})
        ns["__init__"] = __init__
    elif kind == "noargs":
        def __init__(self):
            Exception.__init__(self)
            self._ctor = ((), {})
        ns["__init__"] = __init__
    elif kind.startswith("arity"):
        n = int(kind[5:])
        assert n == 2

        def __init__(self, x, y):
            Exception.__init__(self, x, y)
            self._ctor = ((x, y), {})
        ns["__init__"] = __init__
    elif kind.startswith("kwonly"):
        allowed = set(kind.split("+")[1:])

        def __init__(self, **kw):
            if set(kw) - allowed:
                raise TypeError("unexpected keyword")
            Exception.__init__(self)
            self.kwargs = kw
            self._ctor = ((), dict(kw))
        ns["__init__"] = __init__
    elif kind == "raising":
        def __init__(self, *a, **kw):
            raise ValueError("constructor refuses")
        ns["__init__"] = __init__
    else:
        raise ValueError(kind)
    cls = type(entry["name"], (base,), ns)
    if entry.get("decor"):
        cls = wamp_error(entry["decor"])(cls)
    return cls


def main():
    job = json.load(sys.stdin)
    real_stdout = sys.stdout
    sys.stdout = sys.stderr
    fw = job["fw"]
    env = vws.setup(fw)
    from autobahn.wamp import types, uri as wuri
    from autobahn.wamp.exception import ApplicationError
    AS = wampx.session_class(fw)

    class Sess(AS):
        def onUserError(self, fail, msg):
            self.user_errors = getattr(self, "user_errors", 0) + 1

    classes = {}
    for e in job["zoo"]:
        classes[e["name"]] = build_class(e, classes, ApplicationError, wuri.error)

    class Undefined(Exception):
        pass

    class Unser:
        pass

    out = {"results": {}, "reg": [], "calls": 0}
    for sername in job["serializers"]:
        r = wampx.Router(env, sername)
        callee = Sess(types.ComponentConfig(realm="realm1"))
        caller = Sess(types.ComponentConfig(realm="realm1"))
        for e in job["zoo"]:
            for s, flag in ((callee, e["callee"]), (caller, e["caller"])):
                if flag:
                    if e.get("explicit"):
                        s.define(classes[e["name"]], e["explicit"])
                    else:
                        s.define(classes[e["name"]])
        r.attach("callee", callee)
        r.attach("caller", caller)
        assert callee._session_id and caller._session_id, r.errors
        nxt = {}

        def endpoint():
            raise nxt["exc"]
        callee.register(endpoint, "com.c18.raise")
        r.run()
        assert not r.errors, r.errors
        res = []
        for case in job["cases"]:
            args = [decode_val(a) for a in case["args"]]
            kwargs = None if case["kwargs"] is None else {k: decode_val(v) for k, v in case["kwargs"].items()}
            if case.get("unser"):
                args = args + [Unser()]
            if case["src"] == "app":
                exc = ApplicationError(case["uri"], *args, **(kwargs or {}))
            elif case["src"] == "Undefined":
                exc = Undefined(*args)
                if kwargs is not None:
                    exc.kwargs = dict(kwargs)
            else:
                cls = classes[case["src"]]
                if issubclass(cls, ApplicationError):
                    exc = cls(*args, **(kwargs or {}))
                else:
                    # bypass the constructor: what matters on the callee side is `.args` and `.kwargs`
                    exc = cls.__new__(cls, *args)
                    if kwargs is not None:
                        exc.kwargs = dict(kwargs)
            nxt["exc"] = exc
            callee.traceback_app = bool(case["tb"])
            mark = len(r.wire)
            nerr = len(r.errors)
            f = caller.call("com.c18.raise")
            cell = wampx.outcome_cell(env, f)
            r.run()
            out["calls"] += 1
            obs = {"error": None, "caller": ["pending"], "router_errors": [e["where"] + ":" + e["err"] for e in r.errors[nerr:]]}
            for w in r.wire[mark:]:
                if w["frm"] == "callee" and w["kind"] == "Error":
                    m = r.ser.unserialize(w["bytes"])[0]
                    obs["error"] = [m.error, canon_payload(m.args or []), canon_payload(m.kwargs or {})]
            if "err" in cell:
                e = cell["err"]
                if isinstance(e, ApplicationError) and type(e) is ApplicationError:
                    obs["caller"] = ["app", e.error, canon_payload(list(e.args)), canon_payload(getattr(e, "kwargs", {}) or {})]
                elif hasattr(e, "_ctor"):
                    obs["caller"] = ["user", type(e).__name__, canon_payload(list(e._ctor[0])), canon_payload(e._ctor[1])]
                else:
                    obs["caller"] = ["other", type(e).__name__, canon_payload(list(getattr(e, "args", []))), {}]
            elif "ok" in cell:
                obs["caller"] = ["ok", wampx.canon(cell["ok"])]
            # an exception leaving onMessage closes the transport in real life; keep the sessions usable
            res.append(obs)
        out["results"][sername] = res

    # registration sequences on fresh classes (decorator + define), one fresh session each
    from autobahn.wamp.uri import Pattern
    for rc in job.get("reg_cases", []):
        s = Sess(types.ComponentConfig(realm="realm1"))
        cl = {}
        for name, bases in rc["classes"]:
            cl[name] = type(name, tuple(cl[b] for b in bases) or (Exception,), {})
        outcomes = []
        for op in rc["ops"]:
            try:
                if op[0] == "dec":
                    wuri.error(op[2])(cl[op[1]])
                elif op[0] == "def":
                    s.define(cl[op[1]])
                else:
                    s.define(cl[op[1]], op[2])
                outcomes.append("ok")
            except Exception as e:
                outcomes.append(type(e).__name__)
        first = {c.__name__: (pats[0]._uri if pats else None) for c, pats in s._ecls_to_uri_pat.items()}
        u2c = {u: c.__name__ for u, c in s._uri_to_ecls.items()}
        w = {}
        for name in cl:
            w[name] = [p._uri for p in cl[name]._wampuris] if hasattr(cl[name], "_wampuris") else None
        bad = []
        for u in rc["uris"]:
            try:
                Pattern(u, Pattern.URI_TARGET_EXCEPTION)
            except Exception:
                bad.append(u)
        out["reg"].append({"outcomes": outcomes, "first": first, "u2c": u2c, "w": w, "bad": bad})
    real_stdout.write(json.dumps(out))


def decode_val(v):
    if isinstance(v, dict) and set(v) == {"$b"}:
        return bytes.fromhex(v["$b"])
    if isinstance(v, list):
        return [decode_val(x) for x in v]
    if isinstance(v, dict):
        return {k: decode_val(x) for k, x in v.items()}
    return v


def canon_payload(v):
    """canonical form; a forwarded traceback text becomes the marker "$TB" (texts are never compared)"""
    c = wampx.canon(v)
    if isinstance(c, dict) and isinstance(c.get("traceback"), str) and c["traceback"].startswith("Traceback (most recent call last)"):
        c["traceback"] = "$TB"
    return c


if __name__ == "__main__":
    main()
