"""C11 part B: subscribe(obj) on an object with decorated handlers — one SUBSCRIBE per decorated handler pattern
(member-name order, decoration order within a member), fresh sequential ids, the pattern's topic and options
(default match derived from the pattern type), events delivered to the bound method. Runs each framework in a child
process (txaio binds one framework per process). stdout: JSON {cases, violations}."""
import json
import subprocess
import sys


def child(fw):
    from vlib import ws, wamp as vw
    env = ws.setup(fw)
    from autobahn import wamp
    from autobahn.wamp import message, types
    viol = []
    cases = 0
    calls = []

    class Obj:
        @wamp.subscribe("com.u1")
        def on_a(self, *a, **k):
            calls.append(("on_a", self, a, sorted(k)))

        @wamp.subscribe("com.u2", options=types.SubscribeOptions(match="prefix", details_arg="d"))
        @wamp.subscribe("com.u3")
        def on_b(self, *a, **k):
            calls.append(("on_b", self, a, sorted(k)))

        @wamp.subscribe("com.<x>.u4")
        def on_c(self, *a, **k):
            calls.append(("on_c", self, a, sorted(k)))

        def plain(self):
            pass

        @wamp.register("com.u5")
        def proc(self):
            return 1

    expected = [("com.u1", {}), ("com.u3", {}), ("com.u2", {"match": "prefix"}), ("com.<x>.u4", {"match": "wildcard"})]
    for given in (None, types.SubscribeOptions(match="prefix", get_retained=True)):
        log = []
        s, t = vw.make_session(env, log.append)
        s.onOpen(t)
        env.pump()
        s.onMessage(vw.welcome_msg(5))
        env.pump()
        obj = Obj()
        n0 = len(t.sent)
        d = s.subscribe(obj, options=given)
        env.pump()
        sent = t.sent[n0:]
        cases += 1
        exp = list(expected)
        if given is not None:
            # a pattern without own options takes the options given to subscribe()
            exp = [("com.u1", {"match": "prefix", "get_retained": True}), ("com.u3", {"match": "prefix", "get_retained": True}),
                   ("com.u2", {"match": "prefix"}), ("com.<x>.u4", {"match": "prefix", "get_retained": True})]
        got = [(type(m).__name__, m.marshal()) for m in sent]
        if [g[0] for g in got] != ["Subscribe"] * len(exp):
            viol.append({"key": "decorated:subscribe-count", "what": f"{fw}: subscribe(obj) sent {[g[0] for g in got]}, "
                         f"expected {len(exp)} SUBSCRIBE", "framework": fw})
            continue
        ids = [g[1][1] for g in got]
        if ids != list(range(1, len(exp) + 1)):
            viol.append({"key": "decorated:ids", "what": f"{fw}: request ids {ids}", "framework": fw})
        for (topic, opts), g in zip(exp, got):
            if g[1][3] != topic or g[1][2] != opts:
                viol.append({"key": "decorated:subscribe-content", "what": f"{fw}: expected SUBSCRIBE({topic},{opts}), sent {g[1]}",
                             "framework": fw})
        # SUBSCRIBED in reverse order; then one event per subscription id reaches the bound method, once
        for k, rid in reversed(list(enumerate(ids))):
            s.onMessage(message.Subscribed(rid, 100 + k))
        env.pump()
        del calls[:]
        for k in range(len(ids)):
            s.onMessage(message.Event(100 + k, 1, args=[k], kwargs={"z": 1}))
            env.pump()
        cases += len(ids)
        want = [("on_a", (0,), ["z"]), ("on_b", (1,), ["z"]), ("on_b", (2,), ["d", "z"]), ("on_c", (3,), ["z"])]
        have = [(c[0], c[2], c[3]) for c in calls]
        if have != want or any(c[1] is not obj for c in calls):
            viol.append({"key": "decorated:event-delivery", "what": f"{fw}: handler calls {have}, expected {want}", "framework": fw})
    json.dump({"cases": cases, "violations": viol}, sys.stdout)


if __name__ == "__main__":
    if len(sys.argv) > 1:
        child(sys.argv[1])
    else:
        out = {"cases": 0, "violations": []}
        for fw in ("twisted", "asyncio"):
            p = subprocess.run([sys.executable, __file__, fw], capture_output=True, text=True, cwd="/")
            if p.returncode != 0:
                sys.stderr.write(p.stderr)
                sys.exit(1)
            o = json.loads(p.stdout)
            out["cases"] += o["cases"]
            out["violations"] += o["violations"]
        json.dump(out, sys.stdout)
