"""C08 worker, octet strings: arbitrary and mutated byte strings through the real transport serializers.

For each case the real `ISerializer.unserialize` outcome is recorded, together with the chunks the real code handed
to the serializer library (observed by wrapping the library's decode function) and what the library made of each
chunk.  The harness compares the chunking with the Lean batching model and the per-chunk outcome with the Lean
`unserializeOne`.
"""
import random

from vlib import wval
from harness.workers import wamp_common as wc
from harness.workers.c08_worker import BASES, clone
from autobahn.wamp import serializer as S

SERIALIZERS = ["json", "json.batched", "msgpack", "msgpack.batched", "cbor", "cbor.batched", "ubjson", "ubjson.batched"]


def make(sid):
    name, _, b = sid.partition(".")
    batched = b == "batched"
    return {"json": S.JsonSerializer, "msgpack": S.MsgPackSerializer, "cbor": S.CBORSerializer,
            "ubjson": S.UBJSONSerializer}[name](batched=batched)


class Recorder:
    """wraps the decode function of the serializer library used by serializer.py"""

    def __init__(self):
        self.rec = []
        self.orig = {}

    def wrap(self, fn):
        def w(data, *a, **kw):
            raw = data.encode("utf8") if isinstance(data, str) else bytes(data)
            try:
                r = fn(data, *a, **kw)
            except BaseException as e:  # noqa: BLE001
                self.rec.append([raw.hex() or "-", "DECODE_ERR:" + type(e).__name__])
                raise
            if wval.has_surrogate(r):
                self.rec.append([raw.hex() or "-", "SURROGATE"])
            else:
                try:
                    self.rec.append([raw.hex() or "-", wval.enc(r)])
                except RecursionError:
                    self.rec.append([raw.hex() or "-", "TOO_DEEP"])
            return r
        return w

    def install(self):
        self.orig = {"_loads": S._loads, "_unpackb": S._unpackb, "_cbor_loads": S._cbor_loads, "loadb": S.ubjson.loadb}
        S._loads = self.wrap(S._loads)
        S._unpackb = self.wrap(S._unpackb)
        S._cbor_loads = self.wrap(S._cbor_loads)
        S.ubjson.loadb = self.wrap(S.ubjson.loadb)

    def uninstall(self):
        S._loads, S._unpackb, S._cbor_loads = self.orig["_loads"], self.orig["_unpackb"], self.orig["_cbor_loads"]
        S.ubjson.loadb = self.orig["loadb"]


def mutations(rng, data, batched, is_json, n):
    """yield (label, bytes)"""
    L = len(data)
    yield ("orig", data)
    yield ("empty", b"")
    # truncations
    cuts = range(L + 1) if L <= 48 else sorted(set(rng.randrange(L + 1) for _ in range(24)) | {0, 1, 2, 3, 4, 5, L - 1})
    for c in cuts:
        yield ("trunc", data[:c])
    # bit flips
    for _ in range(n):
        if not L:
            break
        i = rng.randrange(L)
        b = bytearray(data)
        b[i] ^= 1 << rng.randrange(8)
        yield ("bitflip", bytes(b))
    # byte replacement / insertion / deletion
    for _ in range(n // 2):
        if not L:
            break
        i = rng.randrange(L)
        b = bytearray(data)
        op = rng.randrange(3)
        if op == 0:
            b[i] = rng.choice([0, 0x18, 0xFF, 0x7F, 0x80, 0xC0, 0x5B, 0x7B, 0x22, rng.randrange(256)])
        elif op == 1:
            b.insert(i, rng.choice([0, 0x18, 0xFF, 0x5B, 0x5D, 0x2C, rng.randrange(256)]))
        else:
            del b[i]
        yield ("bytemut", bytes(b))
    # appended garbage
    for g in (b"\x00", b"\x18", b"x", b"\x18\x18", b"[]", b"\x00\x00\x00\x00", b"\x00\x00\x00\x01", b"\xff\xff\xff\xff"):
        yield ("append", data + g)
        yield ("prepend", g + data)
    if batched and not is_json and L >= 4:
        # length-prefix lies
        n0 = int.from_bytes(data[:4], "big")
        for v in (0, 1, n0 - 1, n0 + 1, n0 + 4, L - 4, L - 3, L, 2 ** 31, 2 ** 32 - 1, 0x18181818):
            if 0 <= v < 2 ** 32:
                yield ("lenlie", v.to_bytes(4, "big") + data[4:])
    if batched and is_json:
        # 0x18 placement
        for _ in range(n // 2):
            i = rng.randrange(L + 1)
            yield ("sep-insert", data[:i] + b"\x18" + data[i:])
        yield ("sep-strip", data.rstrip(b"\x18"))
        yield ("sep-only", b"\x18")
        yield ("sep-double", data.replace(b"\x18", b"\x18\x18"))
    # random octets
    for _ in range(n // 2):
        yield ("random", rng.randbytes(rng.choice([1, 2, 3, 4, 5, 8, 13, 40])))


def run(job):
    rng = random.Random(job["seed"] * 1000 + job["part"])
    part, parts = job["part"], job["parts"]
    n = 12 if job["tier"] == "quick" else 400
    rec = Recorder()
    rec.install()
    out = []
    try:
        bases = []
        for cname, bl in BASES.items():
            for b in bl:
                bases.append(b)
        idx = 0
        seen = set()
        for sid in SERIALIZERS:
            ser = make(sid)
            objser = ser._serializer
            batched = sid.endswith(".batched")
            is_json = sid.startswith("json")
            picks = bases if job["tier"] != "quick" else rng.sample(bases, 14)
            for bi, b in enumerate(picks):
                idx += 1
                if idx % parts != part:
                    continue
                nb = rng.choice([1, 1, 2, 3]) if batched else 1
                group = [clone(b)] + [clone(rng.choice(bases)) for _ in range(nb - 1)]
                rec.rec = []
                data = b"".join(objser.serialize(g) for g in group)
                for label, payload in mutations(rng, data, batched, is_json, n):
                    key = (sid, payload)
                    if key in seen:
                        continue
                    seen.add(key)
                    rec.rec = []
                    try:
                        msgs = ser.unserialize(payload)
                        try:
                            real = "ok " + ",".join(wval.enc(m.marshal(), sort=True) for m in msgs) if msgs else "ok ."
                        except Exception as e:  # noqa: BLE001
                            real = "ok marshal-raises:" + type(e).__name__
                    except BaseException as e:  # noqa: BLE001
                        if isinstance(e, (KeyboardInterrupt, SystemExit)):
                            raise
                        fn, line = wc.site_of(e)
                        real = "err " + type(e).__name__
                    out.append({"ser": sid, "label": label, "payload": payload.hex() or "-", "real": real,
                                "chunks": rec.rec})
    finally:
        rec.uninstall()
    return out
