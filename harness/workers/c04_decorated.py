"""C04 part B: register(obj) on an object with decorated endpoints — one REGISTER per decorated procedure pattern
(member-name order), fresh sequential ids, the pattern's procedure URI and "faithfully the given options": a pattern
with its own RegisterOptions sends exactly those, a pattern without sends the options given to register() (or none);
the options of one endpoint never reach another. Then every pending result completes once with its own REGISTERED, and
an INVOCATION reaches the bound method with exactly the arguments its own options ask for. Runs each framework in a
child process. stdout: JSON {cases, violations}."""
import json
import subprocess
import sys


def child(fw):
    from vlib import ws, wamp as vw
    env = ws.setup(fw)
    from autobahn import wamp
    from autobahn.wamp import message, types
    viol = []
    cases = 0
    calls = []

    class Obj:
        @wamp.register("com.p1", options=types.RegisterOptions(match="prefix", invoke="roundrobin", details_arg="d"))
        def a_first(self, *a, **k):
            calls.append(("a_first", self, a, sorted(k)))
            return 1

        @wamp.register("com.p2")
        def b_plain(self, *a, **k):
            calls.append(("b_plain", self, a, sorted(k)))
            return 2

        @wamp.register("com.p3", options=types.RegisterOptions(invoke="last"))
        def c_own(self, *a, **k):
            calls.append(("c_own", self, a, sorted(k)))
            return 3

        @wamp.register("com.p4")
        def d_plain(self, *a, **k):
            calls.append(("d_plain", self, a, sorted(k)))
            return 4

        def plain(self):
            pass

        @wamp.subscribe("com.t")
        def on_t(self):
            pass

    for given, gopts in ((None, {}), (types.RegisterOptions(invoke="first"), {"invoke": "first"})):
        log = []
        s, t = vw.make_session(env, log.append)
        s.onOpen(t)
        env.pump()
        s.onMessage(vw.welcome_msg(5))
        env.pump()
        obj = Obj()
        n0 = len(t.sent)
        d = s.register(obj, options=given)
        env.pump()
        sent = t.sent[n0:]
        cases += 1
        exp = [("com.p1", {"match": "prefix", "invoke": "roundrobin"}), ("com.p2", gopts), ("com.p3", {"invoke": "last"}),
               ("com.p4", gopts)]
        got = [(type(m).__name__, m.marshal()) for m in sent]
        if [g[0] for g in got] != ["Register"] * len(exp):
            viol.append({"key": "decorated:register-count", "what": f"{fw}: register(obj) sent {[g[0] for g in got]}, "
                         f"expected {len(exp)} REGISTER", "framework": fw})
            continue
        ids = [g[1][1] for g in got]
        if ids != list(range(1, len(exp) + 1)):
            viol.append({"key": "decorated:ids", "what": f"{fw}: request ids {ids}", "framework": fw})
        for (proc, opts), g in zip(exp, got):
            if g[1][3] != proc or g[1][2] != opts:
                viol.append({"key": "decorated:register-content", "what": f"{fw}: register(obj, options={gopts}): expected "
                             f"REGISTER({proc},{opts}), sent {g[1]} (options of another endpoint must not leak)", "framework": fw})
        # REGISTERED in reverse order; then one invocation per registration reaches the bound method with its own arguments
        for k, rid in reversed(list(enumerate(ids))):
            s.onMessage(message.Registered(rid, 200 + k))
        env.pump()
        del calls[:]
        n1 = len(t.sent)
        for k in range(len(ids)):
            s.onMessage(message.Invocation(900 + k, 200 + k, args=[k], kwargs={"z": 1}))
            env.pump()
        cases += len(ids)
        want = [("a_first", (0,), ["d", "z"]), ("b_plain", (1,), ["z"]), ("c_own", (2,), ["z"]), ("d_plain", (3,), ["z"])]
        have = [(c[0], c[2], c[3]) for c in calls]
        if have != want or any(c[1] is not obj for c in calls):
            viol.append({"key": "decorated:invocation-delivery", "what": f"{fw}: endpoint calls {have}, expected {want}", "framework": fw})
        replies = [(type(m).__name__, m.marshal()[1:3]) for m in t.sent[n1:]]
        if [r[0] for r in replies] != ["Yield"] * len(ids):
            viol.append({"key": "decorated:invocation-reply", "what": f"{fw}: replies {replies}, expected one YIELD each", "framework": fw})
    json.dump({"cases": cases, "violations": viol}, sys.stdout)


if __name__ == "__main__":
    if len(sys.argv) > 1:
        child(sys.argv[1])
    else:
        out = {"cases": 0, "violations": []}
        for fw in ("twisted", "asyncio"):
            p = subprocess.run([sys.executable, __file__, fw], capture_output=True, text=True, cwd="/")
            if p.returncode != 0:
                sys.stderr.write(p.stderr)
                sys.exit(1)
            o = json.loads(p.stdout)
            out["cases"] += o["cases"]
            out["violations"] += o["violations"]
        json.dump(out, sys.stdout)
