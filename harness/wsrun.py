"""run ws scripts on the real code (both frameworks, parallel workers) and on the Lean model; compare."""
import json
import os
import subprocess
from concurrent.futures import ThreadPoolExecutor
from pathlib import Path

from vlib import core

W = Path(__file__).parent / "workers"
SEC = 1048576
DEFAULT_CFG = dict(srv=1, rm=1, am=0, mc=1, ms=0, ap=1, fbd=1, u8=1, echo=0, mf=0, mm=0, af=0, pmce=0,
                   cht=SEC, sdt=SEC, oht=5 * SEC, pi=0, pt=0, ps=12, pr=1, aio=0)


def cfg_token(cfg):
    c = dict(DEFAULT_CFG)
    c.update(cfg)
    return ",".join(f"{k}={int(v)}" for k, v in c.items())


def reorder_cr(line):
    out = []
    for seg in line.split("|"):
        body, _, st = seg.rpartition("@")
        items = [i for i in body.split(",") if i] if body else []
        items = [i for i in items if i != "cr"] + [i for i in items if i == "cr"]
        out.append(",".join(items) + "@" + st)
    return "|".join(out)


class Nvx:
    """NVX C sources of /repo compiled into a scratch directory (removed on exit)"""

    def __enter__(self):
        import tempfile
        self.dir = Path(tempfile.mkdtemp(prefix="abverif-nvx-"))
        core.build_nvx(self.dir)
        return str(self.dir)

    def __exit__(self, *a):
        import shutil
        shutil.rmtree(self.dir, ignore_errors=True)


def run_impl(scripts, fw, nproc=8, env_extra=None, timeout=3000, nvx_dir=None):
    """-> list of answer lines (one per script) from the real protocol objects of framework `fw`"""
    if not scripts:
        return []
    nproc = max(1, min(nproc, len(scripts)))
    parts = [scripts[i::nproc] for i in range(nproc)]

    def one(part):
        e = dict(os.environ)
        e["PYTHONPATH"] = os.pathsep.join([str(core.REPO / "src"), str(core.VERIF)])
        e["AUTOBAHN_VERIF"] = "1"
        if nvx_dir:
            e["PYTHONPATH"] = nvx_dir + os.pathsep + e["PYTHONPATH"]
            e["AUTOBAHN_USE_NVX"] = "1"
        else:
            e["AUTOBAHN_USE_NVX"] = "0"
        if env_extra:
            e.update(env_extra)
        p = subprocess.run([core.PY, str(W / "ws_worker.py")], input=json.dumps({"fw": fw, "scripts": part}),
                           capture_output=True, text=True, env=e, cwd="/", timeout=timeout)
        if p.returncode != 0:
            raise RuntimeError("ws_worker failed: " + p.stderr[-2000:])
        return json.loads(p.stdout)["results"]
    with ThreadPoolExecutor(nproc) as ex:
        outs = list(ex.map(one, parts))
    res = [None] * len(scripts)
    for i, o in enumerate(outs):
        for j, line in enumerate(o):
            res[i + j * nproc] = line
    return res


def run_model(driver, scripts, fw="twisted"):
    aio = {"aio": int(fw == "asyncio")}
    out = driver.run([f"ws.run {cfg_token(dict(s['cfg'], **aio))} {s.get('start', 'open')} " + " ".join(s["ops"]) for s in scripts])
    return [reorder_cr(o) for o in out] if fw == "asyncio" else out


def first_diff(impl_line, model_line):
    a, b = impl_line.split("|"), model_line.split("|")
    for i, (x, y) in enumerate(zip(a, b)):
        if x != y:
            return i, x, y
    if len(a) != len(b):
        return min(len(a), len(b)), "<len %d>" % len(a), "<len %d>" % len(b)
    return None


def parse_line(line):
    """answer line -> list over ops of (list of items, state letter)"""
    out = []
    for seg in line.split("|"):
        body, _, st = seg.rpartition("@")
        out.append(([i for i in body.split(",") if i] if body else [], st))
    return out
