"""run ws scripts on the real code (both frameworks, parallel workers) and on the Lean model; compare."""
import json
import os
import subprocess
from concurrent.futures import ThreadPoolExecutor
from pathlib import Path

from vlib import core

W = Path(__file__).parent / "workers"
SEC = 1048576
DEFAULT_CFG = dict(srv=1, rm=1, am=0, mc=1, ms=0, ap=1, fbd=1, u8=1, echo=0, mf=0, mm=0, af=0, pmce=0,
                   cht=SEC, sdt=SEC, oht=5 * SEC, pi=0, pt=0, ps=12, pr=1, aio=0)


def cfg_token(cfg):
    c = dict(DEFAULT_CFG)
    c.update(cfg)
    return ",".join(f"{k}={int(v)}" for k, v in c.items())


def reorder_cr(line):
    out = []
    for seg in line.split("|"):
        body, _, st = seg.rpartition("@")
        items = [i for i in body.split(",") if i] if body else []
        items = [i for i in items if i != "cr"] + [i for i in items if i == "cr"]
        out.append(",".join(items) + "@" + st)
    return "|".join(out)


class Nvx:
    """NVX C sources of /repo compiled into a scratch directory (removed on exit)"""

    def __enter__(self):
        import tempfile
        self.dir = Path(tempfile.mkdtemp(prefix="abverif-nvx-"))
        core.build_nvx(self.dir)
        return str(self.dir)

    def __exit__(self, *a):
        import shutil
        shutil.rmtree(self.dir, ignore_errors=True)


def run_impl(scripts, fw, nproc=8, env_extra=None, timeout=3000, nvx_dir=None):
    """-> list of answer lines (one per script) from the real protocol objects of framework `fw`"""
    if not scripts:
        return []
    nproc = max(1, min(nproc, len(scripts)))
    parts = [scripts[i::nproc] for i in range(nproc)]

    def one(part):
        e = dict(os.environ)
        e["PYTHONPATH"] = os.pathsep.join([str(core.REPO / "src"), str(core.VERIF)])
        e["AUTOBAHN_VERIF"] = "1"
        if nvx_dir:
            e["PYTHONPATH"] = nvx_dir + os.pathsep + e["PYTHONPATH"]
            e["AUTOBAHN_USE_NVX"] = "1"
        else:
            e["AUTOBAHN_USE_NVX"] = "0"
        if env_extra:
            e.update(env_extra)
        p = subprocess.run([core.PY, str(W / "ws_worker.py")], input=json.dumps({"fw": fw, "scripts": part}),
                           capture_output=True, text=True, env=e, cwd="/", timeout=timeout)
        if p.returncode != 0:
            raise RuntimeError("ws_worker failed: " + p.stderr[-2000:])
        return json.loads(p.stdout)["results"]
    with ThreadPoolExecutor(nproc) as ex:
        outs = list(ex.map(one, parts))
    res = [None] * len(scripts)
    for i, o in enumerate(outs):
        for j, line in enumerate(o):
            res[i + j * nproc] = line
    return res


def stabilise(scripts, fw, impl, model, notes=None, nvx_dir=None, skip=None, limit=40):
    """Order-dependence filter.  A worker process runs hundreds of scripts on one (virtual) event loop; very rarely —
    seen on asyncio under heavy machine load — an outcome inside such a run differs from the outcome of the same
    script in a fresh process.  Scripts whose implementation answer differs from the model's are therefore re-run, each
    alone in a fresh process; if the answer changes, the fresh one is taken (and the incident noted).  A genuine
    difference is deterministic and survives the re-run."""
    sus = [i for i, (a, b) in enumerate(zip(impl, model)) if a != b and not (skip and skip[i])]
    if not sus or len(sus) > limit:        # many differences: not a flake, do not spend the time
        return impl
    out = list(impl)
    for i in sus:
        a2 = run_impl([scripts[i]], fw, nproc=1, nvx_dir=nvx_dir)[0]
        if a2 != impl[i]:
            out[i] = a2
            if notes is not None:
                notes.append(f"{fw}: outcome inside a long worker run not confirmed in a fresh process (order-dependent "
                             f"harness artefact; the fresh outcome is used): {impl[i][:80]} vs {a2[:80]}")
    return out


def run_model(driver, scripts, fw="twisted"):
    aio = {"aio": int(fw == "asyncio")}
    out = driver.run([f"ws.run {cfg_token(dict(s['cfg'], **aio))} {s.get('start', 'open')} " + " ".join(s["ops"]) for s in scripts])
    return [reorder_cr(o) for o in out] if fw == "asyncio" else out


def run_model_sentops(driver, scripts, fw="twisted"):
    """the model's history variables after each script: (sentOps as int list, number of close frames recorded in closeSent);
    None for a script the driver rejects"""
    aio = {"aio": int(fw == "asyncio")}
    out = driver.run([f"ws.ops {cfg_token(dict(s['cfg'], **aio))} {s.get('start', 'open')} " + " ".join(s["ops"]) for s in scripts])
    res = []
    for o in out:
        parts = o.split("@")
        if o.startswith("ERROR") or len(parts) != 3:
            res.append(None)
        else:
            res.append(([int(x) for x in parts[0].split(",") if x], int(parts[2])))
    return res


def first_diff(impl_line, model_line):
    a, b = impl_line.split("|"), model_line.split("|")
    for i, (x, y) in enumerate(zip(a, b)):
        if x != y:
            return i, x, y
    if len(a) != len(b):
        return min(len(a), len(b)), "<len %d>" % len(a), "<len %d>" % len(b)
    return None


def parse_line(line):
    """answer line -> list over ops of (list of items, state letter)"""
    out = []
    for seg in line.split("|"):
        body, _, st = seg.rpartition("@")
        out.append(([i for i in body.split(",") if i] if body else [], st))
    return out
