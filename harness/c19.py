"""C19 — authentication signatures interoperate and mutual authentication is enforced.

Layers (FRAMEWORK.md): Spec = the executable Lean definitions `Abverif.Auth.*` over the Lean reference
SHA-1/SHA-256/HMAC/PBKDF2/Base64/Base32 (`Abverif/Model/Crypto`, kernel-evaluated on the RFC vectors in
`Model/Crypto/Vectors/*.lean`), run through the compiled driver (`auth.*` ops). A second, independent reference is
Python's hashlib/hmac/base64 in this (stdlib-only) process. Implementation = the real functions of
autobahn/wamp/auth.py, wamp/cryptosign.py and util.xor, run by harness/workers/c19_worker.py, which also plays the
independent counterpart where third-party primitives are involved (OpenSSL Ed25519 verifier/signer against the
libsodium signer; OpenSSL Argon2id against argon2-cffi).

run():
  0. reference self-test: the long RFC vectors the kernel does not evaluate (SHA of 640 octets and of 10^6 'a',
     PBKDF2 with 4096 iterations — RFC 6070 / RFC 7914) through the driver;
  1. generate cases from ctx.rng (see Result.rule);
  2. driver pre-pass for the cryptosign signed data, then the workers (several processes, Twisted and asyncio);
  3. every observable is compared with the Lean Spec AND with hashlib; Lean != hashlib is reported as a broken
     correspondence (the references disagree), implementation != Spec as a Violation with the case as replay;
  4. alteration checks: every single-bit alteration of each SCRAM server signature (octets and base64 text), of each
     Ed25519 signature / signed data / challenge / channel id, of WAMP-CRA keys, challenges, secrets, salts, and of
     TOTP tickets must give a rejection or a different signature.

PBKDF2 through the Lean driver: in the thorough tier all cases except two thirds of those with a secret longer than the HMAC
block (65 octets, 1 KiB) at 4096 iterations; in the quick tier every case whose cost (iterations x blocks x long-key factor) is <= 2000 and every 5th of the
rest — hashlib covers all of them in both tiers.

Self-test 2026-09-23 (single edits in a scratch copy of /repo/src, `VERIF_REPO=/tmp/c19mut ./check C19 --tier quick`; every
exit 1 came with concrete replay cases (the case dict of the first failing input per key); a replay of M5's case gives exit 1
on the mutated copy and exit 0 on /repo):
  M1  compute_wcs: hashlib.sha256 -> sha1                      exit 1  wcs-differs-from-base64-hmac-sha256, cra-signature-differs-from-wamp-cra
  M2  compute_totp: interval = -offset + ...                   exit 1  totp-code-differs-from-rfc6238, check-totp-rejects-inside-window
  M3  truncation mask 0x7FFFFFFF -> 0xFFFFFFFF                 exit 1  totp-code-differs-from-rfc6238, check-totp-rejects-inside-window
  M4  on_welcome: comparison skipped (if False and ...)        exit 1  scram-welcome-accepts-wrong-server-signature
  M5  on_welcome: server_signature.startswith(alleged)         exit 1  scram-welcome-accepts-wrong-server-signature (empty / prefix16 / prefix31)
  M6  client key derived with b"Server Key"                    exit 1  scram-client-proof-differs, scram-proof-rejected-by-server-with-same-salted-password
  M7  cryptosign: tls-unique branch signs challenge_raw        exit 1  cryptosign-signed-data-differs-channel-binding, cryptosign-signature-rejected-by-openssl-ed25519, cryptosign-alteration-same-signature, cryptosign-answer-format
  M8  check_totp: offsets [0, 1, -1, 2]                        exit 1  check-totp-accepts-outside-window
  M9  util.xor leaves the last octet                           exit 1  xor-differs-from-octetwise-xor, cryptosign-signed-data-differs-channel-binding, scram-client-proof-differs, ...
  M10 derive_key without .strip()                              exit 1  derive-key-differs-from-base64-pbkdf2, cra-signature-differs-from-wamp-cra
  M11 cryptosign answer = data_hex + signature_hex             exit 1  cryptosign-signed-data-differs, cryptosign-signature-rejected-by-openssl-ed25519, cryptosign-answer-format
  M12 TOTP offset nibble from digest[0]                        exit 1  totp-code-differs-from-rfc6238, check-totp-rejects-inside-window
  M13 WAMP-CRA salted key = raw PBKDF2 octets (not base64)     exit 1  cra-signature-differs-from-wamp-cra
  M14 server key derived with b"Client Key"                    exit 1  scram-welcome-rejects-genuine-server-signature, scram-welcome-accepts-wrong-server-signature
  M15 pbkdf2: iterations + 1                                   exit 1  pbkdf2-differs-from-pbkdf2-hmac-sha256, derive-key-differs-from-base64-pbkdf2, cra-signature-differs-from-wamp-cra
  M16 auth message without the channel binding                 exit 1  scram-auth-message-differs, scram-client-proof-differs, scram-proof-rejected-by-server-with-same-salted-password
  M17 check_totp: offsets [0, 1]                               exit 1  check-totp-rejects-inside-window, check-totp-outcome
  M18 on_welcome: compare only if len(alleged) == 32           exit 1  scram-welcome-accepts-wrong-server-signature
  H1  compute_wcs via hmac.digest / base64.b64encode           exit 0
  H2  check_totp as any(...)                                   exit 0
  H3  on_welcome compares bytes with ==                        exit 0
  S1  util.xor as integer XOR with res.to_bytes((res.bit_length()+7)//8) (independently seeded; drops leading zero octets)
      MISSED by the first version (random operands never share a leading octet). Now exit 1 through the boundary strata:
      xor-result-length-differs / xor-differs-from-octetwise-xor (xor 'C' 'C' -> b''), cryptosign-answer-length-differs (190 hex
      characters), scram-proof-length-differs / scram-client-proof-differs (31-octet proof, corpus/C19/scram-proof-leading-zero-1a)
(the KNOWN-FINDING lines of the open findings are printed in every run, mutated or not)

Repairs 2026-09-23 (fix: commits in /repo, see known_findings.d/C19.jsonl): kdf='pbkdf2' decodes the salt (SaltedPassword =
PBKDF2-HMAC-SHA256(password, b64decode(salt), i, 32)); the auth message is encoded as UTF-8. Model, theorems and oracle follow the
repaired code: the Spec of the PBKDF2 flavour is Scram.saltedPassword .pbkdf2 (driver op auth.scram.kdf) with hashlib as second
reference, its proof must be accepted by an RFC 5802 server built from the raw PBKDF2 output; the auth message must be the UTF-8
octets (Lean RFC 3629 encoder, driver op auth.scram.am on code points) for non-ASCII authid / nonce / binding, and only a lone
surrogate may raise. Against the unrepaired tree (/repo at 5c8d9c57) the check exits 1 with scram-pbkdf2-kdf-raises-ValueError,
scram-non-ascii-authid-raises-UnicodeEncodeError and scram-non-ascii-challenge-field-raises-UnicodeEncodeError (same .encode call).
Self-test of the repaired paths (single edits in a copy of the repaired tree, quick tier):
  M19 pbkdf2 branch: salt.encode("ascii") instead of b64decode   exit 1  scram-pbkdf2-salted-password-differs-from-pbkdf2-hmac-sha256,
                                                                         scram-proof-rejected-by-server-with-same-salted-password
  M20 auth message .encode("latin1")                              exit 1  scram-auth-message-differs, scram-client-proof-differs,
                                                                         scram-non-ascii-authid-raises-UnicodeEncodeError (code points > 255)
  corpus/C19/regress-*.json replayed alone: exit 0 on the repaired tree, exit 1 on 5c8d9c57.
Still open (interoperability-defining, see the entries): Argon2id salted password = base64 text of the tag; password not SASLprepped.
"""
import base64
import hashlib
import hmac
import json
import struct
import subprocess
import os
from concurrent.futures import ThreadPoolExecutor
from pathlib import Path

from vlib import core

PROP = "C19"
PROOF_MODULES = ["Abverif.Proofs.C19", "Abverif.Proofs.Lemmas.C19Prims", "Abverif.Proofs.Lemmas.C19Bytes",
                 "Abverif.Model.Crypto.Vectors.Hash", "Abverif.Model.Crypto.Vectors.Mac", "Abverif.Model.Crypto.Vectors.Kdf",
                 "Abverif.Model.Crypto.Vectors.Hotp", "Abverif.Model.Crypto.Vectors.Totp", "Abverif.Model.Crypto.Vectors.Codec"]
TRANSLATORS = []
TRUSTED = [
    "Lean 4.33 kernel; axioms of every theorem audited to be within {propext, Classical.choice, Quot.sound}",
    "hand-written Lean models Abverif/Model/Auth.lean (compute_wcs, pbkdf2, derive_key, AuthWampCra.on_challenge, "
    "compute_totp, check_totp, AuthScram.on_challenge/on_welcome over abstract hash/HMAC, the KDF selection with the "
    "PBKDF2 flavour concrete and Argon2id abstract, the UTF-8 encoding of the auth message via the RFC 3629 encoder of "
    "Model/Utf8Spec.lean, _format_challenge, _sign_challenge over an abstract signer, util.xor) — tied to the code only "
    "by the differential run",
    "Lean reference SHA-1/SHA-256/HMAC/PBKDF2/Base64/Base32/hex: NOT proved equal to OpenSSL/CPython; kernel-evaluated "
    "on RFC 3174/6234/4231/2202/6070/7914/4648/4226/6238 vectors and compared on every generated case with hashlib",
    "third-party primitives, exercised not verified: OpenSSL (PBKDF2, Ed25519, Argon2id via `cryptography`), libsodium "
    "(PyNaCl), argon2-cffi, passlib.saslprep, CPython binascii/base64/hmac/struct",
    "worker stubs: time.time and os.urandom replaced by constants; a session object with .log and "
    "._transport.transport_details.channel_id",
]
ASSUMPTIONS = [
    "cryptographic hardness (collision resistance, unforgeability) is not part of any theorem; 'a different key or "
    "message gives a different MAC/signature' is observed on the generated alterations, not proved",
    "negative or >= 2^31 iterations/keylen (the Rust binding panics there) are outside the model",
]
W = Path(__file__).parent / "workers"
MANIFEST_ENTRY = {
    "technique": "Lean 4 theorems for the algebraic layer (all inputs, arbitrary hash/HMAC/signature functions) + "
                 "executable Lean reference primitives kernel-evaluated on RFC vectors + differential run of the real "
                 "functions against the Lean reference, hashlib, OpenSSL Ed25519 and OpenSSL Argon2id, with exhaustive "
                 "single-bit alteration of every signature",
    "text": "Proved in Lean for all inputs: util.xor laws (length, involution, commutativity, cancellation); SCRAM for ANY "
            "hash/HMAC: the server recovers ClientKey from the client's proof and accepts, a different proof yields a "
            "different key; the exact auth-message concatenation and its injectivity in authid/nonces/salt/iterations/"
            "binding for comma-free fields (auth_message_injective carries the CommaFree hypotheses: the format itself is ambiguous otherwise - authid a,r=x with nonce y reads like authid a with nonce x,r=y); on_welcome accepts iff the leniently base64-decoded alleged signature equals "
            "HMAC(HMAC(sp,'Server Key'),am), rejects every single-bit alteration and every other length; base64/hex round "
            "trips of the CPython decoders; TOTP = 6 digits of DT(HMAC-SHA1(k,c)) mod 10^6 and check_totp = window "
            "{c-1,c,c+1}; compute_wcs = base64(HMAC-SHA256), derive_key = base64(PBKDF2-HMAC-SHA256) with exact output "
            "lengths; cryptosign signs challenge XOR channel-id (tls-unique) or the challenge, answers hex(sig)++hex(data), "
            "any correct signature scheme's verifier accepts it and a router with another channel id does not. "
            "The primitives (SHA-1/256, HMAC, PBKDF2, Ed25519, Argon2id) are TRUSTED and only differentially tested: the "
            "real functions agree with the Lean reference and with hashlib / OpenSSL on all generated secrets (non-ASCII, "
            "empty, 1 KiB), salts of 0..64 octets, iterations {1,2,1000,4096}, key lengths {1,16,20,32,33,64}, challenges, "
            "channel ids, and all single-bit alterations are rejected. WAMP-SCRAM after the two repairs: proved that the "
            "auth message is the UTF-8 encoding (RFC 3629 encoder) of n=..,r=..,r=..,s=..,i=..,c=..,r=.. for every text "
            "without lone surrogates, unchanged for ASCII text, and that on_challenge then always answers; proved that the "
            "PBKDF2 flavour derives SaltedPassword = PBKDF2-HMAC-SHA256(password, base64-decoded salt, i, 32), fails only for an "
            "undecodable / non-ASCII salt text or 0 iterations, and that an RFC 5802 server holding keys derived from that "
            "value accepts the proof and has its signature accepted; both checked on the real code against the Lean "
            "reference and hashlib (salts of 0..64 octets, lenient base64 forms, iterations {1,2,1000,4096}, non-ASCII authid, "
            "nonce and channel binding, lone surrogates). Open findings: the Argon2id salted password is the base64 text of "
            "the tag and the password is not SASLprepped, so an RFC 5802 / WAMP-SCRAM server built from the raw tag / the "
            "normalized password rejects the proof (left as is: the convention is what deployed routers store).",
    "note": "Level: proof for the algebraic layer only. No theorem speaks about OpenSSL, libsodium or argon2; equality of "
            "the Lean reference with them is evidence from vectors and differential runs. Cryptographic strength is out of "
            "scope. Argon2id independent implementation: cryptography/OpenSSL (not the argon2-cffi backend autobahn uses).",
}

ITERS = [1, 2, 1000, 4096]
KEYLENS = [1, 16, 20, 32, 33, 64]
RFC_TOTP_KEY = b"12345678901234567890"
# RFC 6238 appendix B, SHA-1 rows: time -> low six digits of the 8-digit value
RFC6238_ROWS = {"59": "287082", "1111111109": "081804", "1111111111": "050471", "1234567890": "005924",
                "2000000000": "279037", "20000000000": "353130"}


def hx(b):
    return b.hex() or "-"


def th(s):
    """text -> hex of UTF-8 (worker side)"""
    return s.encode("utf8").hex()


def cps(s):
    """text -> octets of its code points for the Lean model (code points > 255 become 255: all >= 128 behave alike)"""
    return bytes(min(ord(c), 255) for c in s)


def cpl(s):
    """str -> code point list token of the line protocol (`str` arguments that may hold any character)"""
    return ".".join(str(ord(c)) for c in s) or "-"


def lean_text(ans):
    """driver text token -> str"""
    return "" if ans == "-" else ans


def run_driver_parallel(lines, nproc=12):
    """lines -> answers, split round-robin over several driver processes"""
    if not lines:
        return []
    n = max(1, min(nproc, len(lines) // 50 + 1))
    chunks = [lines[i::n] for i in range(n)]
    with ThreadPoolExecutor(n) as ex:
        outs = list(ex.map(lambda ch: core.Driver().run(ch, timeout=3000), chunks))
    res = [None] * len(lines)
    for i, o in enumerate(outs):
        res[i::n] = o
    return res


def run_worker(cases, fw):
    e = dict(os.environ)
    e["PYTHONPATH"] = os.pathsep.join([str(core.REPO / "src"), str(core.VERIF)])
    e.setdefault("PYTHONHASHSEED", "0")
    p = subprocess.run([core.PY, "-W", "ignore", str(W / "c19_worker.py")], input=json.dumps({"fw": fw, "cases": cases}),
                       env=e, capture_output=True, text=True, cwd="/", timeout=3000)
    if p.returncode != 0:
        raise RuntimeError("c19 worker failed: " + p.stderr[-2000:])
    return json.loads(p.stdout)


# ------------------------------------------------------------------------------------------- references (hashlib)

def ref_hotp(key, counter):
    dg = hmac.new(key, struct.pack(">Q", counter), hashlib.sha1).digest()
    o = dg[19] & 15
    return "%06d" % ((struct.unpack(">I", dg[o:o + 4])[0] & 0x7FFFFFFF) % 1000000)


def ref_wcs(key, ch):
    return base64.b64encode(hmac.new(key, ch, hashlib.sha256).digest()).decode()


# ------------------------------------------------------------------------------------------- generators

def secrets_pool(rng):
    return [b"", b"secret", "pässwörd✓\U0001f511".encode(), rng.randbytes(16), rng.randbytes(64),
            rng.randbytes(65), rng.randbytes(1024)]


def text_pool(rng):
    """UTF-8-valid secrets for the str-typed APIs"""
    return ["", "secret", "pässwörd✓\U0001f511", "x" * 64, "y" * 65,
            "".join(rng.choice("abcXYZ019 é中") for _ in range(1024))]


def gen_cases(ctx):
    rng, quick = ctx.rng, ctx.tier == "quick"
    cases = []
    secrets = secrets_pool(rng)
    texts = text_pool(rng)
    salt_lens = [0, 1, 7, 8, 16, 31, 32, 33, 63, 64] if quick else list(range(65))
    # --- util.xor
    for n in (0, 1, 2, 31, 32, 33, 100):
        cases.append({"op": "xor", "a": rng.randbytes(n).hex(), "b": rng.randbytes(n).hex()})
    for a, b in ((0, 1), (1, 0), (32, 31), (31, 32), (32, 64)):
        cases.append({"op": "xor", "a": rng.randbytes(a).hex(), "b": rng.randbytes(b).hex()})
    # boundary strata: operands sharing their first 1, 2, n-1 and all n octets (result with leading zero octets / all
    # zero), one operand all zero, both all zero, a leading zero octet in one operand only; every length 0..64
    for n in range(0, 65):
        a = rng.randbytes(n)
        for k in sorted({1, 2, n - 1, n}):
            if 0 < k <= n:
                tail = bytes((x ^ (1 + rng.randrange(255))) for x in a[k:])      # differs in every later octet
                cases.append({"op": "xor", "a": a.hex(), "b": (a[:k] + tail).hex(), "stratum": "share-first-" + ("all" if k == n else "all-but-one" if k == n - 1 and k > 2 else str(k))})
        cases.append({"op": "xor", "a": bytes(n).hex(), "b": rng.randbytes(n).hex(), "stratum": "one-operand-zero"})
        cases.append({"op": "xor", "a": rng.randbytes(n).hex(), "b": bytes(n).hex(), "stratum": "one-operand-zero"})
        cases.append({"op": "xor", "a": bytes(n).hex(), "b": bytes(n).hex(), "stratum": "both-zero"})
        if n:
            cases.append({"op": "xor", "a": (b"\0" + rng.randbytes(n - 1)).hex(), "b": (b"\0" + rng.randbytes(n - 1)).hex(), "stratum": "share-first-1"})
    # --- pbkdf2 (bytes API): full lattice
    for s in secrets:
        for sl in salt_lens:
            salt = rng.randbytes(sl)
            for it in ITERS:
                for kl in KEYLENS:
                    cases.append({"op": "pbkdf2", "data": s.hex(), "salt": salt.hex(), "iterations": it, "keylen": kl})
    for it, kl in ((0, 32), (1, 0), (3, 31), (5, 65), (1, 100)):
        cases.append({"op": "pbkdf2", "data": b"password".hex(), "salt": b"salt".hex(), "iterations": it, "keylen": kl})
    # RFC 6070-shaped inputs for SHA-256 (values cross-checked by both references)
    cases.append({"op": "pbkdf2", "data": b"passwordPASSWORDpassword".hex(), "salt": b"saltSALTsaltSALTsaltSALTsaltSALTsalt".hex(),
                  "iterations": 4096, "keylen": 40})
    cases.append({"op": "pbkdf2", "data": b"pass\0word".hex(), "salt": b"sa\0lt".hex(), "iterations": 4096, "keylen": 16})
    # published vectors, judged against the literal value as well (typed from the documents, not computed)
    for d, sa, it, kl, lit, src in (
            (b"password", b"salt", 1, 32, "120fb6cffcf8b32c43e7225256c4f837a86548c92ccc35480805987cb70be17b", "PBKDF2-HMAC-SHA256 companion of RFC 6070 #1"),
            (b"password", b"salt", 2, 32, "ae4d0c95af6b46d32d0adff928f06dd02a303f8ef3c251dfd6e2d85a95474c43", "companion of RFC 6070 #2"),
            (b"password", b"salt", 4096, 32, "c5e478d59288c841aa530db6845c4c8d962893a001ce4e11a4963873aa98134a", "companion of RFC 6070 #3"),
            (b"passwd", b"salt", 1, 64, "55ac046e56e3089fec1691c22544b605f94185216dde0465e68b9d57c20dacbc49ca9cccf179b645991664b39d77ef317c71b845b1e30bd509112041d3a19783", "RFC 7914 section 11 #1")):
        cases.append({"op": "pbkdf2", "data": d.hex(), "salt": sa.hex(), "iterations": it, "keylen": kl, "literal": lit, "source": src})
    for key, msg, lit, src in (
            (b"\x0b" * 20, b"Hi There", "b0344c61d8db38535ca8afceaf0bf12b881dc200c9833da726e9376c2e32cff7", "RFC 4231 test case 1"),
            (b"Jefe", b"what do ya want for nothing?", "5bdcc146bf60754e6a042426089575c75a003f089d2739839dec58b964ec3843", "RFC 4231 test case 2"),
            (b"\xaa" * 131, b"Test Using Larger Than Block-Size Key - Hash Key First", "60e431591ee0b67f0d8a26aacbf5b77f8e0bc6213728c5140546040f0ee37f54", "RFC 4231 test case 6")):
        cases.append({"op": "wcs", "key": key.hex(), "challenge": msg.hex(), "literal": base64.b64encode(bytes.fromhex(lit)).decode(), "source": src})
    # --- derive_key (bytes and str), with alteration of secret/salt/iterations on some
    k = 0
    for t in texts:
        for sl in ([0, 8, 16, 33] if quick else [0, 1, 8, 16, 32, 33, 64]):
            salt = "".join(rng.choice("abcdefghijklmnopqrstuvwxyz0123456789ü") for _ in range(sl))
            for it in ([1, 2, 1000] if quick else ITERS):
                for kl in ([16, 32, 33] if quick else KEYLENS):
                    k += 1
                    c = {"op": "derive", "secret": th(t), "salt": th(salt), "iterations": it, "keylen": kl,
                         "as_str": k % 2 == 0}
                    if k % 37 == 0 and len(t) <= 65 and it <= 2 and kl >= 16:   # a 1-octet key collides by chance
                        c["flips"] = True
                    cases.append(c)
    cases.append({"op": "derive", "secret": th("secret"), "salt": th("salt"), "iterations": 0, "keylen": 32, "as_str": True})
    # --- compute_wcs
    chals = [b"", b"x", json.dumps({"authid": "peter", "authrole": "user", "authmethod": "wampcra", "authprovider": "userdb",
                                    "nonce": "1280378520", "timestamp": "2026-09-23T10:00:00.000Z", "session": 5431}).encode(),
             "chällenge 中文".encode(), rng.randbytes(1024)]
    chals += [rng.randbytes(n) for n in ((55, 56, 63, 64, 65, 119, 120) if quick else range(0, 131))]
    keys = secrets + [base64.b64encode(rng.randbytes(32)), rng.randbytes(63), b"k" + b"\0" * 5]
    k = 0
    for key in keys:
        for ch in chals:
            k += 1
            c = {"op": "wcs", "key": key.hex(), "challenge": ch.hex()}
            try:
                key.decode("utf8"), ch.decode("utf8")
                c["as_str"] = k % 2 == 0
            except UnicodeDecodeError:
                pass
            if k % 29 == 0 and len(key) <= 65 and len(ch) <= 130:
                c["flips"] = True
            cases.append(c)
    # --- AuthWampCra.on_challenge
    for t in texts:
        for ch in ("", "{\"nonce\": \"abc\", \"session\": 1}", "chällenge 中文"):
            cases.append({"op": "cra", "secret": th(t), "challenge": th(ch)})
            for it, kl, salt in ((1000, 32, "salt123"), (1, 16, ""), (2, 33, "sält"), (4096, 64, "x" * 64), (100, 20, "pepper")):
                if quick and it == 4096 and len(t) > 100:
                    continue
                cases.append({"op": "cra", "secret": th(t), "challenge": th(ch), "salt": th(salt), "iterations": it, "keylen": kl})
    cases.append({"op": "cra", "secret": th("päss"), "secret_bytes": True, "challenge": th("c")})
    cases.append({"op": "cra", "secret": th("s"), "challenge": th("c"), "salt": th("x"), "iterations": 0, "keylen": 32})
    # --- TOTP
    tsecrets = [base64.b32encode(RFC_TOTP_KEY).decode(), "MFRGGZDFMZTWQ2LK"]
    tsecrets += [base64.b32encode(rng.randbytes(n)).decode() for n in ((1, 2, 3, 4, 5, 10, 20) if quick else range(1, 41))]
    times = ["0", "29", "30", "59", "60", "89", "90", "1111111109", "1111111111", "1234567890", "2000000000",
             "20000000000", str(2 ** 31 - 1), str(2 ** 32), "59.999", "1234567890.5", "29.5"]
    times += [str(rng.randrange(0, 2 ** 33)) for _ in range(6 if quick else 40)]
    times += [str(30 * rng.randrange(1, 2 ** 26) + d) for d in (0, 29) for _ in range(2 if quick else 10)]
    for si, s in enumerate(tsecrets):
        key = base64.b32decode(s)
        for ti, t in enumerate(times):
            if quick and si >= 2 and ti % 4 != si % 4:
                continue
            c = int(float(t)) // 30
            offs = [-1, 0, 1] + ([-2, 2, 100, -100] if ti % 3 == 0 else [])
            tickets = {ref_hotp(key, c + d) for d in (-2, -1, 0, 1, 2, 3) if c + d >= 0}
            tickets |= {"000000", "12345", "1234567", "", ref_hotp(b"other", c)}
            cur = ref_hotp(key, c)
            if ti % 5 == 0:
                for i in range(48):   # every single-bit alteration of the current code
                    b = bytearray(cur.encode())
                    b[i // 8] ^= 1 << (i % 8)
                    if b[i // 8] < 128:
                        tickets.add(b.decode())
            cases.append({"op": "totp", "secret": th(s), "now": t, "offsets": offs, "tickets": sorted(th(x) for x in tickets)})
    for bad in ("mfrggzdf", "MY=====", "MY======", "MY====", "M=======", "MFRGGZD1", "MFRGGZDFMZTWQ2L", "========", "",
                "AAAAAAAA========", "MFRGGZDF=MZTWQ2LK", "MZXW6YQ=", "MZXW6==="):
        cases.append({"op": "totp", "secret": th(bad), "now": "1234567890", "offsets": [0], "tickets": [th("000000")]})
    for n in (None, 1, 4, 5, 6, 10, 16, 20, 32, 0):
        cases.append({"op": "totp_secret", "length": n, "random": rng.randbytes(n if n is not None else 10).hex()})
    for n in (0, 1, 14, 40):
        cases.append({"op": "wcs_secret", "length": n})
    # --- WAMP-SCRAM
    authids = ["user", "peter@example.com", "ｕser", "user­", "Ⅸ", "üser", "a,b=c"]
    passwords = ["pw", "", "pässwörd✓", "x" * 1024, "pass­word", "Ⅸ"]
    argon = [(1, 8), (2, 16), (3, 64)] if quick else [(1, 8), (1, 9), (2, 16), (3, 64), (4, 256), (2, 512)]
    k = 0
    for ai, authid in enumerate(authids):
        for pi, pw in enumerate(passwords):
            if quick and (ai + pi) % 2 and ai > 1 and pi > 1:
                continue
            for sl in ((8, 16, 64) if quick else (8, 9, 16, 17, 32, 33, 64)):
                k += 1
                it, mem = argon[k % len(argon)]
                salt = base64.b64encode(rng.randbytes(sl)).decode()
                snonce = base64.b64encode(rng.randbytes(16)).decode()
                c = {"op": "scram", "authid": th(authid), "password": th(pw), "nonce_random": rng.randbytes(16).hex(),
                     "extra": {"nonce": th(snonce), "kdf": th("argon2id-13"), "salt": th(salt)},
                     "extra_raw": {"iterations": it, "memory": mem},
                     "welcome": "exhaustive" if (k % (9 if quick else 3) == 0) else "few"}
                if k % 4 == 0:
                    c["extra"]["channel_binding"] = th(rng.choice(["tls-unique", "", "x"]))
                if k % 5 == 0:
                    c["extra_raw"]["iterations"] = str(it)       # the code takes int(...)
                cases.append(c)
    if not quick:   # the parameters derive_scram_credential uses
        cases.append({"op": "scram", "authid": th("user"), "password": th("pw"), "nonce_random": rng.randbytes(16).hex(),
                      "extra": {"nonce": th("c2VydmVy"), "kdf": th("argon2id-13"), "salt": th(base64.b64encode(rng.randbytes(16)).decode())},
                      "extra_raw": {"iterations": 4096, "memory": 512}, "welcome": "exhaustive"})
    # kdf = pbkdf2 (ledger F15, repaired): SaltedPassword := PBKDF2-HMAC-SHA256(password, b64decode(salt), i, 32)
    k = 0
    for it in ITERS:
        for pw in (("pw", "pässwörd✓") if quick else ("pw", "", "pässwörd✓", "x" * 1024, "pass­word")):
            for sl in ((0, 16, 33) if quick else (0, 1, 8, 15, 16, 17, 32, 33, 64)):
                k += 1
                authid = authids[k % len(authids)] if k % 3 == 0 else "user"
                c = {"op": "scram", "authid": th(authid), "password": th(pw), "nonce_random": rng.randbytes(16).hex(),
                     "extra": {"nonce": th(base64.b64encode(rng.randbytes(16)).decode()), "kdf": th("pbkdf2"),
                               "salt": th(base64.b64encode(rng.randbytes(sl)).decode())},
                     "extra_raw": {"iterations": it}, "welcome": "exhaustive" if k % (9 if quick else 4) == 0 else "few"}
                if k % 4 == 1:
                    c["extra"]["channel_binding"] = th(rng.choice(["tls-unique", "", "x"]))
                if k % 5 == 0:
                    c["extra_raw"]["iterations"] = str(it)       # the code takes int(...)
                if k % 7 == 0:
                    c["extra_raw"]["memory"] = 16                # optional attribute, ignored by this KDF
                cases.append(c)
    for it in ITERS:     # the historical replay of the finding
        cases.append({"op": "scram", "authid": th("user"), "password": th("pw"), "nonce_random": rng.randbytes(16).hex(),
                      "extra": {"nonce": th("c2VydmVy"), "kdf": th("pbkdf2"), "salt": th(base64.b64encode(rng.randbytes(16)).decode())},
                      "extra_raw": {"iterations": it}, "welcome": "few"})
    # published vector behind the salted password: password/salt/4096/32 (PBKDF2-HMAC-SHA256 companion of RFC 6070 #3)
    cases.append({"op": "scram", "authid": th("user"), "password": th("password"), "nonce_random": rng.randbytes(16).hex(),
                  "extra": {"nonce": th("c2VydmVy"), "kdf": th("pbkdf2"), "salt": th("c2FsdA==")}, "extra_raw": {"iterations": 4096},
                  "welcome": "few", "sp_literal": "c5e478d59288c841aa530db6845c4c8d962893a001ce4e11a4963873aa98134a"})
    # salt texts CPython's lenient b64decode accepts / refuses, 0 iterations
    for salt_text, it in (("c2Fs!dA==", 2), (" c2FsdA==\n", 2), ("c2FsdA==c2FsdA==", 2), ("c2FsdA", 2), ("c2F", 2), ("c", 2), ("====", 2),
                          ("c2FsdA=", 2), ("sält", 2), ("c2FsdA==", 0)):
        cases.append({"op": "scram", "authid": th("user"), "password": th("pw"), "nonce_random": rng.randbytes(16).hex(),
                      "extra": {"nonce": th("c2VydmVy"), "kdf": th("pbkdf2"), "salt": th(salt_text)}, "extra_raw": {"iterations": it},
                      "welcome": "few", "stratum_kdf": "pbkdf2-salt-text"})
    # the auth message is UTF-8 (RFC 5802 5.1): non-ASCII authid / nonce / channel binding with both KDFs; a lone surrogate
    # (possible in a str, e.g. from a JSON escape) is the one thing .encode("utf8") refuses
    for kdfname, raw in (("argon2id-13", {"iterations": 1, "memory": 8}), ("pbkdf2", {"iterations": 2})):
        salt = base64.b64encode(rng.randbytes(16)).decode()
        for authid, nonce, cbind in (("üser", "c2VydmVy", None), ("Ωμέγα-用户-\U0001f511", "c2VydmVy", None), ("user", "nöncé", None),
                                      ("user", "c2VydmVy", "bïnding"), ("é", "中", "\U0001f511"), ("\u07ff\u0800\uffff\U00010000\U0010ffff", "c2VydmVy", None)):
            c = {"op": "scram", "authid": th(authid), "password": th("pw"), "nonce_random": rng.randbytes(16).hex(),
                 "extra": {"nonce": th(nonce), "kdf": th(kdfname), "salt": th(salt)}, "extra_raw": dict(raw), "welcome": "few"}
            if cbind is not None:
                c["extra"]["channel_binding"] = th(cbind)
            cases.append(c)
        for field, val in (("nonce", [0xd800]), ("nonce", [99, 0xdfff, 100]), ("channel_binding", [0xdc80])):
            c = {"op": "scram", "authid": th("user"), "password": th("pw"), "nonce_random": rng.randbytes(16).hex(),
                 "extra": {"nonce": th("c2VydmVy"), "kdf": th(kdfname), "salt": th(salt)}, "extra_cps": {field: val},
                 "extra_raw": dict(raw), "welcome": "few"}
            cases.append(c)
    base = {"nonce": th("c2VydmVy"), "kdf": th("argon2id-13"), "salt": th(base64.b64encode(b"0123456789abcdef").decode())}
    for extra, raw in (({**base, "kdf": th("scrypt")}, {"iterations": 1, "memory": 8}),
                       (base, {"iterations": 1}),                                  # memory missing
                       ({k: v for k, v in base.items() if k != "salt"}, {"iterations": 1, "memory": 8}),
                       ({**base, "foo": th("bar")}, {"iterations": 1, "memory": 8}),
                       ({**base, "salt": th("AAAA")}, {"iterations": 1, "memory": 8})):   # salt too short for Argon2
        cases.append({"op": "scram", "authid": th("user"), "password": th("pw"), "nonce_random": rng.randbytes(16).hex(),
                      "extra": extra, "extra_raw": raw, "welcome": "few"})
    # --- WAMP-cryptosign
    seeds = [bytes.fromhex("9d61b19deffd5a60ba844af492ec2cc44449c5697b326919703bac031cae7f60"),   # RFC 8032 7.1 TEST 1
             bytes(32), b"\xff" * 32] + [rng.randbytes(32) for _ in range(3 if quick else 12)]
    k = 0
    for seed in seeds:
        for cid, binding in ((None, None), (rng.randbytes(32), "tls-unique"), (bytes(32), "tls-unique"), (b"\xff" * 32, "tls-unique"),
                             (rng.randbytes(32), None)):
            for via in ("key", "authenticator"):
                k += 1
                chal = rng.randbytes(32).hex()
                if k % 3 == 0:
                    chal = chal.upper()
                c = {"op": "cryptosign", "seed": seed.hex(), "challenge": th(chal), "channel_id": None if cid is None else cid.hex(),
                     "binding": binding, "via": via}
                if via == "authenticator" and binding is None and cid is not None:
                    continue
                if k % (7 if quick else 2) == 0:
                    c["flips"] = True
                cases.append(c)
    # boundary stratum: the channel id shares its first k = 1..32 octets with the challenge (k = 32: identical, the signed
    # data is all zero), so challenge XOR channel id starts with k zero octets
    for k in range(1, 33):
        chal = rng.randbytes(32)
        cid = chal[:k] + bytes((x ^ (1 + rng.randrange(255))) for x in chal[k:])
        c = {"op": "cryptosign", "seed": seeds[3 + k % (len(seeds) - 3)].hex(), "challenge": th(chal.hex()), "channel_id": cid.hex(),
             "binding": "tls-unique", "via": "authenticator" if k % 2 else "key", "stratum": f"cid-shares-first-{k}"}
        if k in (1, 32):
            c["flips"] = True
        cases.append(c)
    cases.append({"op": "cryptosign", "seed": seeds[3].hex(), "challenge": th("00" * 32), "channel_id": (b"\0" + rng.randbytes(31)).hex(),
                  "binding": "tls-unique", "via": "key", "stratum": "cid-shares-first-1"})
    s0 = seeds[3]
    for chal, cid, binding, method in (("00" * 31, None, None, "cryptosign"), ("00" * 33, None, None, "cryptosign"),
                                       ("zz" * 32, None, None, "cryptosign"), ("00" * 32, None, "tls-unique", "cryptosign"),
                                       ("00" * 32, bytes(31).hex(), "tls-unique", "cryptosign"),
                                       ("00" * 32, bytes(33).hex(), "tls-unique", "cryptosign"),
                                       ("00" * 32, bytes(32).hex(), "tls-exporter", "cryptosign"),
                                       ("00" * 32, None, None, "cryptosign-proxy"), ("00" * 32, None, None, "wampcra")):
        cases.append({"op": "cryptosign", "seed": s0.hex(), "challenge": th(chal), "channel_id": cid, "binding": binding,
                      "via": "key", "method": method})
    return cases


# ------------------------------------------------------------------------------------------- judging

class Judge:
    def __init__(self, ctx, res):
        self.ctx, self.res = ctx, res
        self.lines = []        # driver requests
        self.todo = []         # (first index, n, callback(answers))
        self.seen = set()

    def ask(self, lines, cb):
        self.todo.append((len(self.lines), len(lines), cb))
        self.lines += lines

    def violation(self, key, what, case, extra=None):
        self.res.count("violation:" + key)
        if key in self.seen:
            return
        self.seen.add(key)
        rp = dict(case)
        if extra:
            rp["observed"] = extra
        self.res.violations.append(core.Violation(key, what, rp))

    def refs_disagree(self, what, case, lean, ref):
        self.res.correspondence_breaks.append({"stream": "Lean reference vs hashlib reference", "what": what,
                                               "case": case, "lean": lean, "hashlib": ref})

    def flush(self):
        answers = run_driver_parallel(self.lines)
        self.res.count("driver_lines", len(self.lines))
        for i, n, cb in self.todo:
            cb(answers[i:i + n])
        self.lines, self.todo = [], []


def impl_text(r):
    """worker txt() result -> ('ok', str) | ('err', class)"""
    if "err" in r:
        return ("err", r["err"])
    return ("ok", bytes.fromhex(r["ok"]).decode("utf8"))


def lean_exc(ans, text=True):
    """'ok X' | 'err C' -> same tuple shape"""
    if ans.startswith("err "):
        return ("err", ans[4:])
    v = ans[3:] if ans.startswith("ok ") else ans
    return ("ok", lean_text(v) if text else ("" if v == "-" else v))


def lean_cost(c):
    blocks = (c["keylen"] + 31) // 32
    return c["iterations"] * max(1, blocks) * (5 if len(c.get("data", c.get("secret", ""))) > 128 else 1)


def judge_simple(J, cases, results):
    """xor, pbkdf2, derive, wcs, cra, totp_secret, wcs_secret"""
    res, quick = J.res, J.ctx.tier == "quick"
    skip = 0
    for idx, (c, r) in enumerate(zip(cases, results)):
        op = c["op"]
        if "worker_exception" in r:
            J.violation(f"{op}-unexpected-exception:{r['worker_exception']}", f"{op}: unexpected {r['worker_exception']} {r.get('detail')}", c)
            continue
        if op == "xor":
            a, b = bytes.fromhex(c["a"]), bytes.fromhex(c["b"])
            ref = ("ok", bytes(x ^ y for x, y in zip(a, b)).hex()) if len(a) == len(b) else ("err", "Exception")
            got = ("err", r["err"]) if "err" in r else ("ok", r["ok"])

            def cb(ans, c=c, got=got, ref=ref, a=a):
                l = lean_exc(ans[0], text=False)
                if l != ref:
                    J.refs_disagree("xor", c, l, ref)
                if got[0] == "ok" and len(got[1]) != 2 * len(a):
                    J.violation("xor-result-length-differs", f"util.xor of two {len(a)}-octet strings returned {len(got[1]) // 2} octets "
                                "(xor_length: the result has the length of the operands)", c, got)
                if got != l:
                    J.violation("xor-differs-from-octetwise-xor", f"util.xor returned {got}, expected {l}", c, got)
            res.count("xor:" + c.get("stratum", "random" if len(a) == len(b) else "unequal-lengths"))
            J.ask([f"auth.xor {hx(a)} {hx(b)}"], cb)
        elif op == "pbkdf2":
            data, salt = bytes.fromhex(c["data"]), bytes.fromhex(c["salt"])
            if c["iterations"] >= 1:
                ref = ("ok", hashlib.pbkdf2_hmac("sha256", data, salt, c["iterations"], c["keylen"]).hex() if c["keylen"] else "")
            else:
                ref = ("err", "ValueError")
            got = ("err", r["err"]) if "err" in r else ("ok", r["ok"])
            res.count(f"pbkdf2:iters={c['iterations']}")
            res.count(f"pbkdf2:keylen={c['keylen']}")
            res.count(f"pbkdf2:saltlen={len(salt) // 16 * 16}+")
            if "literal" in c and got != ("ok", c["literal"]):
                J.violation("pbkdf2-differs-from-pbkdf2-hmac-sha256", f"pbkdf2 differs from the published vector ({c['source']})", c, got)
            if got != ref:
                J.violation("pbkdf2-differs-from-pbkdf2-hmac-sha256", f"pbkdf2(iters={c['iterations']}, keylen={c['keylen']}, "
                            f"|salt|={len(salt)}, |data|={len(data)}) = {got[1][:32]}.., RFC 8018 gives {ref[1][:32]}..", c, got)
            if (quick and lean_cost(c) > 2000 and idx % 5) or (not quick and lean_cost(c) > 20000 and idx % 3):
                skip += 1
                continue
            res.count("pbkdf2_via_lean")

            def cb(ans, c=c, got=got, ref=ref):
                l = lean_exc(ans[0], text=False)
                if l != ref:
                    J.refs_disagree("pbkdf2", c, l, ref)
                if got != l:
                    J.violation("pbkdf2-differs-from-pbkdf2-hmac-sha256", f"pbkdf2 differs from the Lean reference", c, got)
            J.ask([f"auth.pbkdf2 {hx(data)} {hx(salt)} {c['iterations']} {c['keylen']}"], cb)
        elif op == "derive":
            sec, salt = bytes.fromhex(c["secret"]), bytes.fromhex(c["salt"])
            if c["iterations"] >= 1:
                ref = ("ok", base64.b64encode(hashlib.pbkdf2_hmac("sha256", sec, salt, c["iterations"], c["keylen"])).decode())
            else:
                ref = ("err", "ValueError")
            got = impl_text(r)
            res.count("derive:" + ("str" if c.get("as_str") else "bytes"))
            if got != ref:
                J.violation("derive-key-differs-from-base64-pbkdf2", f"derive_key = {got}, expected {ref}", c, got)
            if got[0] == "ok" and r.get("type") != "bytes":
                J.violation("derive-key-result-type", f"derive_key returned {r.get('type')}, documented bytes", c)
            if r.get("flips"):
                res.count("derive_alterations", r["flips"]["n"])
                res.evaluations += r["flips"]["n"]
                if r["flips"]["same"]:
                    J.violation("alteration-same-derived-key", f"altering {r['flips']['same'][0]} left the derived key unchanged", c, r["flips"])
            if quick and lean_cost(c) > 2000 and idx % 5:
                skip += 1
                continue

            def cb(ans, c=c, got=got, ref=ref):
                l = lean_exc(ans[0])
                if l != ref:
                    J.refs_disagree("derive_key", c, l, ref)
                if got != l:
                    J.violation("derive-key-differs-from-base64-pbkdf2", f"derive_key differs from the Lean reference", c, got)
            J.ask([f"auth.derive {hx(sec)} {hx(salt)} {c['iterations']} {c['keylen']}"], cb)
        elif op == "wcs":
            key, ch = bytes.fromhex(c["key"]), bytes.fromhex(c["challenge"])
            ref = ("ok", ref_wcs(key, ch))
            got = impl_text(r)
            res.count(f"wcs:keylen={'0' if not key else '<=64' if len(key) <= 64 else '>64'}")
            if "literal" in c and got != ("ok", c["literal"]):
                J.violation("wcs-differs-from-base64-hmac-sha256", f"compute_wcs differs from the published vector ({c['source']})", c, got)
            if got != ref:
                J.violation("wcs-differs-from-base64-hmac-sha256", f"compute_wcs = {got}, HMAC-SHA256 gives {ref}", c, got)
            if r.get("flips"):
                res.count("wcs_alterations", r["flips"]["n"])
                res.evaluations += r["flips"]["n"]
                if r["flips"]["same"]:
                    J.violation("alteration-same-wcs-signature", f"altering {r['flips']['same'][0]} left the signature unchanged", c, r["flips"])
                if r["flips"]["not_hmac"]:
                    J.violation("wcs-differs-from-base64-hmac-sha256", "compute_wcs on an altered input is not HMAC-SHA256", c, r["flips"])

            def cb(ans, c=c, got=got, ref=ref):
                l = ("ok", lean_text(ans[0]))
                if l != ref:
                    J.refs_disagree("compute_wcs", c, l, ref)
                if got != l:
                    J.violation("wcs-differs-from-base64-hmac-sha256", "compute_wcs differs from the Lean reference", c, got)
            J.ask([f"auth.wcs {hx(key)} {hx(ch)}"], cb)
        elif op == "cra":
            sec, ch = bytes.fromhex(c["secret"]), bytes.fromhex(c["challenge"])
            if "salt" in c:
                salt = bytes.fromhex(c["salt"])
                if c["iterations"] >= 1:
                    key = base64.b64encode(hashlib.pbkdf2_hmac("sha256", sec, salt, c["iterations"], c["keylen"]))
                    ref = ("ok", ref_wcs(key, ch))
                else:
                    ref = ("err", "ValueError")
                line = f"auth.cra {hx(sec)} {hx(ch)} {hx(salt)} {c['iterations']} {c['keylen']}"
                res.count("cra:salted")
            else:
                ref = ("ok", ref_wcs(sec, ch))
                line = f"auth.cra {hx(sec)} {hx(ch)}"
                res.count("cra:unsalted")
            got = impl_text(r)
            if got != ref:
                J.violation("cra-signature-differs-from-wamp-cra", f"AuthWampCra.on_challenge = {got}, WAMP-CRA gives {ref}", c, got)
            if got[0] == "ok" and (r.get("type") != "str" or r.get("welcome") != "None"):
                J.violation("cra-result-shape", f"on_challenge type {r.get('type')}, on_welcome {r.get('welcome')}", c)

            def cb(ans, c=c, got=got, ref=ref):
                l = lean_exc(ans[0])
                if l != ref:
                    J.refs_disagree("AuthWampCra.on_challenge", c, l, ref)
                if got != l:
                    J.violation("cra-signature-differs-from-wamp-cra", "on_challenge differs from the Lean reference", c, got)
            J.ask([line], cb)
        elif op == "totp_secret":
            n = 10 if c["length"] is None else c["length"]
            rnd = bytes.fromhex(c["random"])[:n]
            ref = ("ok", base64.b32encode(rnd).decode())
            got = impl_text(r)
            if got != ref:
                J.violation("totp-secret-not-base32-of-entropy", f"generate_totp_secret({c['length']}) = {got}, base32 of the entropy is {ref}", c, got)

            def cb(ans, c=c, got=got, ref=ref, rnd=rnd):
                l = ("ok", lean_text(ans[0]))
                l2 = lean_exc(ans[1], text=False)
                if l != ref or l2 != ("ok", rnd.hex()):
                    J.refs_disagree("base32", c, [l, l2], ref)
                if got != l:
                    J.violation("totp-secret-not-base32-of-entropy", "generate_totp_secret differs from the Lean Base32", c, got)
            J.ask([f"auth.b32 {hx(rnd)}", f"auth.b32d {hx(ref[1].encode())}"], cb)
        elif op == "wcs_secret":
            if "err" in r or len(bytes.fromhex(r["ok"])) != c["length"] or not r["charset_ok"]:
                J.violation("generate-wcs-shape", f"generate_wcs({c['length']}) -> {r}", c, r)
        else:
            continue
        res.evaluations += 1
        res.distinct.add((op, core.sha(json.dumps(c, sort_keys=True))[:16]))
    res.count("pbkdf2_hashlib_only(high-cost cases not sent to the Lean driver)", skip)


def judge_totp(J, cases, results):
    res = J.res
    for c, r in zip(cases, results):
        if c["op"] != "totp":
            continue
        if "worker_exception" in r:
            J.violation(f"totp-unexpected-exception:{r['worker_exception']}", str(r), c)
            continue
        secret = bytes.fromhex(c["secret"]).decode()
        now = int(float(c["now"]))
        step = now // 30
        try:
            key = base64.b32decode(secret)
        except Exception:
            key = None
        res.count("totp:secret=" + ("invalid" if key is None else "valid"))
        res.count("totp:step=" + ("0" if step == 0 else "1" if step == 1 else ">1"))
        lines, expect = [], []
        offs_got = {o: impl_text(v) for o, v in r["codes"].items()}
        for o, got in offs_got.items():
            o = int(o)
            if key is None:
                ref = ("err", "Error")
            elif step + o < 0 or step + o >= 2 ** 64:
                ref = ("err", "error")
            else:
                ref = ("ok", ref_hotp(key, step + o))
            lines.append(f"auth.totpat {hx(secret.encode())} {now} {o}")
            expect.append((o, got, ref))
            res.evaluations += 1
        tick = []
        for t, v in r["checks"].items():
            ticket = bytes.fromhex(t).decode()
            got = ("err", v["err"]) if "err" in v else ("ok", v["ok"])
            if key is None:
                ref = ("err", "Error")
            else:
                ref = None
                for o in (0, 1, -1):
                    if step + o < 0:
                        ref = ("err", "error")
                        break
                    if ticket == ref_hotp(key, step + o):
                        ref = ("ok", True)
                        break
                ref = ref or ("ok", False)
            lines.append(f"auth.totpcheck {hx(secret.encode())} {now} {hx(ticket.encode())}")
            tick.append((ticket, got, ref))
            res.evaluations += 1
            res.count("totp_check:" + (str(ref[1])))

        if secret == "GEZDGNBVGY3TQOJQGEZDGNBVGY3TQOJQ" and c["now"] in RFC6238_ROWS and "0" in offs_got:
            res.count("totp:rfc6238-literal-row")
            if offs_got["0"] != ("ok", RFC6238_ROWS[c["now"]]):
                J.violation("totp-code-differs-from-rfc6238", f"compute_totp at t={c['now']} = {offs_got['0']}, RFC 6238 appendix B gives "
                            f"..{RFC6238_ROWS[c['now']]}", dict(c, offsets=[0], tickets=[]), offs_got["0"])

        def cb(ans, c=c, expect=expect, tick=tick):
            for (o, got, ref), a in zip(expect, ans):
                l = lean_exc(a)
                if l != ref:
                    J.refs_disagree("totp", {"case": c, "offset": o}, l, ref)
                if got != l:
                    J.violation("totp-code-differs-from-rfc6238", f"compute_totp(offset={o}) at t={c['now']} = {got}, RFC 6238 gives {l}",
                                dict(c, offsets=[o], tickets=[]), got)
            for (ticket, got, ref), a in zip(tick, ans[len(expect):]):
                l = lean_exc(a)
                l = (l[0], l[1] == "1") if l[0] == "ok" else l
                if l != ref:
                    J.refs_disagree("check_totp", {"case": c, "ticket": ticket}, l, ref)
                if got != l:
                    kind = "accepts-outside-window" if got == ("ok", True) else "rejects-inside-window" if l == ("ok", True) else "outcome"
                    J.violation(f"check-totp-{kind}", f"check_totp({ticket!r}) at t={c['now']} = {got}, window c-1..c+1 gives {l}",
                                dict(c, offsets=[], tickets=[ticket.encode().hex()]), got)
        J.ask(lines, cb)
        res.distinct.add(("totp", secret, c["now"]))


def b64nopad(b):
    return base64.b64encode(b).rstrip(b"=")


def judge_scram(J, cases, results):
    res = J.res
    for c, r in zip(cases, results):
        if c["op"] != "scram":
            continue
        if "worker_exception" in r or "init" in r:
            J.violation("scram-unexpected-exception", str(r)[:200], c)
            continue
        res.evaluations += 1
        authid = bytes.fromhex(c["authid"]).decode()
        password = bytes.fromhex(c["password"]).decode()
        extra = {k: bytes.fromhex(v).decode() for k, v in c["extra"].items()}
        extra.update({k: "".join(map(chr, v)) for k, v in c.get("extra_cps", {}).items()})    # values given as code points (lone surrogates)
        raw = c.get("extra_raw", {})
        kdf = extra.get("kdf")
        res.count(f"scram:kdf={kdf}")
        cn_ref = base64.b64encode(bytes.fromhex(c["nonce_random"])[:16]).decode()
        cn = bytes.fromhex(r["client_nonce"]).decode()
        if cn != cn_ref or not r["nonce_again"]:
            J.violation("scram-client-nonce", f"client nonce {cn!r} is not base64 of 16 octets of entropy / not stable", c)
        proof = r["proof"]
        # ---- structural failures of the challenge
        missing = [k for k in ("nonce", "kdf", "salt") if k not in extra] + (["iterations"] if "iterations" not in raw else [])
        unknown = [k for k in extra if k not in ("nonce", "kdf", "salt", "channel_binding")]
        if missing or unknown or kdf not in ("argon2id-13", "pbkdf2"):
            if proof != {"err": "RuntimeError"}:
                J.violation("scram-malformed-challenge-not-refused", f"challenge with missing {missing} unknown {unknown} kdf {kdf}: {proof}", c, proof)
            res.count("scram:malformed-challenge")
            continue
        if kdf == "argon2id-13" and "memory" not in raw:
            if proof != {"err": "ValueError"}:
                J.violation("scram-argon2-without-memory-not-refused", str(proof), c, proof)
            continue
        prepped = None if r.get("authid_prepped") is None else bytes.fromhex(r["authid_prepped"]).decode()
        if prepped is None:
            if "err" not in proof:
                J.violation("scram-unpreppable-authid-accepted", str(proof), c)
            continue
        iters = int(raw["iterations"])
        cb_text = extra.get("channel_binding", "")
        am_ref = f"n={prepped},r={cn_ref},r={extra['nonce']},s={extra['salt']},i={iters},c={cb_text},r={extra['nonce']}"
        try:
            am_oct = am_ref.encode("utf8")       # RFC 5802 5.1: UTF-8
        except UnicodeEncodeError:
            am_oct = None                        # a lone surrogate: the one thing .encode("utf8") refuses
        authid_ascii = all(ord(ch) < 128 for ch in prepped)
        res.count("scram:authid=" + ("ascii" if all(ord(ch) < 128 for ch in authid) else "non-ascii"))
        res.count("scram:auth-message=" + ("lone-surrogate" if am_oct is None else "ascii" if all(ord(ch) < 128 for ch in am_ref) else "non-ascii"))
        targs = f"{cpl(prepped)} {cpl(cn_ref)} {cpl(extra['nonce'])} {cpl(extra['salt'])} {iters} {cpl(cb_text)}"
        am_line = f"auth.scram.am {targs}"
        if am_oct is None:
            def cb(ans, c=c, proof=proof):
                if ans[0] != "err UnicodeEncodeError":
                    J.refs_disagree("auth message with a lone surrogate", c, ans[0], "err UnicodeEncodeError")
                if proof != {"err": "UnicodeEncodeError"}:
                    J.violation("scram-lone-surrogate-in-auth-message-not-refused", f"a field with a lone surrogate cannot be encoded as UTF-8; got {proof}", c, proof)
            J.ask([am_line], cb)
            continue
        if proof == {"err": "UnicodeEncodeError"}:
            # the text is proper Unicode: UTF-8 can carry it (the Spec does: see the Lean answer below)
            def cb(ans, c=c, proof=proof, am_oct=am_oct, authid_ascii=authid_ascii):
                if lean_exc(ans[0], text=False) != ("ok", am_oct.hex()):
                    J.refs_disagree("auth message (UTF-8)", c, ans[0], am_oct.hex())
                if not authid_ascii:
                    J.violation("scram-non-ascii-authid-raises-UnicodeEncodeError",
                                "AuthScram.on_challenge raises UnicodeEncodeError for an authid that stays non-ASCII after SASLprep "
                                "(RFC 5802 5.1: the user name is UTF-8); no proof is produced", c, proof)
                else:
                    J.violation("scram-non-ascii-challenge-field-raises-UnicodeEncodeError",
                                "AuthScram.on_challenge raises UnicodeEncodeError for a non-ASCII nonce / salt / channel binding although the "
                                "auth message is UTF-8 (RFC 5802 5.1)", c, proof)
            J.ask([am_line], cb)
            continue
        indep_raw = r.get("indep_kdf_raw")
        kdf_line = None
        if kdf == "pbkdf2":
            # Spec of the PBKDF2 flavour: SaltedPassword := PBKDF2-HMAC-SHA256(password, b64decode(salt), i, 32), errors as CPython's
            # b64decode / the KDF raise them (Lean: Scram.saltedPassword .pbkdf2); second reference: hashlib in the worker
            kdf_line = f"auth.scram.kdf pbkdf2 {hx(password.encode())} {cpl(extra['salt'])} {iters}"
            res.count(f"scram:pbkdf2:iters={iters}")
        if indep_raw is None:
            # the independent KDF refused the parameters (e.g. Argon2 salt < 8 octets, undecodable salt, 0 iterations): the code must refuse too
            if "err" not in proof:
                J.violation("scram-kdf-parameters-refused-by-independent-kdf-accepted", f"{r.get('indep_kdf_err')} vs {proof}", c, proof)
            res.count("scram:kdf-refuses")
            if kdf_line:
                def cb(ans, c=c, proof=proof, ierr=r.get("indep_kdf_err")):
                    l = lean_exc(ans[0], text=False)
                    if l != ("err", ierr):
                        J.refs_disagree("PBKDF2 flavour, refused parameters", c, l, ierr)
                    elif "err" in proof and proof["err"] != l[1]:
                        J.res.correspondence_breaks.append({"stream": "SCRAM PBKDF2 flavour, error class", "case": c, "model": l[1], "impl": proof["err"]})
                J.ask([kdf_line], cb)
            continue
        indep_raw = bytes.fromhex(indep_raw)
        # the Spec's salted password is the raw KDF output (RFC 5802 / WAMP-SCRAM: SaltedPassword := KDF(Normalize(password), salt, params))
        # what the code uses for Argon2id is the unpadded base64 text of it (open finding); for PBKDF2 it is the raw output
        sp_text = indep_raw if kdf == "pbkdf2" else b64nopad(indep_raw)
        lines = [am_line]
        if "err" in proof:
            if kdf == "pbkdf2" and proof["err"] == "ValueError":
                J.violation("scram-pbkdf2-kdf-raises-ValueError",
                            "AuthScram.on_challenge with kdf='pbkdf2' raises ValueError('Invalid argument types'): the salt is "
                            "handed to pbkdf2() as str; no proof is produced (ledger F15)", c, proof)
            else:
                J.violation(f"scram-on-challenge-raises:{proof['err']}", f"on_challenge raised {proof['err']} on a well-formed challenge", c, proof)
            continue
        am_impl = bytes.fromhex(r["auth_message"])
        sp_impl = bytes.fromhex(r["salted_password"])
        proof_text = bytes.fromhex(proof["ok"]).decode()
        if proof.get("type") != "bytes":
            res.count("scram:proof-type-" + str(proof.get("type")))
        # Lean: proof + server signature from (a) the code's convention (base64 text) and verification by an
        # RFC 5802 server built from (b) the raw tag; (c) same with the normalized password when it differs
        lines.append(f"auth.scram.proof {hx(sp_text)} {targs}")
        lines.append(f"auth.scram.proof {hx(indep_raw)} {targs}")
        # second reference (hashlib) for the text convention
        ck = hmac.new(sp_text, b"Client Key", hashlib.sha256).digest()
        sk = hashlib.sha256(ck).digest()
        csig = hmac.new(sk, am_oct, hashlib.sha256).digest()
        ref_proof = base64.b64encode(bytes(a ^ b for a, b in zip(ck, csig))).decode()
        ref_ssig = hmac.new(hmac.new(sp_text, b"Server Key", hashlib.sha256).digest(), am_oct, hashlib.sha256).digest()
        # RFC 5802 servers: stored keys from the raw tag
        sk_raw = hashlib.sha256(hmac.new(indep_raw, b"Client Key", hashlib.sha256).digest()).digest()
        try:
            proof_raw = base64.b64decode(proof_text, validate=True)
        except Exception:
            proof_raw = b""
        if len(proof_raw) != 32:
            J.violation("scram-proof-length-differs", f"the client proof decodes to {len(proof_raw)} octets, not 32 (ClientKey XOR ClientSignature, "
                        f"expected {ref_proof})", c, proof_text)
        nz = len(csig) - len(bytes(a ^ b for a, b in zip(ck, csig)).lstrip(b"\0"))
        if nz:
            res.count(f"scram:proof-with-{nz}-leading-zero-octet(s)")
        if c.get("stratum") and not nz:
            res.notes.append("corpus/generated SCRAM case no longer has a leading zero octet in its proof (KDF convention changed?): "
                             + json.dumps(c)[:200])
        lines.append(f"auth.scram.verify {hx(sk)} {hx(am_oct)} {hx(proof_raw)}")
        lines.append(f"auth.scram.verify {hx(sk_raw)} {hx(am_oct)} {hx(proof_raw)}")
        wl = r.get("welcome", [])
        for name, text_hex, outcome, logcalls in wl:
            lines.append(f"auth.scram.welcome {hx(sp_impl)} {hx(am_impl)} {text_hex or '-'}")
        if kdf_line:
            lines.append(kdf_line)         # last, so that the positions above are those of the Argon2id flavour
        res.evaluations += len(wl) + 4 + (1 if kdf_line else 0)
        res.count("scram_welcome_alterations", len(wl))

        def cb(ans, c=c, r=r, am_ref=am_ref, am_oct=am_oct, am_impl=am_impl, sp_impl=sp_impl, sp_text=sp_text, proof_text=proof_text,
               ref_proof=ref_proof, ref_ssig=ref_ssig, wl=wl, indep_raw=indep_raw, kdf=kdf, kdf_line=kdf_line):
            l_am = lean_exc(ans[0], text=False)
            if l_am != ("ok", am_oct.hex()):
                J.refs_disagree("auth message", c, l_am, am_ref)
            if am_impl != am_oct:
                J.violation("scram-auth-message-differs", f"auth message {am_impl!r}, expected the UTF-8 octets of {am_ref!r}", c, am_impl.decode("latin1"))
            l_text = ans[1].split(" ")     # ok proof serversig
            if l_text[0] != "ok" or l_text[1] != ref_proof or l_text[2] != ref_ssig.hex():
                J.refs_disagree("scram proof / server signature", c, ans[1], [ref_proof, ref_ssig.hex()])
            if "sp_literal" in c and sp_impl.hex() != c["sp_literal"]:
                J.violation("scram-pbkdf2-salted-password-differs-from-pbkdf2-hmac-sha256",
                            f"salted password {sp_impl.hex()} differs from the published PBKDF2-HMAC-SHA256 vector {c['sp_literal']}", c, sp_impl.hex())
            if kdf_line:
                l_sp = lean_exc(ans[-1], text=False)
                if l_sp != ("ok", indep_raw.hex()):
                    J.refs_disagree("PBKDF2 flavour: salted password (Lean reference vs hashlib)", c, l_sp, indep_raw.hex())
                if sp_impl.hex() != l_sp[1]:
                    J.violation("scram-pbkdf2-salted-password-differs-from-pbkdf2-hmac-sha256",
                                f"salted password {sp_impl.hex()} is not PBKDF2-HMAC-SHA256(password, b64decode(salt), {c['extra_raw']['iterations']}, 32) "
                                f"= {l_sp[1]} (RFC 5802 Hi() with SHA-256)", c, sp_impl.hex())
            if sp_impl != sp_text:
                if kdf != "pbkdf2":
                    J.violation("scram-salted-password-differs-from-independent-argon2id",
                                f"salted password {sp_impl!r} is not the base64 text of the tag of {r.get('indep_kdf')} ({sp_text!r})", c)
            elif proof_text != l_text[1]:
                J.violation("scram-client-proof-differs", f"proof {proof_text}, RFC 5802 over this salted password gives {l_text[1]}", c, proof_text)
            # acceptance by servers
            if ans[3] != "1":
                J.violation("scram-proof-rejected-by-server-with-same-salted-password",
                            "H(proof XOR HMAC(StoredKey, AuthMessage)) != StoredKey even for a server using the code's own salted password", c, proof_text)
            elif ans[4] != "1" and kdf == "pbkdf2":
                J.violation("scram-pbkdf2-proof-rejected-by-rfc5802-server",
                            "a server holding StoredKey = H(HMAC(PBKDF2-HMAC-SHA256(password, salt, i, 32), 'Client Key')) (RFC 5802) rejects the "
                            "client proof of the PBKDF2 flavour", c, {"proof": proof_text, "salted_password_used": sp_impl.hex(), "pbkdf2": indep_raw.hex()})
            elif ans[4] != "1":
                J.violation("scram-argon2id-salted-password-is-base64-text",
                            "the client proof is computed from the unpadded base64 TEXT of the Argon2id tag (43 ASCII octets) used as "
                            "SaltedPassword; a server following RFC 5802 / WAMP-SCRAM (SaltedPassword := raw 32-octet KDF output, here "
                            "from OpenSSL's Argon2id) rejects it. autobahn's derive_scram_credential makes the same substitution, so "
                            "autobahn/Crossbar.io agree with each other but not with an independent implementation", c,
                            {"proof": proof_text, "salted_password_used": sp_impl.decode(), "raw_tag": indep_raw.hex()})
            for name, o in r.get("welcome_no_challenge", []):
                res.count("scram:welcome-without-challenge:" + o.split(" ")[0])
                if o == "accept":
                    J.violation("scram-welcome-accepted-without-challenge",
                                f"a fresh AuthScram accepted WELCOME signature {name} although no CHALLENGE was ever processed: "
                                "the router proved nothing (mutual authentication)", c, name)
            # on_welcome, every alleged signature: the code's outcome must be the Spec's, and accept only the signature
            for (name, text_hex, outcome, logcalls), a in zip(wl, ans[5:5 + len(wl)]):
                spec = a.replace("raised Error", "raised Error")
                if outcome != spec:
                    alleged = bytes.fromhex(text_hex).decode("latin1")
                    if outcome == "accept":
                        key = "scram-welcome-accepts-wrong-server-signature"
                    elif spec == "accept":
                        key = "scram-welcome-rejects-genuine-server-signature"
                    else:
                        key = "scram-welcome-outcome-differs"
                    J.violation(key, f"on_welcome({name}: {alleged!r}) -> {outcome}; Spec (accept iff decoded == HMAC(HMAC(sp,'Server Key'),am)) -> {spec}",
                                dict(c, welcome="exhaustive"), {"alleged": name, "text": alleged, "impl": outcome, "spec": spec})
                if name == "genuine" and outcome != "accept":
                    J.violation("scram-welcome-rejects-genuine-server-signature", f"genuine signature -> {outcome}", c)
                if name.startswith(("sigbit", "prefix", "extended", "empty", "other", "clientsig", "swapped")) and outcome == "accept":
                    J.violation("scram-welcome-accepts-wrong-server-signature", f"{name} accepted", dict(c, welcome="exhaustive"), name)
                if outcome == "accept" and logcalls != ["info"] or outcome == "reject" and logcalls != ["error"]:
                    res.count("scram:welcome-log-shape-unexpected")
            if r.get("server_sig_from_impl_sp") and sp_impl == sp_text and r["server_sig_from_impl_sp"] != ref_ssig.hex():
                J.refs_disagree("server signature", c, r["server_sig_from_impl_sp"], ref_ssig.hex())
        J.ask(lines, cb)
        res.distinct.add(("scram", authid, password[:8], extra["salt"], iters, raw.get("memory"), cb_text))


def judge_cryptosign(J, cases, results, expected):
    res = J.res
    for c, r, exp in zip(cases, results, expected):
        if c["op"] != "cryptosign":
            continue
        res.evaluations += 1
        if "worker_exception" in r or "key" in r:
            J.violation("cryptosign-unexpected-exception", str(r)[:200], c)
            continue
        res.count(f"cryptosign:{r.get('fw', '')}binding={c['binding']},cid={'none' if c['channel_id'] is None else 'set'},via={c['via']}")
        if r["openssl_pubkey"] != r["pubkey_bin"] or r["pubkey"] != r["pubkey_bin"]:
            J.violation("cryptosign-public-key-differs-from-openssl", f"{r['pubkey']} vs OpenSSL {r['openssl_pubkey']}", c)
        if c["seed"].startswith("9d61b19d") and r["pubkey"] != "d75a980182b10ab7d54bfed3c964073a0ee172f3daa62325af021a68f707511a":
            J.violation("cryptosign-public-key-differs-from-rfc8032", r["pubkey"], c)
        method_ok = c.get("method", "cryptosign") in ("cryptosign", "cryptosign-proxy")
        spec = exp if method_ok else "err AssertionError"
        ans = r["answer"]
        if spec.startswith("err "):
            if ans != {"err": spec[4:]}:
                # binascii.Error is a ValueError subclass; class names must match exactly here
                J.violation(f"cryptosign-error-class-differs:{spec[4:]}", f"expected {spec}, got {ans}", c, ans)
            continue
        data = "" if spec == "ok -" else spec[3:]
        if "err" in ans:
            J.violation(f"cryptosign-raises:{ans['err']}", f"sign_challenge raised {ans['err']} on a valid challenge", c, ans)
            continue
        text = bytes.fromhex(ans["ok"]).decode()
        if c.get("stratum"):
            res.count("cryptosign:cid-shares-leading-octets-with-challenge")
        if ans.get("type") == "str" and len(text) != 192:
            J.violation("cryptosign-answer-length-differs", f"the answer has {len(text)} hex characters, not 192 (64-octet signature + 32-octet "
                        f"signed data; expected data {data})", c, text)
            continue
        if ans.get("type") != "str" or len(text) != 192 or text != text.lower():
            J.violation("cryptosign-answer-shape", f"answer {text[:20]}.. type {ans.get('type')} len {len(text)}", c, text)
            continue
        if text[128:] != data:
            J.violation("cryptosign-signed-data-differs" + ("-channel-binding" if c["binding"] == "tls-unique" else ""),
                        f"signed data {text[128:]}, expected challenge{' XOR channel id' if c['binding'] else ''} = {data}", c, text[128:])
        if not r.get("openssl_verifies_expected"):
            J.violation("cryptosign-signature-rejected-by-openssl-ed25519",
                        "OpenSSL's Ed25519 verifier rejects the signature over the expected data (challenge XOR channel id | challenge)", c, text[:128])
        elif r.get("openssl_signature_of_expected") != text[:128]:
            J.violation("cryptosign-signature-differs-from-openssl-ed25519", "Ed25519 is deterministic (RFC 8032) but libsodium and OpenSSL differ", c, text[:128])
        if c["via"] == "authenticator" and r.get("authextra_pubkey") != r["pubkey"]:
            J.violation("cryptosign-authextra-pubkey", str(r.get("authextra_pubkey")), c)
        if r.get("flips"):
            f = r["flips"]
            res.evaluations += f["n"]
            res.count("cryptosign_alterations", f["n"])
            if f["accepted"]:
                J.violation("cryptosign-altered-signature-accepted", f"alteration {f['accepted'][0]} still verifies", c, f)
            if f["unchanged"]:
                J.violation("cryptosign-alteration-same-signature", f"altering {f['unchanged'][0]} did not change the signed data / signature", c, f)
        # the answer as the model builds it from the implementation's own signature
        cid = "none" if c["channel_id"] is None else hx(bytes.fromhex(c["channel_id"]))
        b = c["binding"] if c["binding"] in (None, "tls-unique") else "other"

        def cb(a, c=c, text=text):
            if a[0] != "ok " + text:
                J.violation("cryptosign-answer-format", f"answer is not hex(sig) ++ hex(data): model {a[0][:40]}..", c, text)
        J.ask([f"auth.cryptosign.answer {text[:128]} {hx(bytes.fromhex(c['challenge']))} {cid} {b or 'none'}"], cb)
        res.distinct.add(("cryptosign", c["seed"][:16], c["challenge"][:16], c["binding"], c["via"]))


def corpus_cases():
    """corpus/C19/*.json: fixed regression inputs (replayed first on every run)"""
    return [json.loads(f.read_text())["replay"] for f in sorted((core.VERIF / "corpus" / PROP).glob("*.json"))]


def scram_leading_zero_cases(ctx):
    """SCRAM inputs whose ClientKey and ClientSignature share the leading octet (the proof starts with a zero octet).
    The salted password of a probe case is taken from the worker (the harness has no Argon2), then the client nonce is
    searched with hashlib (about 256 trials per hit). Independent of the corpus, so the stratum survives a change of the
    KDF convention."""
    rng = ctx.rng
    out = []
    for authid, pw in (("user", "pw" + str(rng.randrange(10 ** 6))), ("peter@example.com", "pässwörd✓" + str(rng.randrange(10 ** 6)))):
        salt = base64.b64encode(rng.randbytes(16)).decode()
        snonce = base64.b64encode(rng.randbytes(16)).decode()
        probe = {"op": "scram", "authid": th(authid), "password": th(pw), "nonce_random": bytes(16).hex(),
                 "extra": {"nonce": th(snonce), "kdf": th("argon2id-13"), "salt": th(salt)},
                 "extra_raw": {"iterations": 1, "memory": 8}, "welcome": None}
        r = run_worker([probe], "twisted")["results"][0]
        if "salted_password" not in r:
            continue
        sp = bytes.fromhex(r["salted_password"])
        ck = hmac.new(sp, b"Client Key", hashlib.sha256).digest()
        sk = hashlib.sha256(ck).digest()
        for _ in range(20000):
            rnd = rng.randbytes(16)
            cn = base64.b64encode(rnd).decode()
            am = f"n={authid},r={cn},r={snonce},s={salt},i=1,c=,r={snonce}".encode()
            if hmac.new(sk, am, hashlib.sha256).digest()[0] == ck[0]:
                out.append(dict(probe, nonce_random=rnd.hex(), welcome="few",
                                stratum="ClientKey and ClientSignature share their first octet (searched at run time)"))
                break
    return out


def reference_selftest(ctx, res):
    """long RFC vectors through the compiled driver (tests of the Lean reference, not of the code)"""
    million_a = b"a" * 1000000
    t4 = b"0123456701234567012345670123456701234567012345670123456701234567" * 10
    vec = [
        (f"auth.sha1 {million_a.hex()}", "34aa973cd4c4daa4f61eeb2bdbad27316534016f", "RFC 3174 TEST3"),
        (f"auth.sha256 {million_a.hex()}", "cdc76e5c9914fb9281a1c7e284d73e67f1809a48a497200e046d39ccc7112cd0", "RFC 6234 TEST3"),
        (f"auth.sha1 {t4.hex()}", "dea356a2cddd90c7a7ecedc5ebb563934f460452", "RFC 3174 TEST4"),
        (f"auth.sha256 {t4.hex()}", "594847328451bdfa85056225462cc1d867d877fb388df0ce35f25ab5562bfbb5", "RFC 6234 TEST4"),
        (f"auth.pbkdf2sha1 {b'password'.hex()} {b'salt'.hex()} 4096 20", "ok 4b007901b765489abead49d926f721d065a429c1", "RFC 6070 #3"),
        (f"auth.pbkdf2sha1 {b'passwordPASSWORDpassword'.hex()} {b'saltSALTsaltSALTsaltSALTsaltSALTsalt'.hex()} 4096 25",
         "ok 3d2eec4fe41c849b80c8d83662c0e44a8b291a964cf2f07038", "RFC 6070 #5"),
        (f"auth.pbkdf2sha1 {b'pass' .hex()}00{b'word'.hex()} {b'sa'.hex()}00{b'lt'.hex()} 4096 16", "ok 56fa6aa75548099dcc37d7f03425e0c3", "RFC 6070 #6"),
        (f"auth.pbkdf2 {b'password'.hex()} {b'salt'.hex()} 4096 32", "ok c5e478d59288c841aa530db6845c4c8d962893a001ce4e11a4963873aa98134a",
         "PBKDF2-HMAC-SHA256 companion of RFC 6070 #3"),
        (f"auth.pbkdf2 {b'Password'.hex()} {b'NaCl'.hex()} 80000 64",
         "ok 4ddcd8f60b98be21830cee5ef22701f9641a4418d04c0414aeff08876b34ab56a1d425a1225833549adb841b51c9b3176a272bdebba1d078478f62b397f33c8d",
         "RFC 7914 section 11 #2") if ctx.tier == "thorough" else None,
    ]
    vec = [v for v in vec if v]
    out = run_driver_parallel([v[0] for v in vec], nproc=len(vec))
    for (line, exp, name), o in zip(vec, out):
        res.count("reference_long_vectors")
        if o != exp:
            res.correspondence_breaks.append({"stream": "Lean reference vs RFC vector", "vector": name, "lean": o, "rfc": exp})


def run(ctx):
    res = core.Result()
    res.rule = (
        "cases = util.xor (equal/unequal lengths); pbkdf2 over secrets {empty, ASCII, UTF-8 non-ASCII, 16/64/65 random octets, 1 KiB} x salt "
        "lengths 0..64 (quick: 10 boundary lengths) x iterations {1,2,1000,4096} x key lengths {1,16,20,32,33,64} plus iterations 0 / keylen 0; "
        "derive_key (str and bytes arguments) and AuthWampCra.on_challenge (salted/unsalted, non-ASCII secrets/challenges/salts); compute_wcs over "
        "keys x challenges incl. SHA block-boundary lengths; TOTP over RFC 6238 and random base32 secrets (1..40 octets, padded forms, invalid "
        "texts) x times (RFC rows, step boundaries, fractional, 2^31..2^33) x offsets x tickets (codes of steps c-2..c+3, foreign, wrong length, "
        "every single-bit alteration of the current code); generate_totp_secret with fixed entropy; AuthScram over authids (ASCII, SASLprep-mapped, "
        "non-ASCII) x passwords (empty, non-ASCII, 1 KiB, SASLprep-sensitive) x salts 8..64 octets x Argon2id (t,m) in {(1,8),(2,16),(3,64),..} "
        "and kdf=pbkdf2 x passwords x salts of 0..64 octets x iterations {1,2,1000,4096} (salted password against Lean PBKDF2, hashlib and the published "
        "vector; proof against an RFC 5802 server built from the raw PBKDF2 output), salt texts the lenient b64decode accepts/refuses, 0 iterations; "
        "non-ASCII authid / nonce / channel binding (1-4 octet UTF-8 sequences incl. the boundaries U+07FF/U+0800/U+FFFF/U+10000/U+10FFFF) and lone "
        "surrogates with both KDFs; malformed challenges; on_welcome on the genuine signature, all 256 single-bit alterations of its octets, all "
        "single-bit alterations of its base64 text, prefixes, extension, empty, junk-interleaved, client signature, swapped label; cryptosign over "
        "seeds (RFC 8032 key, zero, ones, random) x binding on/off x channel ids x key/authenticator entry points x hex case, all 512+256 "
        "single-bit alterations of signature and data, all 256+256 of challenge and channel id, malformed challenges/ids/methods. "
        "BOUNDARY STRATA for every path into util.xor: direct xor with operands sharing their first 1, 2, n-1, all n octets, one/both operands "
        "all zero, for every length 0..64 (result length is checked explicitly); cryptosign with channel ids sharing their first k = 1..32 "
        "octets with the challenge (k = 32: all-zero signed data; answer length 192 checked explicitly); SCRAM inputs whose ClientKey and "
        "ClientSignature share the leading octet(s) — three fixed corpus cases (corpus/C19, 1 and 2 leading zero octets) plus two searched at "
        "run time with hashlib over the client nonce (proof length 32 checked explicitly). "
        "non-trivial = distinct (op, arguments) that reached a comparison with the Spec")
    if not ctx.replay_path:
        reference_selftest(ctx, res)
    if ctx.replay_path:
        rp = json.loads(Path(ctx.replay_path).read_text())["replay"]
        rp.pop("observed", None)
        cases = [rp]
    else:
        cases = corpus_cases() + gen_cases(ctx) + scram_leading_zero_cases(ctx)
        res.count("corpus_cases", len(corpus_cases()))
    # driver pre-pass: the data a cryptosign client must sign
    pre = []
    for c in cases:
        if c["op"] == "cryptosign":
            cid = "none" if c["channel_id"] is None else hx(bytes.fromhex(c["channel_id"]))
            b = c["binding"] if c["binding"] in (None, "tls-unique") else "other"
            pre.append(f"auth.cryptosign.data {hx(cps(bytes.fromhex(c['challenge']).decode()))} {cid} {b or 'none'}")
    pre_out = iter(run_driver_parallel(pre))
    expected = []
    for c in cases:
        if c["op"] == "cryptosign":
            e = next(pre_out)
            expected.append(e)
            c["expected_data"] = None if e.startswith("err") else ("" if e == "ok -" else e[3:])
        else:
            expected.append(None)
    # workers: round-robin over processes; odd workers run under asyncio
    nproc = 1 if len(cases) < 20 else 12
    order = sorted(range(len(cases)), key=lambda i: (cases[i]["op"], i))
    parts = [order[w::nproc] for w in range(nproc)]
    with ThreadPoolExecutor(nproc) as ex:
        outs = list(ex.map(lambda wp: run_worker([cases[i] for i in wp[1]], "asyncio" if wp[0] % 2 else "twisted"),
                           list(enumerate(parts))))
    results = [None] * len(cases)
    for part, o in zip(parts, outs):
        for i, r in zip(part, o["results"]):
            results[i] = r
        res.count("worker_cases:" + o["fw"], len(part))
    libs = outs[0]["libs"]
    for o in outs:
        if Path(o["libs"]["autobahn_path"]).resolve() != core.SRC.resolve():
            raise RuntimeError(f"worker imported autobahn from {o['libs']['autobahn_path']}, not from {core.SRC}")
    libs.pop("autobahn_path", None)
    res.notes.append("libraries: " + json.dumps(libs, sort_keys=True))
    res.notes.append("independent Argon2id: " + ("cryptography/OpenSSL (different implementation from argon2-cffi)" if libs.get("independent_argon2id")
                                                  else "NOT AVAILABLE (argon2 cases not judged against an independent implementation)"))
    res.notes.append("PBKDF2: hashlib (OpenSSL via CPython) is compared on every case; the Lean reference on all cases but two thirds of those with a secret longer than the "
                     "HMAC block (65 octets, 1 KiB) at 4096 iterations in the thorough tier and on the low-cost ones plus every 5th high-iteration case in the quick tier "
                     "(see input_distribution pbkdf2_via_lean / pbkdf2_hashlib_only)")
    J = Judge(ctx, res)
    judge_simple(J, cases, results)
    judge_totp(J, cases, results)
    judge_scram(J, cases, results)
    judge_cryptosign(J, cases, results, expected)
    J.flush()
    judge_scram_normalization(J, cases, results)
    J.flush()
    res.traces_validated = res.evaluations
    for c, r in list(zip(cases, results))[:: max(1, len(cases) // 6)][:6]:
        res.sample({"case": {k: (v[:48] if isinstance(v, str) else v) for k, v in c.items()}, "observed": json.dumps(r)[:160]})
    return res


def judge_scram_normalization(J, cases, results):
    """RFC 5802 / WAMP-SCRAM: SaltedPassword := KDF(Normalize(password), ...). The harness process has no SASLprep
    (stdlib only), so it uses the two fixed passwords of the generator whose normalization is known:
    'pass\\u00adword' -> 'password' (soft hyphen is mapped to nothing, RFC 4013 2.1 / RFC 3454 B.1) and
    '\\u2168' -> 'IX' (NFKC). A conforming server stores keys derived from the normalized password; the client proof is
    checked against such a server (using the code's base64-text convention, to keep this apart from the other finding)."""
    NORM = {"pass­word": "password", "Ⅸ": "IX"}
    todo = []
    for c, r in zip(cases, results):
        if c["op"] != "scram" or "proof" not in r or "err" in r["proof"] or "auth_message" not in r:
            continue
        pw = bytes.fromhex(c["password"]).decode()
        if pw in NORM:
            todo.append((c, r, NORM[pw]))
    if not todo:
        return
    # the normalized password's tag from the independent Argon2id: ask the worker (password replaced, same challenge)
    ncases = [dict(c, password=th(n), welcome=None) for c, r, n in todo]
    out = run_worker(ncases, "twisted")["results"]
    for (c, r, n), r2 in zip(todo, out):
        if "indep_kdf_raw" not in r2:
            continue
        sp_norm = bytes.fromhex(r2["indep_kdf_raw"])
        if bytes.fromhex(c["extra"]["kdf"]).decode() != "pbkdf2":
            sp_norm = b64nopad(sp_norm)          # the code's convention for Argon2id (kept apart from that finding)
        sk = hashlib.sha256(hmac.new(sp_norm, b"Client Key", hashlib.sha256).digest()).digest()
        am = bytes.fromhex(r["auth_message"])
        proof = base64.b64decode(bytes.fromhex(r["proof"]["ok"]))

        def cb(ans, c=c, n=n):
            J.res.evaluations += 1
            if ans[0] != "1":
                J.violation("scram-password-not-saslprepped",
                            "the password is used as typed (only the authid goes through SASLprep): for a password that SASLprep changes, a "
                            f"server holding keys derived from Normalize(password) = {n!r} (RFC 5802 2.2, WAMP-SCRAM) rejects the client proof", c)
        J.ask([f"auth.scram.verify {hx(sk)} {hx(am)} {hx(proof)}"], cb)
