"""C07 — the opening handshake admits exactly the valid peers and never crashes.

Parts (all on real protocol objects of BOTH frameworks, left in CONNECTING by the harness):
  S  string layer: the Lean re-models of str.splitlines/strip/lower/split/find/int, parseHttpHeader, urlsplit, _url_to_origin,
     _parseExtensionsHeader, Glob.fullMatch vs wildcards2patterns, SHA-1/Base64/accept digest -- exhaustive small strings + samples
  H  server: grammar-based requests with ONE deviation per case (c07gen.server_cases), x chunkings
     {whole, 1-byte, line-boundary, mid-terminator}, all split points for a sample, oversized inputs
  C  client: the same for responses
  R  request construction: URL / options -> request octets (model of parse_url + _actuallyStartHandshake)
  I  interop: client x server option matrix, real objects wired back-to-back, same- and cross-framework

Oracle.  Every case is judged three ways: Spec (ValidRequest / ValidResponse, decided by the Lean driver) vs implementation
(OPEN iff valid; no exception leaves dataReceived/data_received), and Model vs implementation on all observables
(octets written while CONNECTING, state, drop kind, onConnect/onOpen).  F4 / F5 (exceptions leaving dataReceived) are
repaired in /repo (96829a53, cb4d1ff0) and the model mirrors the repaired behaviour; any exception is a violation again.
Likewise repaired and mirrored: int() syntax of Sec-WebSocket-Version (server) and of the status code (client) -- both now
matched against the RFC grammar, tied by the sweeps `version-sweep:*` / `status-sweep:*` (every numeral-like string <= 3 on
real objects) --, the subprotocol check against the announced protocols, path parameters in the resource, IPv6 brackets in
the Host header.  Run against a tree without these repairs the check reports each of them again, under its old key.
Seeded change /verif/seeded/c07 (client checks the server's subprotocol by substring of the comma-joined request value):
exit 1, client-opens-invalid:protocol, replay `Sec-WebSocket-Protocol: wamp.2` for ['wamp.2.json','wamp.2.msgpack'].

Mutation self-test (scratch copy of /repo/src, `VERIF_REPO=/tmp/... ./check C07 --tier quick`), one edit each:

  M1  wildcards2patterns without the trailing "$" (prefix match)        exit 1  server-opens-invalid:origin   (Origin http://good.com.evil.com)
  M2  key length `!= 24` -> `< 24`                                       exit 1  server-opens-invalid:key      (25-character key)
  M3  `if version not in self.versions` disabled                         exit 1  server-opens-invalid:version; interop-opens-unsupported-version
  M4  Upgrade token check disabled                                       exit 1  server-opens-invalid:upgrade
  M5  client: Sec-WebSocket-Accept comparison disabled                   exit 1  client-opens-invalid:accept
  M6  client: subprotocol membership check disabled                      exit 1  client-opens-invalid:protocol
  M7  maxConnections `>` -> `>=`                                         exit 1  server-rejects-valid:fail503
  M8  Host count check disabled                                          exit 1  server-opens-invalid:host
  M9  accept digest over GUID+key instead of key+GUID                    exit 1  server-reply:accept; interop-fails:client
  M10 parseHttpHeader `i > 0` -> `i >= 0`                                exit 1  correspondence break "string layer: parsehdr" (no property-level
                                                                                 failing input exists: the verdict does not change)
  M11 fragment check disabled                                            exit 1  server-opens-invalid:line     (GET /#frag)
  M12 client: Upgrade compared as substring                              exit 1  client-opens-invalid:upgrade
  H1  harmless rewrites (`not (len(rl) == 3)`, `key.endswith("==")`, `rl[0] == "GET"`, `not len(sl) >= 2`)   exit 0, silent
Every exit 1 came with a replay file naming the concrete request/response, configuration, framework and chunking.
"""
import json
import os
import re
import subprocess
from concurrent.futures import ThreadPoolExecutor
from pathlib import Path

from vlib import core
from harness import c07gen as G

PROP = "C07"
PROOF_MODULES = ["Abverif.Proofs.C07Vectors", "Abverif.Proofs.Lemmas.C07Str", "Abverif.Proofs.Lemmas.C07Stage",
                 "Abverif.Proofs.Lemmas.C07Origin", "Abverif.Proofs.Lemmas.C07Render", "Abverif.Proofs.C07",
                 "Abverif.Proofs.C07Interop"]
W = Path(__file__).parent / "workers"
FWS = ("twisted", "asyncio")
TRUSTED = [
    "Lean 4.33 kernel; axioms of every theorem within {propext, Classical.choice, Quot.sound}",
    "hand-written models Abverif/Model/{Http,Url,Handshake}.lean of the str methods (on Latin-1), parseHttpHeader, urlsplit (the part "
    "used), _url_to_origin/_is_same_origin, processHandshake (server and client), succeedHandshake, failHandshake, "
    "_actuallyStartHandshake, parse_url -- tied to the code by differential runs on real Twisted and asyncio protocol objects",
    "Lean reference SHA-1 / Base64 (RFC vectors by kernel evaluation; compared with hashlib/base64 on every digest the harness uses)",
    "inputs of the model taken from the libraries, not modelled: ipaddress validity of a bracketed host, parse_qs + hyperlink + int of the "
    "web-status query, NFKC check of urllib (cannot fire on Latin-1: checked per character), Python `re` (modelled as glob; tied exhaustively "
    "on small strings), user onConnect code, TLS, HTTP proxy CONNECT, permessage-compress parameter semantics beyond well-formedness (C12)",
]
ASSUMPTIONS = ["allowedOrigins patterns contain no regex metacharacters other than '.' and '*' (wildcards2patterns escapes only '.')",
               "header octets are interpreted as Latin-1 (as parseHttpHeader does)"]
MANIFEST_ENTRY = {
    "technique": "Lean 4 theorems over an executable model of both handshake sides + grammar-based differential search on real "
                 "Twisted/asyncio protocol objects",
    "text": "Proved in Lean for all byte strings, configurations and chunkings: the server model opens exactly for ValidRequest (RFC 6455 "
            "4.2.1 + versions/origin/capacity) and an accepting onConnect, the client model exactly for ValidResponse (status code 101 written "
            "as three digits, subprotocol among those the request announced); the 101 reply carries "
            "acceptDigest(key), a subprotocol from the client's list and only offered extensions; origin patterns match the whole origin; "
            "the verdict does not depend on segmentation; the client request targets host/port/resource (IPv6 host in brackets, resource = "
            "path with its parameters + query). The models are tied to the code by "
            "running generated requests/responses (one deviation each, arbitrary and non-UTF-8 octets, oversized, all chunkings) on real "
            "protocol objects of both frameworks, by the client x server option matrix wired back-to-back, and by exhaustive small-string "
            "correspondence of the string primitives.",
    "note": "server_never_escapes / client_never_escapes are proved in full (after the fixes 96829a53 / cb4d1ff0 of F4 / F5, mirrored in the "
            "model). server_accepts_iff_valid and client_opens_iff_valid are proved without hypotheses since the repairs of the five "
            "former findings (Python int() syntax for Sec-WebSocket-Version / status code, subprotocol compared with factory.protocols, "
            "path parameters dropped from the resource, unbracketed IPv6 Host): the model mirrors the repaired code, the examples that "
            "were negation witnesses now show model and Spec agreeing, and the check reports each defect again if it returns. "
            "ipaddress/hyperlink/parse_qs internals are inputs of the model.",
}


def hx(b):
    return b.hex() or "-"


def L(s):
    return s.encode("latin-1") if isinstance(s, str) else s


# ----------------------------------------------------------------------------- running workers

def run_worker(script, jobs, timeout=3000):
    """jobs: list of JSON-able job dicts -> list of outputs (parallel processes)"""
    def one(job):
        e = dict(os.environ)
        e["PYTHONPATH"] = os.pathsep.join([str(core.REPO / "src"), str(core.VERIF)])
        e["AUTOBAHN_VERIF"] = "1"
        e["AUTOBAHN_USE_NVX"] = "0"
        e.setdefault("PYTHONHASHSEED", "0")
        p = subprocess.run([core.PY, str(W / script)], input=json.dumps(job), capture_output=True, text=True, env=e, cwd="/",
                           timeout=timeout)
        if p.returncode != 0:
            raise RuntimeError(f"{script} failed: " + p.stderr[-2000:])
        return json.loads(p.stdout)
    with ThreadPoolExecutor(16) as ex:
        return list(ex.map(one, jobs))


def run_cases(fw, cases, nproc=8):
    if not cases:
        return []
    nproc = max(1, min(nproc, len(cases)))
    outs = run_worker("c07_worker.py", [{"fw": fw, "cases": cases[i::nproc]} for i in range(nproc)])
    res = [None] * len(cases)
    for i, o in enumerate(outs):
        for j, r in enumerate(o["results"]):
            res[i + j * nproc] = r
    for r in res:
        if r is None or "error" in r:
            raise RuntimeError("c07 worker case failed: " + str(r)[:1500])
    return res


def run_prims(ops, nproc=8):
    if not ops:
        return [], []
    nproc = max(1, min(nproc, len(ops) // 2000 + 1))
    outs = run_worker("c07_prims.py", [{"ops": ops[i::nproc]} for i in range(nproc)])
    res, br = [None] * len(ops), [None] * len(ops)
    for i, o in enumerate(outs):
        for j, r in enumerate(o["results"]):
            res[i + j * nproc] = r
            br[i + j * nproc] = o["br"][j]
    return res, br


# ----------------------------------------------------------------------------- tokens for the driver

def pairs_tok(pairs):
    return ",".join(hx(L(k)) + ":" + hx(L(v)) for k, v in pairs) if pairs else "_"


def srv_cfg_tok(cfg, fw, aio_matters=True):
    f = ["v=" + ",".join(map(str, cfg.get("versions", [8, 13]))),
         "ws=%d" % int(cfg.get("webStatus", True)),
         "ep=%d" % int(cfg.get("externalPort") or 0),
         "ao=" + (",".join(hx(L(x)) for x in cfg.get("allowedOrigins", ["*"])) or "_"),
         "an=%d" % int(cfg.get("allowNullOrigin", True)),
         "mc=%d" % int(cfg.get("maxConnections", 0)),
         "sh=" + hx(L(cfg.get("server") or "")),
         "hd=" + pairs_tok(cfg.get("headers") or []),
         "fp=%d" % int(cfg.get("serveFlashSocketPolicy", False)),
         "ac=%d" % int(cfg.get("accept") == "firstDeflate"),
         "aio=%d" % int(fw == "asyncio" and aio_matters)]
    return ";".join(f)


def oc_tok(oc):
    if oc[0] in ("accept", "accept1"):
        p = "none" if oc[1] is None else hx(L(oc[1]))
        return "a/%s/%s" % (p, pairs_tok(oc[2] if len(oc) > 2 else []))
    if oc[0] == "deny":
        return "d/%d" % oc[1]
    return "r"


def rd_tok(rd):
    if rd[0] == "absent":
        return "-"
    if rd[0] == "bad":
        return "b/" + rd[1]
    if rd[2] == "absent":
        return "u/%s/-" % rd[1]
    if rd[2] == "bad":
        return "u/%s/b" % rd[1]
    return "u/%s/v/%d" % (rd[1], rd[3])


def srv_env_tok(case, obs):
    br = [k for k, v in sorted(obs.get("br", {}).items()) if v]
    return ";".join(["br=" + (",".join(br) or "_"), "cc=%d" % case.get("conn", 1), "oc=" + oc_tok(case["onconnect"]),
                     "rd=" + rd_tok(obs.get("redirect", ["absent"]))])


def cli_cfg_tok(cfg, target):
    """target = (host, port, resource) as the model is told (from the Lean parse_url model or from `connecting`)"""
    host, port, resource = target
    ps = cfg.get("protocols") or []
    cr = cfg.get("connecting")
    req_ps = (cr.get("protocols") or []) if cr and "protocols" in cr else ps
    f = ["h=" + hx(L(host)), "pt=%d" % port, "r=" + hx(L(resource)),
         "ua=" + hx(L(cfg.get("useragent") or "")),
         "hd=" + pairs_tok(cfg.get("headers") or []),
         "o=" + hx(L(cfg.get("origin") or "")),
         "p=" + (",".join(hx(L(x)) for x in req_ps) or "_"),
         "v=%d" % cfg.get("version", 18),
         "of=" + (",".join(hx(L(x)) for x in cfg.get("offer_strings", [])) or "_"),
         "ac=%d" % int(cfg.get("accept") == "acceptAll")]
    return ";".join(f)


def run_driver_cached(ctx, lines, cache):
    todo = sorted({l for l in lines if l not in cache})
    for l, o in zip(todo, ctx.driver.run(todo)):
        cache[l] = o
    return [cache[l] for l in lines]


def chunks_tok(chunks):
    return "|".join(hx(c) for c in chunks) if chunks else "-"


# ----------------------------------------------------------------------------- canonical observations

REFRESH = re.compile(rb"""<meta http-equiv="refresh" content="(-?\d+);URL='(.*?)'">""", re.S)


def canon_srv(o):
    if o["exc"]:
        return "escapes " + o["exc"].split("@")[0]
    w = bytes.fromhex(o["written"])
    st = o["state"]
    if "onOpen" in o["events"] and w.startswith(b"HTTP/1.1 101 "):
        # opened; what follows the reply (frames sent while processing pipelined octets) is not the handshake's
        return "open " + hx(w[:w.find(b"\r\n\r\n") + 4])
    if st == 3:
        return "open? " + hx(w[:60])
    if st == 1:
        if w or o["closed"]:
            return "weird-connecting " + hx(w[:40])
        return "stuck" if "onConnect" in o["events"] else "incomplete"
    if st == 0:
        if not w.startswith(b"HTTP/1.1 "):
            if w.endswith(b"\x00") and b"cross-domain-policy" in w:
                return "flash " + o["closed"]
            return "weird-closed " + hx(w[:40])
        head, _, body = w.partition(b"\r\n\r\n")
        lines = head.split(b"\r\n")
        code = lines[0].split(b" ")[1]
        hdrs = [l.split(b": ", 1) for l in lines[1:]]
        if code == b"200" and any(h[0] == b"Content-Type" for h in hdrs):
            m = REFRESH.search(body)
            if m:
                return "page-refresh %s %s %s" % (m.group(1).decode(), hx(m.group(2)), o["closed"])
            return "page " + o["closed"]
        if code == b"303":
            loc = [h[1] for h in hdrs if h[0] == b"Location"]
            return "303 %s %s" % (hx(loc[0]) if loc else "?", o["closed"])
        extra = [h for h in hdrs if len(h) == 2]
        return "fail %s %s %s" % (code.decode("latin-1"), pairs_tok([(a, b) for a, b in extra]), o["closed"])
    return "weird-state-%d" % st


def canon_model_srv(v):
    """model verdict line -> the canonical form of canon_srv; -> (line, opened response hex or None, rest hex)"""
    t = v.split(" ")
    if t[0] == "open":
        return "open " + t[1], t[1], t[4]
    if t[0] in ("fail", "page", "page-refresh", "303", "flash"):
        return v + " lose", None, None
    return v, None, None


def canon_cli(o):
    if o["exc"]:
        return "escapes " + o["exc"].split("@")[0]
    st = o["state"]
    w = bytes.fromhex(o["written"])
    if st == 3:
        p = o.get("proto")
        return "open %s %d" % ("none" if p is None else hx(L(p)), o.get("nexts", 0))
    if st == 1:
        return "incomplete" if not (w or o["closed"]) else "weird-connecting"
    if st == 0:
        return "fail " + o["closed"] + (" wrote" if w else "")
    return "weird-state-%d" % st


def canon_model_cli(v):
    t = v.split(" ")
    if t[0] == "open":
        n = 0 if t[2] == "_" else len(t[2].split(","))
        return "open %s %d" % (t[1], n)
    if t[0] == "fail":
        return "fail abort"
    return v


# ----------------------------------------------------------------------------- judging

class Judge:
    def __init__(self, res):
        self.res = res
        self.seen = set()

    def violation(self, key, what, replay):
        if key in self.seen:
            return
        self.seen.add(key)
        self.res.violations.append(core.Violation(key, what, replay))

    def brk(self, d):
        if len(self.res.correspondence_breaks) < 40:
            self.res.correspondence_breaks.append(d)


HYPERLINK_CALLS = ("hyperlink.URL.from_text", "url.to_uri", "url.to_uri.normalize", "url.to_uri.normalize.to_text")


def escape_site(exc):
    """one key per defect: the unguarded library call, not the many exception classes it can raise"""
    cls_site, _, tag = exc.rpartition(":")
    cls, _, fn = cls_site.partition("@")
    if fn == "processHandshake" and (tag in HYPERLINK_CALLS or tag.startswith("url.")):
        return "processHandshake:redirect-url(hyperlink)"
    if fn == "processHandshake" and tag == "int" and cls == "ValueError":
        return "processHandshake:redirect-after(int)"
    return exc


def replay_of(part, case, fw, chunks):
    r = {"part": part, "fw": fw, "label": case.get("label"), "cfg": case.get("cfg"), "chunks": [c.hex() for c in chunks]}
    for k in ("conn", "onconnect", "key"):
        if k in case:
            r[k] = case[k]
    return r


def judge_srv(J, case, fw, chunks, obs, mline):
    verdict, spec, why = mline.split("|")
    impl = canon_srv(obs)
    model, resp, rest = canon_model_srv(verdict)
    rp = replay_of("H", case, fw, chunks)
    J.res.count("srv:" + verdict.split(" ")[0] + ("" if verdict.split(" ")[0] != "fail" else verdict.split(" ")[1]))
    # --- Spec vs implementation
    if obs["exc"]:
        J.violation("server-escape:" + escape_site(obs["exc"]), "exception leaves %s: %s  [%s]" % (
            "dataReceived" if fw == "twisted" else "data_received (loop exception handler)", obs["exc"], case["label"]), rp)
    oc = case["onconnect"]
    accepting = oc[0] in ("accept", "accept1")
    ev = obs["events"]
    if ("onOpen" in ev) != impl.startswith("open ") or ("onOpen" in ev and ev[:2] != ["onConnect", "onOpen"]):
        J.violation("server-callbacks-inconsistent", "onConnect/onOpen callbacks %s do not fit the outcome %s [%s]" % (
            ev, impl[:40], case["label"]), rp)
    if impl.startswith("open ") and spec != "1" and why == "host" and host_port_not_digits(b"".join(chunks)):
        why = "host-port-syntax"
    if impl.startswith("open ") and spec == "1":
        lex = strict_lexing_gap(b"".join(chunks))
        if lex:
            J.violation("server-opens-invalid:python-line-and-blank-lexing",
                        "server completes the handshake for a header block that only Python's str.splitlines/strip read as valid "
                        "(%s) [%s]" % (lex, case["label"]), rp)
    if impl.startswith("open ") and spec != "1":
        J.violation("server-opens-invalid:" + why, "server completes the handshake for a request that is not valid (%s) [%s]" % (
            why, case["label"]), rp)
    if impl.startswith("open ") and not accepting:
        J.violation("server-opens-denied", "server opens although onConnect denied/raised [%s]" % case["label"], rp)
    if spec == "1" and accepting and verdict.startswith("open ") and not impl.startswith("open ") and not obs["exc"]:
        J.violation("server-rejects-valid:" + impl.split(" ")[0] + impl.split(" ")[1] if " " in impl else impl,
                    "server does not complete a valid handshake: %s [%s]" % (impl[:60], case["label"]), rp)
    if impl.startswith("open ") and spec == "1":
        w = bytes.fromhex(obs["written"])
        bad = check_reply(case, w, chunks)
        if bad:
            J.violation("server-reply:" + bad, "101 reply is wrong: %s [%s]" % (bad, case["label"]), rp)
    # --- Model vs implementation
    same = (impl == model) or (resp is not None and rest != "-" and impl.startswith("open " + resp))
    if not same:
        if verdict.startswith("escapes ") and impl.startswith("fail "):
            J.res.notes.append("model is stale: implementation now fails cleanly where the model escapes (%s)" % case["label"])
            return
        if obs["exc"] or (impl.startswith("open ") and spec != "1"):
            return      # already a violation with a concrete input
        J.brk({"stream": "server model vs implementation", "fw": fw, "label": case["label"], "impl": impl[:300], "model": model[:300],
               "replay": rp})


def _strict_headers(data):
    """independent RFC 7230 reading of the header block: lines end with CRLF (a bare LF is tolerated: RFC 7230 3.5 allows a recipient
    to take it for a line end), field = name ":" OWS value OWS with OWS = SP / HTAB only"""
    head = data.split(b"\r\n\r\n")[0]
    hs = {}
    for l in re.split(rb"\r?\n", head)[1:]:
        i = l.find(b":")
        if i > 0:
            hs.setdefault(l[:i].strip(b" \t").lower(), []).append(l[i + 1:].strip(b" \t"))
    return hs


def strict_lexing_gap(data):
    """-> what a strict reader misses in a request the server opened for ('' if nothing): the required fields are there only if
    VT / FF / FS / GS / RS / NEL / bare CR count as line ends or \x1c-\x1f, \x85, \xa0 as blanks (str.splitlines / str.strip)"""
    hs = _strict_headers(data)

    def tokens(k):
        return [t.strip(b" \t").lower() for v in hs.get(k, []) for t in v.split(b",")]
    miss = [k.decode() for k in (b"host", b"sec-websocket-key", b"sec-websocket-version") if len(hs.get(k, [])) != 1]
    if b"websocket" not in tokens(b"upgrade"):
        miss.append("upgrade")
    if b"upgrade" not in tokens(b"connection"):
        miss.append("connection")
    if not miss and not re.fullmatch(rb"[0-9]{1,3}", hs[b"sec-websocket-version"][0]):
        miss.append("version")
    return ",".join(miss)


def host_port_not_digits(data):
    h = _strict_headers(data).get(b"host", [b""])[0]
    return b":" in h and not h.endswith(b"]") and not re.fullmatch(rb"[0-9]*", h.rsplit(b":", 1)[1])


def check_reply(case, w, chunks):
    """independent (python-side) check of the 101 reply against the request"""
    import base64
    import hashlib
    head = w.split(b"\r\n\r\n")[0].decode("utf8", "replace").split("\r\n")
    if not head[0].startswith("HTTP/1.1 101"):
        return "status"
    h = {}
    for l in head[1:]:
        k, _, v = l.partition(": ")
        h.setdefault(k.lower(), []).append(v)
    data = b"".join(chunks).split(b"\r\n\r\n")[0].decode("latin-1")
    req = {}
    for l in data.splitlines()[1:]:
        i = l.find(":")
        if i > 0:
            req.setdefault(l[:i].strip().lower(), []).append(l[i + 1:].strip())
    key = req.get("sec-websocket-key", [""])[0]
    exp = base64.b64encode(hashlib.sha1(key.encode("latin-1") + b"258EAFA5-E914-47DA-95CA-C5AB0DC85B11").digest()).decode()
    if h.get("sec-websocket-accept") != [exp]:
        return "accept"
    offered = [x.strip() for x in ", ".join(req.get("sec-websocket-protocol", [])).split(",")] if "sec-websocket-protocol" in req else []
    for p in h.get("sec-websocket-protocol", []):
        if p not in offered:
            return "protocol"
    offered_ext = [x.strip().split(";")[0].strip().lower() for x in ", ".join(req.get("sec-websocket-extensions", [])).split(",")]
    for e in h.get("sec-websocket-extensions", []):
        for one in e.split(","):
            if one.strip().split(";")[0].strip().lower() not in offered_ext:
                return "extension"
    return ""


def judge_cli(J, case, fw, chunks, obs, mline):
    verdict, spec, why = mline.split("|")
    impl = canon_cli(obs)
    model = canon_model_cli(verdict)
    rp = replay_of("C", case, fw, chunks)
    J.res.count("cli:" + verdict.split(" ")[0])
    ev = obs["events"]
    if ("onOpen" in ev) != impl.startswith("open ") or ("onOpen" in ev and ev[:2] != ["onConnect", "onOpen"]):
        J.violation("client-callbacks-inconsistent", "onConnect/onOpen callbacks %s do not fit the outcome %s [%s]" % (
            ev, impl[:40], case["label"]), rp)
    if obs["exc"]:
        J.violation("client-escape:" + escape_site(obs["exc"]), "exception leaves %s: %s  [%s]" % (
            "dataReceived" if fw == "twisted" else "data_received (loop exception handler)", obs["exc"], case["label"]), rp)
    cr = case["cfg"].get("connecting") or {}
    proto_override = "protocols" in cr and cr["protocols"] != (case["cfg"].get("protocols") or [])
    if proto_override and ((impl.startswith("open ") and why == "protocol") or (spec == "1" and not impl.startswith("open ") and not obs["exc"])):
        J.violation("client-subprotocol:compared-with-factory.protocols-not-with-the-request",
                    "onConnecting announced %r, factory.protocols is %r, server chose %r: client %s [%s]" % (
                        cr["protocols"], case["cfg"].get("protocols"), case["label"].split(":")[-1], impl.split(" ")[0], case["label"]), rp)
    elif impl.startswith("open ") and spec != "1":
        J.violation("client-opens-invalid:" + why, "client completes the handshake on a response that is not valid (%s) [%s]" % (
            why, case["label"]), rp)
    if spec == "1" and not impl.startswith("open ") and not obs["exc"] and not proto_override:
        J.violation("client-rejects-valid:" + impl.split(" ")[0], "client does not complete a valid handshake: %s [%s]" % (
            impl[:60], case["label"]), rp)
    if impl != model:
        if verdict.startswith("escapes ") and impl.startswith("fail "):
            J.res.notes.append("model is stale: implementation now fails cleanly where the model escapes (%s)" % case["label"])
            return
        if obs["exc"] or (impl.startswith("open ") and spec != "1"):
            return
        J.brk({"stream": "client model vs implementation", "fw": fw, "label": case["label"], "impl": impl[:300], "model": model[:300],
               "replay": rp})


# ----------------------------------------------------------------------------- part H: server

def worker_case(kind, case, chunks):
    c = {"kind": kind, "cfg": case["cfg"], "chunks": [x.hex() for x in chunks]}
    for k in ("conn", "onconnect", "key"):
        if k in case:
            c[k] = case[k]
    return c


def part_server(ctx, res, J, only=None):
    cases = G.server_cases(ctx.rng, ctx.tier)
    runs = []          # (case, chunks)
    variants = ("whole", "bytes", "lines", "midterm")
    for i, c in enumerate(cases):
        for v in c.get("variants", variants):
            if v == "bytes" and ctx.tier == "quick" and len(c["data"]) > 60 and i % 4:
                continue
            runs.append((c, G.split_variants(c["data"], v)))
    # every split point for a sample
    sample = [c for c in cases if c["label"] in ("valid", "valid+opt", "remove:Host", "version:+13/[8, 13]",
                                                  "origin:http://good.com.evil.com/['http://good.com:80']", "uri:/#frag")]
    sample += [c for c in cases if c["label"].startswith("mutant:")][: (3 if ctx.tier == "quick" else 30)]
    for c in sample:
        d = c["data"]
        for k in range(1, len(d)):
            runs.append((c, [d[:k], d[k:]]))
    for c in G.oversized_cases(ctx.tier):
        c["data"] = b"".join(c["chunks"])
        runs.append((c, c["chunks"]))
        if ctx.tier == "thorough":
            d = c["data"]
            runs.append((c, [d[i:i + 65536] for i in range(0, len(d), 65536)]))
    if only is not None:
        runs = only
    ctx.log(f"server: {len(cases)} base cases, {len(runs)} runs per framework")
    wc = [worker_case("srv", c, ch) for c, ch in runs]
    import time as _t
    t0 = _t.time()
    with ThreadPoolExecutor(2) as ex:
        obs = dict(zip(FWS, ex.map(lambda fw: run_cases(fw, wc), FWS)))
    ctx.log("server workers %.1fs" % (_t.time() - t0))
    cache = {}
    for fw in FWS:
        lines = ["hs.srv %s %s %s" % (srv_cfg_tok(c["cfg"], fw, c["onconnect"][0].startswith("accept") and c["onconnect"][1] is not None),
                                      srv_env_tok(c, o), chunks_tok(ch))
                 for (c, ch), o in zip(runs, obs[fw])]
        t0 = _t.time()
        out = run_driver_cached(ctx, lines, cache)
        ctx.log("server driver %.1fs" % (_t.time() - t0))
        for (c, ch), o, m in zip(runs, obs[fw], out):
            if m == "bad-op":
                raise RuntimeError("driver refused: " + c["label"])
            judge_srv(J, c, fw, ch, o, m)
            res.evaluations += 1
            res.distinct.add(("H", core.sha(c["data"])[:16], json.dumps(c["cfg"], sort_keys=True), c["conn"], json.dumps(c["onconnect"])))
    # oracle consistency between the frameworks
    for (c, ch), a, b in zip(runs, obs["twisted"], obs["asyncio"]):
        if a["br"] != b["br"] or a["redirect"] != b["redirect"]:
            J.brk({"stream": "oracle differs between frameworks", "label": c["label"]})
    for c in cases[:2] + cases[300:302]:
        res.sample({"part": "H", "label": c["label"], "request": c["data"][:200].decode("latin-1")})
    return len(cases)


# ----------------------------------------------------------------------------- part C: client

def part_client(ctx, res, J, only=None):
    cases = G.client_cases(ctx.rng, ctx.tier)
    keys = sorted({c["key"] for c in cases})
    dig = dict(zip(keys, ctx.driver.run(["hs.digest " + hx(G.wskey(k)) for k in keys])))
    runs = []
    for i, c in enumerate(cases):
        if c["cfg"].get("offers"):
            c["cfg"]["offer_strings"] = ["permessage-deflate; client_no_context_takeover; client_max_window_bits"] * len(c["cfg"]["offers"])
        c["bytes"] = G.build_response(c["data"], bytes.fromhex(dig[c["key"]]))
        for v in c.get("variants", ("whole", "bytes", "lines", "midterm")):
            if v == "bytes" and ctx.tier == "quick" and len(c["bytes"]) > 60 and i % 4:
                continue
            runs.append((c, G.split_variants(c["bytes"], v)))
    for c in [c for c in cases if c["label"] in ("valid", "status:+101", "reason:b'\\xff'", "accept:flip")]:
        d = c["bytes"]
        for k in range(1, len(d)):
            runs.append((c, [d[:k], d[k:]]))
    big = {"label": "oversized:1MiB-then-terminator", "cfg": {}, "key": keys[0], "data": None}
    big["bytes"] = G.build_response(G.Resp(), bytes.fromhex(dig[keys[0]]))[:-2] + b"X-Big: " + b"A" * (1 << 20) + b"\r\n\r\n"
    runs.append((big, [big["bytes"][:-4], big["bytes"][-4:]]))
    if only is not None:
        runs = only
    ctx.log(f"client: {len(cases)} base cases, {len(runs)} runs per framework")
    ccache = {}
    wc = [worker_case("cli", c, ch) for c, ch in runs]
    with ThreadPoolExecutor(2) as ex:
        obs = dict(zip(FWS, ex.map(lambda fw: run_cases(fw, wc), FWS)))
    for fw in FWS:
        lines = ["hs.cli %s %s %s" % (cli_cfg_tok(c["cfg"], ("localhost", 9000, "/")), hx(G.wskey(c["key"])), chunks_tok(ch))
                 for (c, ch) in runs]
        out = run_driver_cached(ctx, lines, ccache)
        for (c, ch), o, m in zip(runs, obs[fw], out):
            if m == "bad-op":
                raise RuntimeError("driver refused: " + c["label"])
            if fw == "asyncio" and False:
                pass
            if c["key"] in dig and o["accept"] != bytes.fromhex(dig[c["key"]]).decode():
                J.brk({"stream": "Lean acceptDigest vs hashlib", "key": c["key"]})
            judge_cli(J, c, fw, ch, o, m)
            res.evaluations += 1
            res.distinct.add(("C", core.sha(c["bytes"])[:16], json.dumps(c["cfg"], sort_keys=True)))
    for c in cases[:1] + cases[40:41]:
        res.sample({"part": "C", "label": c["label"], "response": c["bytes"][:200].decode("latin-1")})
    return len(cases)


# ----------------------------------------------------------------------------- part S: string layer

ALPH6 = [b"a", b"b", b".", b"*", b":", b"/"]


def small_strings(alphabet, maxlen):
    out = [b""]
    cur = [b""]
    for _ in range(maxlen):
        cur = [s + a for s in cur for a in alphabet]
        out += cur
    return out


def part_strings(ctx, res, J):
    rng = ctx.rng
    ops = []
    lat = [bytes([i]) for i in range(256)]
    le2 = small_strings(lat, 2)          # 65 793 strings
    interesting = [9, 10, 11, 12, 13, 28, 29, 30, 31, 32, 0x85, 0xa0, 43, 45, 48, 49, 57, 95, 58, 44, 59, 61, 34, 65, 90, 97, 122, 0xc0,
                   0xd7, 0xde, 0xdf, 0xe9, 0xff, 0, 0x7f, 35, 63, 47, 91, 93, 64, 37]
    pool = [bytes([c]) for c in interesting]

    def sampled(n, maxlen, alphabet=pool, extra=lat):
        out = []
        for _ in range(n):
            k = rng.randrange(0, maxlen + 1)
            out.append(b"".join(rng.choice(alphabet) if rng.random() < 0.85 else rng.choice(extra) for _ in range(k)))
        return out
    n_s = 3000 if ctx.tier == "quick" else 30000
    le6 = sampled(n_s, 6)
    full = ctx.tier == "thorough"
    base = le2 if full else [s for i, s in enumerate(le2) if len(s) < 2 or (s[0] in interesting and s[1] in interesting) or i % 23 == 0]
    for fn in ("splitlines", "strip", "lower", "splitws", "int", "isspace", "utf8", "encode"):
        for s in base + le6:
            ops.append([fn, hx(s)])
    # the exhaustive <=2 sweep in the quick tier for the three cheapest primitives with the most special cases
    if not full:
        for fn in ("splitlines", "strip", "int"):
            for s in le2:
                ops.append([fn, hx(s)])
    for s in base[:: (1 if full else 3)] + le6:
        ops.append(["spliton", "2c", hx(s)])
        ops.append(["rcut", "3a", hx(s)])
        ops.append(["parsehdr", hx(s)])
        ops.append(["parsehdr", hx(b"L\r\n" + s + b"\r\nK: v\r\n" + s + b"\r\n\r\n")])
        ops.append(["find", "0d0a0d0a", hx(s)])
    crlfish = sampled(n_s, 9, alphabet=[b"\r", b"\n", b"a", b":"])
    for s in crlfish:
        ops.append(["find", "0d0a0d0a", hx(s)])
        ops.append(["splitlines", hx(s)])
        ops.append(["parsehdr", hx(s)])
    hdrish = sampled(n_s, 14, alphabet=[b"a", b"A", b":", b" ", b"\r\n", b"\n", b",", b"\xa0", b"b", b"\t"])
    for s in hdrish:
        ops.append(["parsehdr", hx(s)])
    extish = sampled(n_s, 12, alphabet=[b"a", b"B", b";", b"=", b",", b" ", b'"', b"1", b"\xa0"])
    for s in extish + [L(x) for x in G.EXTENSIONS]:
        ops.append(["exts", hx(s)])
    intish = sampled(n_s, 7, alphabet=[b"1", b"0", b"9", b"_", b"+", b"-", b" ", b"\t", b"\x1f", b"\xa0", b"\x85", b"\xb2"])
    for s in intish + [b"0" * 4300, b"0" * 4301, b"1" * 4300, b"1" * 4301, b"1_" * 2200 + b"1", b"+" + b"9" * 4300, b" " * 50 + b"7" + b" " * 50]:
        ops.append(["int", hx(s)])
    urlish = sampled(n_s * 2, 12, alphabet=[b"h", b"T", b":", b"/", b"/", b"[", b"]", b"@", b"#", b"?", b"1", b".", b"%", b"\xe9", b" ", b"\x01", b"\t"])
    urlish += [L(x) for x in G.ORIGINS] + [L(x) for x in G.URIS] + [b"http://[::1]:80", b"http://[::1]", b"//[fe80::1%25en0]:1/", b"a://[v1.fe]:2"]
    for s in urlish:
        ops.append(["urlsplit", hx(s)])
        ops.append(["origin", hx(s)])
    originish = [b"http://" + s for s in sampled(n_s // 2, 8, alphabet=[b"g", b"G", b".", b":", b"8", b"0", b"@", b"[", b"]", b"/", b"\xd6"])]
    for s in originish:
        ops.append(["origin", hx(s)])
    # glob: all patterns / subjects of length <= 4 over {a,b,.,*,:,/}  (thorough: all 1555 x 1555; quick: all patterns x stratified subjects)
    g4 = small_strings(ALPH6, 4)
    if full:
        gp, gs = g4, g4
    else:
        gp = g4
        gs = [s for i, s in enumerate(g4) if len(s) <= 2 or i % 29 == 0]
    for p in gp:
        for s in gs:
            ops.append(["glob", hx(p), hx(s)])
    for p, s in [(b"*good.com", b"good.com.evil.com"), (b"*", b"a\nb"), (b"a*", b"a\n"), (b"a", b"a\n"), (b"a*b", b"a\nb"), (b"*", b"\n"),
                 (b"a", b"a\n\n"), (b"http://good.com:80", b"http://good.com:80\n"), (b"a.b", b"aXb"), (b"", b""), (b"", b"\n")]:
        ops.append(["glob", hx(p), hx(s)])
    # sha1 / base64 / digest
    for n in list(range(0, 130)) + [1000]:
        d = rng.randbytes(n)
        ops.append(["sha1", hx(d)])
        ops.append(["b64", hx(d)])
    for _ in range(200):
        import base64
        ops.append(["digest", hx(base64.b64encode(rng.randbytes(16)))])
    ops.append(["nfkc"])
    ctx.log(f"strings: {len(ops)} primitive evaluations")
    impl, brs = run_prims(ops, nproc=12)
    lines = []
    for op, br in zip(ops, brs):
        fn = op[0]
        if fn in ("glob", "sha1", "b64", "digest"):
            lines.append("hs.%s %s" % (fn, " ".join(op[1:])))
        elif fn == "origin":
            lines.append("hs.origin %s %s" % (op[1], ",".join(br) or "_"))
        elif fn == "urlsplit":
            lines.append("hs.str urlsplit %s %s" % (op[1], ",".join(br) or "_"))
        elif fn == "nfkc":
            lines.append("hs.str lower 2d")
        else:
            lines.append("hs.str " + " ".join(op))
    model = ctx.driver.run(lines)
    nbad = 0
    for op, i, m in zip(ops, impl, model):
        fn = op[0]
        res.evaluations += 1
        res.count("S:" + fn)
        ok = True
        if fn == "glob":
            full_, re_ = m.split(" ")
            ok = (re_ == i)
            subj = bytes.fromhex(op[2]) if op[2] != "-" else b""
            if b"\n" not in subj and full_ != i:
                ok = False
        elif fn == "exts":
            ok = (exts_canon(m) == json.loads(i))
        elif fn == "nfkc":
            ok = (i == "_")
        elif fn == "sha1":
            ok = (m == (i or "-"))
        else:
            ok = (m == i)
        if not ok:
            nbad += 1
            J.brk({"stream": "string layer: " + fn, "args": op[1:], "impl": i[:200], "model": m[:200]})
        if fn in ("glob", "origin", "urlsplit", "int", "parsehdr") and len(res.distinct) < 400000:
            res.distinct.add(("S", fn) + tuple(op[1:]))
    res.notes.append("string layer: %d evaluations, %d disagreements; exhaustive<=2 over Latin-1 for %s; glob %dx%d" % (
        len(ops), nbad, "all primitives" if full else "splitlines/strip/int (others: stratified)", len(gp), len(gs)))
    return len(ops)


def exts_canon(m):
    """driver `exts` answer -> the dict-of-lists shape of _parseExtensionsHeader"""
    if m == "_":
        return []
    out = []
    for e in m.split(";"):
        name, ps = e.split("/")
        d = []
        if ps != "_":
            for kv in ps.split(","):
                k, v = kv.split(":")
                for ent in d:
                    if ent[0] == k:
                        ent[1].append(v)
                        break
                else:
                    d.append([k, [v]])
        out.append([name, d])
    return out


# ----------------------------------------------------------------------------- parts R + I: request construction, interop

URLS = ["ws://localhost:9000", "ws://localhost", "wss://example.com", "wss://example.com:8443/p/q?x=1&y=2", "ws://h:9000/a%20b?x=%20",
        "ws://H.Example:81/Path", "ws://user:pw@h:1/", "ws://h/?", "ws://h?x=1", "ws://h:/", "WS://h/", "ws://h/a/b/", "ws://127.0.0.1:65535/",
        "ws://h/a;x=1?q=2", "ws://h/a;x=1/b", "ws://h/;", "ws://[::1]:9000/", "ws://[fe80::1]/x", "ws://h/p\xe9"]


def interop_matrix(tier):
    ccfgs, scfgs = [], []
    for version in range(10, 19):
        for protocols in ([], ["a"], ["a", "b"]):
            for extra in (0, 1, 2, 3):
                c = {"url": "ws://localhost:9000/x?y=1", "version": version, "protocols": protocols, "useragent": "AbV/1"}
                if extra == 1:
                    c["headers"] = [["X-C", "1"], ["X-D", "two words"]]
                    c["origin"] = "http://good.com"
                if extra == 2:
                    c["offers"] = [{}]
                    c["accept"] = "acceptAll"
                if extra == 3:
                    c["offers"] = [{"request_no_context_takeover": True, "request_max_window_bits": 10}, {}]
                    c["accept"] = "acceptAll"
                    c["origin"] = "https://good.com"
                    c["useragent"] = None
                if tier == "quick" and version not in (10, 13, 18) and extra in (1, 3) and protocols == ["a"]:
                    continue
                ccfgs.append(c)
    for versions in ([8, 13], [13], [8]):
        for pick in ("none", "first", "last"):
            for extra in (0, 1, 2):
                s = G.srv_cfg(versions=versions)
                s["_pick"] = pick
                if extra == 1:
                    s["accept"] = "firstDeflate"
                    s["headers"] = [["X-F", "1"]]
                    s["_hdrs"] = [["X-A", "a b"]]
                if extra == 2:
                    s["allowedOrigins"] = ["http*://good.com:*"]
                    s["server"] = ""
                    s["accept"] = "firstDeflate"
                scfgs.append(s)
    return ccfgs, scfgs


def offer_string(o):
    s = "permessage-deflate"
    if o.get("accept_no_context_takeover", True):
        s += "; client_no_context_takeover"
    if o.get("accept_max_window_bits", True):
        s += "; client_max_window_bits"
    if o.get("request_no_context_takeover", False):
        s += "; server_no_context_takeover"
    if o.get("request_max_window_bits", 0):
        s += "; server_max_window_bits=%d" % o["request_max_window_bits"]
    return s


def part_requests(ctx, res, J):
    """URL/options -> request octets, against the Lean parse_url + clientRequest"""
    cfgs = []
    for u in URLS:
        for k in range(3):
            c = {"url": u, "useragent": ["AbV/1", None, ""][k]}
            if k == 1:
                c.update(origin="http://o.example", protocols=["p1", "p2"], headers=[["X-H", "v"]], version=10)
            if k == 2:
                c.update(origin="null", protocols=["\xe9"], version=13, offers=[{}, {"request_max_window_bits": 9}])
            cfgs.append(c)
    cfgs.append({"url": "ws://localhost:9000", "protocols": ["x"], "connecting": {"host": "other", "port": 1234, "resource": "/r?z", "protocols": ["y"],
                                                                                  "origin": "http://c.example", "useragent": "UA"}})
    # hosts handed over by onConnecting: an IPv6 address with and without brackets, a name (Host header brackets, model hostHeader)
    for h in ("2001:db8::1", "[2001:db8::1]", "::", "h.example", "[", "a:b"):
        cfgs.append({"url": "ws://localhost:9000", "connecting": {"host": h, "port": 81, "resource": "/", "protocols": []}})
    keys = [ctx.rng.randbytes(16).hex() for _ in cfgs]
    for c in cfgs:
        c["offer_strings"] = [offer_string(o) for o in c.get("offers", [])]
    tgt = ctx.driver.run(["hs.parseurl " + hx(L(c["url"])) for c in cfgs])
    wc = [{"kind": "req", "cfg": c, "key": k} for c, k in zip(cfgs, keys)]
    with ThreadPoolExecutor(2) as ex:
        obs = dict(zip(FWS, ex.map(lambda fw: run_cases(fw, wc, nproc=2), FWS)))
    lines, targets = [], []
    for c, k, t in zip(cfgs, keys, tgt):
        sec, host, port, resource = t.split(" ")
        target = (bytes.fromhex(host if host != "-" else ""), int(port), bytes.fromhex(resource if resource != "-" else ""))
        cc = dict(c)
        if "connecting" in c:
            cr = c["connecting"]
            target = (L(cr["host"]), cr["port"], L(cr["resource"]))
            cc = dict(c, origin=cr.get("origin"), useragent=cr.get("useragent"), headers=cr.get("headers", []))
        targets.append(target)
        lines.append("hs.req %s %s" % (cli_cfg_tok(cc, target), hx(G.wskey(k))))
    model = ctx.driver.run(lines)
    for fw in FWS:
        for c, k, o, m, t in zip(cfgs, keys, obs[fw], model, targets):
            res.evaluations += 1
            res.distinct.add(("R", json.dumps(c, sort_keys=True)))
            if o["request"] != (m if m != "-" else ""):
                J.brk({"stream": "client request octets", "fw": fw, "cfg": c, "impl": bytes.fromhex(o["request"]).decode("latin-1")[:400],
                       "model": bytes.fromhex(m).decode("latin-1")[:400] if m != "-" else ""})
            # Spec: the request targets host, port and resource of the URL (independent python-side reading of the URL)
            if "connecting" not in c:
                bad = check_targets(c["url"], bytes.fromhex(o["request"]))
                if bad:
                    J.violation("client-request:" + bad, "client request does not target its URL (%s): %s" % (bad, c["url"]),
                                {"part": "R", "fw": fw, "cfg": c, "request": bytes.fromhex(o["request"]).decode("latin-1")[:300]})
    res.sample({"part": "R", "url": cfgs[9]["url"], "request": bytes.fromhex(obs["twisted"][9]["request"]).decode("latin-1")[:160]})
    return len(cfgs)


URL_RE = re.compile(r"^(wss?)://(?:[^@/?#]*@)?(\[[^\]]*\]|[^:/?#]*)(?::(\d*))?([^?#]*)(\?[^#]*)?(#.*)?$", re.I)


def check_targets(url, request):
    """RFC 6455 section 3 reading of a ws URL: resource = path[?query] ('/' if empty), host as written (IPv6 in brackets), port explicit or default"""
    m = URL_RE.match(url)
    if not m:
        return ""
    scheme, host, port, path, query, _ = m.groups()
    port = int(port) if port else (443 if scheme.lower() == "wss" else 80)
    resource = (path or "/") + (query if query and query != "?" else "")
    lines = request.decode("utf8").split("\r\n")
    if lines[0] != "GET %s HTTP/1.1" % resource:
        return "resource" + ("-drops-path-params" if ";" in path.rsplit("/", 1)[-1] else "")
    hosts = [l[6:] for l in lines if l.startswith("Host: ")]
    if hosts != ["%s:%d" % (host.lower(), port)]:
        return "host" + ("-ipv6-unbracketed" if host.startswith("[") else "")
    return ""


def part_interop(ctx, res, J):
    ccfgs, scfgs = interop_matrix(ctx.tier)
    pairs = [(c, s) for c in ccfgs for s in scfgs]
    if ctx.tier == "quick":
        pairs = [p for i, p in enumerate(pairs) if i % 7 == 0]
    for c in ccfgs:
        c["offer_strings"] = [offer_string(o) for o in c.get("offers", [])]
    keys = [ctx.rng.randbytes(16).hex() for _ in pairs]
    ctx.log(f"interop: {len(ccfgs)} client x {len(scfgs)} server configurations -> {len(pairs)} pairs x 4 framework pairings")
    combos = [("twisted", "twisted"), ("asyncio", "asyncio"), ("twisted", "asyncio"), ("asyncio", "twisted")]
    icache = {}
    # model side (framework independent except the aio flag, which does not matter on accepted handshakes)
    req_lines = ["hs.req %s %s" % (cli_cfg_tok(c, ("localhost", 9000, "/x?y=1")), hx(G.wskey(k))) for (c, s), k in zip(pairs, keys)]
    mreq = ctx.driver.run(req_lines)

    def pick(c, s):
        ps = c.get("protocols") or []
        p = None if (s["_pick"] == "none" or not ps) else (ps[0] if s["_pick"] == "first" else ps[-1])
        return ["accept", p, s.get("_hdrs", [])]

    def supported(c, s):
        return (8 if c["version"] <= 12 else 13) in s.get("versions", [8, 13])
    # phase 1: requests from real clients
    with ThreadPoolExecutor(2) as ex:
        step1 = dict(zip(FWS, ex.map(lambda fw: run_cases(fw, [{"kind": "req", "cfg": c, "key": k} for (c, s), k in zip(pairs, keys)], nproc=4), FWS)))

    def one_combo(combo):
        cfw, sfw = combo
        reqs = [bytes.fromhex(o["request"]) for o in step1[cfw]]
        sc = [{"kind": "srv", "cfg": {k: v for k, v in s.items() if not k.startswith("_")}, "conn": 1, "onconnect": pick(c, s), "chunks": [r.hex()]}
              for (c, s), r in zip(pairs, reqs)]
        sobs = run_cases(sfw, sc, nproc=4)
        cc = [{"kind": "cli", "cfg": c, "key": k, "chunks": [o["written"]] if o["written"] else []} for (c, s), k, o in zip(pairs, keys, sobs)]
        cobs = run_cases(cfw, cc, nproc=4)
        return reqs, sobs, cobs
    with ThreadPoolExecutor(4) as ex:
        combo_out = list(ex.map(one_combo, combos))
    for (cfw, sfw), (reqs, sobs, cobs) in zip(combos, combo_out):
        # model: server on the model's request, client on the model's response
        ml = ["hs.srv %s %s %s" % (srv_cfg_tok({k: v for k, v in s.items() if not k.startswith("_")}, sfw, False),
                                   "br=_;cc=1;oc=%s;rd=-" % oc_tok(pick(c, s)), m) for (c, s), m in zip(pairs, mreq)]
        msrv = run_driver_cached(ctx, ml, icache)
        for (c, s), k, r, m, so, co, ms in zip(pairs, keys, reqs, mreq, sobs, cobs, msrv):
            res.evaluations += 1
            res.distinct.add(("I", json.dumps(c, sort_keys=True), json.dumps(s, sort_keys=True)))
            rp = {"part": "I", "client_fw": cfw, "server_fw": sfw, "client": c, "server": s, "key": k}
            if r.hex() != m:
                J.brk({"stream": "interop: request octets", "replay": rp})
                continue
            sup = supported(c, s)
            s_open, c_open = so["state"] == 3, co["state"] == 3
            res.count("I:%s->%s:%s" % (cfw[:2], sfw[:2], "open" if (s_open and c_open) else "refused"))
            if so["exc"] or co["exc"]:
                J.violation("interop-escape:" + (so["exc"] or co["exc"]), "exception during a self-handshake", rp)
            if sup and not (s_open and c_open):
                J.violation("interop-fails:%s" % ("server" if not s_open else "client"),
                            "the library does not complete the handshake with itself (client v%d, server %s)" % (c["version"], s.get("versions")), rp)
            if not sup and (s_open or c_open):
                J.violation("interop-opens-unsupported-version", "handshake completes although the server does not support the version", rp)
            if sup:
                want = pick(c, s)[1]
                if co.get("proto") != want:
                    J.violation("interop-subprotocol", "client ended with subprotocol %r, server chose %r" % (co.get("proto"), want), rp)
            mv = ms.split("|")[0]
            if mv.startswith("open ") != s_open or (s_open and mv.split(" ")[1] != so["written"]):
                J.brk({"stream": "interop: server model vs implementation", "model": mv[:200], "impl": canon_srv(so)[:200], "replay": rp})
            if s_open:
                cl = ctx_cli_line(c, k, so["written"])
                J.pending.append((cl, c_open, co, rp))
    outs = run_driver_cached(ctx, [p[0] for p in J.pending], icache)
    for (cl, c_open, co, rp), m in zip(J.pending, outs):
        mv = m.split("|")[0]
        if mv.startswith("open ") != c_open:
            J.brk({"stream": "interop: client model vs implementation", "model": mv[:200], "impl": canon_cli(co), "replay": rp})
    J.pending = []
    res.sample({"part": "I", "client": ccfgs[-1], "server": {k: v for k, v in scfgs[-1].items()}})
    return len(pairs) * 4


def ctx_cli_line(c, key, written_hex):
    return "hs.cli %s %s %s" % (cli_cfg_tok(c, ("localhost", 9000, "/x?y=1")), hx(G.wskey(key)), written_hex or "-")


# ----------------------------------------------------------------------------- main

def run(ctx):
    res = core.Result()
    J = Judge(res)
    J.pending = []
    res.rule = ("H/C: grammar-based requests/responses, each deviating from a valid one in one element (method, HTTP version, URI forms incl. "
                "fragment/absolute/redirect parameters, each header removed/duplicated/renamed, value catalogues for Host, Upgrade, Connection, "
                "version, key, protocols, extensions, origins x allowed-origin policies, capacity, onConnect outcomes), non-ASCII/control "
                "octets in every position class, line-ending variants, random octets, 1-3 random edits of a valid message; each fed whole, "
                "byte-wise, per line and split inside the terminator, all split points for a sample, oversized (1 MiB) inputs; both frameworks. "
                "S: string primitives on all Latin-1 strings <=2 (quick: splitlines/strip/int exhaustive, others stratified) + sampled <=6..14, "
                "glob on all patterns x subjects <=4 over {a,b,.,*,:,/} (quick: stratified subjects). R: URL catalogue -> request octets. "
                "I: client x server option matrix, 4 framework pairings. non-trivial = distinct (input, configuration) that contains a "
                "header terminator or is a string-layer case of the structured primitives")
    if ctx.replay_path:
        return replay(ctx, res, J)
    n_s = part_strings(ctx, res, J)
    ctx.log("strings done")
    n_h = part_server(ctx, res, J)
    ctx.log("server done")
    n_c = part_client(ctx, res, J)
    ctx.log("client done")
    n_r = part_requests(ctx, res, J)
    n_i = part_interop(ctx, res, J)
    ctx.log("interop done")
    res.exhaustive = ctx.tier == "thorough"
    res.traces_validated = res.evaluations
    res.notes = sorted(set(res.notes))[:30]
    return res


def replay(ctx, res, J):
    rp = json.loads(Path(ctx.replay_path).read_text())["replay"]
    part = rp.get("part")
    chunks = [bytes.fromhex(c) for c in rp.get("chunks", [])]
    case = {"label": rp.get("label", "replay"), "cfg": rp.get("cfg") or {}, "data": b"".join(chunks)}
    for k in ("conn", "onconnect", "key"):
        if k in rp:
            case[k] = rp[k]
    if part == "H":
        case.setdefault("conn", 1)
        case.setdefault("onconnect", ["accept", None, []])
        part_server(ctx, res, J, only=[(case, chunks)])
    elif part == "C":
        case["bytes"] = case["data"]
        part_client(ctx, res, J, only=[(case, chunks)])
    elif part == "R":
        part_requests(ctx, res, J)
    elif part == "I":
        part_interop(ctx, res, J)
    else:
        part_strings(ctx, res, J)
    return res
