"""Script generators for the WebSocket engine (shared by C01, C02, C05, C16, C17).
Pure stdlib: used by ./check (python 3.11) — builds op tokens for both the driver and the worker."""
import struct

SEC = 1048576
LEN_BOUNDARIES = [0, 1, 2, 124, 125, 126, 127, 128, 255, 256, 1000]
BIG_LENS = [65534, 65535, 65536, 65537, (1 << 17) + 3]


def hx(b):
    return b.hex() if b else "-"


def frame(opcode, payload=b"", fin=1, rsv=0, mask=None, len_form=None, declared_len=None):
    ln = len(payload) if declared_len is None else declared_len
    b0 = (fin << 7) | (rsv << 4) | opcode
    if len_form is None:
        len_form = 7 if ln <= 125 else (16 if ln <= 0xFFFF else 64)
    mb = 0x80 if mask is not None else 0
    if len_form == 7:
        hdr = bytes([b0, mb | (ln & 127)])
    elif len_form == 16:
        hdr = bytes([b0, mb | 126]) + struct.pack("!H", ln & 0xFFFF)
    else:
        hdr = bytes([b0, mb | 127]) + struct.pack("!Q", ln & 0xFFFFFFFFFFFFFFFF)
    if mask is not None:
        return hdr + mask + bytes(c ^ mask[k & 3] for k, c in enumerate(payload))
    return hdr + payload


VALID_TEXT = ["", "a", "héllo", "κόσμε", "ࠀ￿", "\U00010000\U0010ffff", "x" * 200]
INVALID_UTF8 = [b"\xff", b"\xc0\xaf", b"\xed\xa0\x80", b"\xf4\x90\x80\x80", b"abc\x80", b"\xe2\x82", b"\xce"]
CLOSE_CODES = [1000, 1001, 1002, 1003, 1007, 1008, 1009, 1010, 1011, 1012, 1013, 3000, 3999, 4000, 4999,
               0, 999, 1004, 1005, 1006, 1014, 1015, 1016, 2999, 5000, 65535]


def rand_payload(rng, text, n=None):
    if text:
        return rng.choice(VALID_TEXT).encode("utf8")
    if n is None:
        n = rng.choice(LEN_BOUNDARIES + [rng.randrange(0, 300)])
    return rng.randbytes(n)


def peer_frames(rng, cfg, n_frames=None, allow_bad=True, big=False):
    """a list of (bytes, tag) frames as the PEER of an endpoint with `cfg` would send them, mostly valid, with at
    most a few deliberate violations"""
    srv = cfg.get("srv", 1)
    need_mask = bool(srv)  # peer of a server is a client: must mask
    out = []
    k = n_frames or rng.randrange(1, 6)
    bad_budget = 1 if (allow_bad and rng.random() < 0.5) else 0
    for _ in range(k):
        mask = rng.randbytes(4) if need_mask else None
        kind = rng.choice(["text", "bin", "frag", "ping", "pong", "close", "bad"] if bad_budget else
                          ["text", "bin", "frag", "ping", "pong", "close", "bin", "text"])
        if kind == "text":
            out.append((frame(1, rand_payload(rng, True), mask=mask), "text"))
        elif kind == "bin":
            n = rng.choice(BIG_LENS) if (big and rng.random() < 0.3) else None
            out.append((frame(2, rand_payload(rng, False, n), mask=mask), "bin"))
        elif kind == "frag":
            parts = rng.randrange(2, 5)
            text = rng.random() < 0.5
            whole = rand_payload(rng, text)
            cuts = sorted(rng.randrange(0, len(whole) + 1) for _ in range(parts - 1))
            pieces = [whole[a:b] for a, b in zip([0] + cuts, cuts + [len(whole)])]
            for i, pc in enumerate(pieces):
                m = rng.randbytes(4) if need_mask else None
                out.append((frame((1 if text else 2) if i == 0 else 0, pc, fin=int(i == len(pieces) - 1), mask=m), "frag"))
                if rng.random() < 0.2:  # control frame interleaved inside a fragmented message
                    m2 = rng.randbytes(4) if need_mask else None
                    out.append((frame(9, rng.randbytes(rng.randrange(0, 10)), mask=m2), "ping"))
        elif kind == "ping":
            out.append((frame(9, rng.randbytes(rng.choice([0, 1, 125, 7])), mask=mask), "ping"))
        elif kind == "pong":
            out.append((frame(10, rng.randbytes(rng.choice([0, 1, 125, 7])), mask=mask), "pong"))
        elif kind == "close":
            code = rng.choice(CLOSE_CODES[:15] if not bad_budget else CLOSE_CODES)
            form = rng.choice(["empty", "code", "reason", "badreason" if bad_budget else "reason"])
            if form == "empty":
                pl = b""
            elif form == "code":
                pl = struct.pack("!H", code)
            elif form == "reason":
                pl = struct.pack("!H", code) + rng.choice(VALID_TEXT[:6]).encode("utf8")[:123]
            else:
                pl = struct.pack("!H", code) + rng.choice(INVALID_UTF8)
            out.append((frame(8, pl, mask=mask), "close"))
        else:
            bad_budget -= 1
            b = rng.choice(["rsv", "mask", "opcode", "ctlfrag", "ctllong", "len16", "len64small", "len64huge",
                            "close1", "utf8", "utf8trunc", "cont", "newmsg", "rsv1cont", "fragtrunc", "fragtrunc"])
            wrong = None if need_mask else rng.randbytes(4)
            if b == "rsv":
                out.append((frame(rng.choice([1, 2, 9]), b"x", rsv=rng.choice([1, 2, 3, 4, 5, 6, 7]), mask=mask), "bad-rsv"))
            elif b == "mask":
                out.append((frame(2, b"abc", mask=wrong), "bad-mask"))
            elif b == "opcode":
                out.append((frame(rng.choice([3, 4, 5, 6, 7, 11, 12, 13, 14, 15]), b"", mask=mask), "bad-opcode"))
            elif b == "ctlfrag":
                out.append((frame(rng.choice([8, 9, 10]), b"", fin=0, mask=mask), "bad-ctlfrag"))
            elif b == "ctllong":
                out.append((frame(rng.choice([9, 10, 8]), bytes(126), mask=mask), "bad-ctllong"))
            elif b == "len16":
                out.append((frame(2, bytes(rng.choice([0, 1, 125])), len_form=16, mask=mask), "bad-len16"))
            elif b == "len64small":
                out.append((frame(2, bytes(rng.choice([0, 126, 300])), len_form=64, mask=mask), "bad-len64"))
            elif b == "len64huge":
                out.append((frame(2, b"", len_form=64, declared_len=rng.choice([1 << 63, (1 << 64) - 1]), mask=mask), "bad-len64huge"))
            elif b == "close1":
                out.append((frame(8, b"\x03", mask=mask), "bad-close1"))
            elif b == "utf8":
                out.append((frame(1, b"ok" + rng.choice(INVALID_UTF8) + b"tail", mask=mask), "bad-utf8"))
            elif b == "utf8trunc":
                out.append((frame(1, "é".encode()[:1], mask=mask), "bad-utf8trunc"))
            elif b == "fragtrunc":
                # a FRAGMENTED text message whose reassembled payload ends inside a code point (the final frame is a
                # continuation frame, possibly empty)
                whole = rng.choice(["abc", "héllo wörld", ""]).encode() + rng.choice([b"\xe2\x82", b"\xc3", b"\xf0\x9f\x98"])
                nparts = rng.randrange(2, 4)
                cuts = sorted(rng.randrange(0, len(whole) + 1) for _ in range(nparts - 1))
                if rng.random() < 0.4:
                    cuts[-1] = len(whole)        # empty final fragment
                pieces = [whole[a:b2] for a, b2 in zip([0] + cuts, cuts + [len(whole)])]
                for i, pc in enumerate(pieces):
                    m = rng.randbytes(4) if need_mask else None
                    out.append((frame(1 if i == 0 else 0, pc, fin=int(i == len(pieces) - 1), mask=m), "bad-fragtrunc"))
                    if rng.random() < 0.2 and i < len(pieces) - 1:
                        m2 = rng.randbytes(4) if need_mask else None
                        out.append((frame(9, b"", mask=m2), "ping"))
            elif b == "cont":
                out.append((frame(0, b"x", mask=mask), "bad-cont"))
            elif b == "newmsg":
                m2 = rng.randbytes(4) if need_mask else None
                out.append((frame(2, b"a", fin=0, mask=mask), "frag"))
                out.append((frame(1, b"b", mask=m2), "bad-newmsg"))
            else:
                m2 = rng.randbytes(4) if need_mask else None
                out.append((frame(2, b"a", fin=0, mask=mask), "frag"))
                out.append((frame(0, b"b", rsv=4, mask=m2), "bad-rsv1cont"))
    return out


def segment(rng, data, mode=None):
    """split a byte string into reads"""
    n = len(data)
    mode = mode or rng.choice(["whole", "bytes", "random", "two", "hdr"])
    if n == 0 or mode == "whole":
        return [data]
    if mode == "bytes" and n <= 400:
        return [data[i:i + 1] for i in range(n)]
    if mode == "two":
        c = rng.randrange(0, n + 1)
        return [data[:c], data[c:]]
    if mode == "hdr":
        cuts = sorted(set(rng.randrange(0, min(n, 16) + 1) for _ in range(3)))
    else:
        cuts = sorted(set(rng.randrange(0, n + 1) for _ in range(rng.randrange(1, 8))))
    pieces = [data[a:b] for a, b in zip([0] + cuts, cuts + [n])]
    if rng.random() < 0.1:
        pieces.insert(rng.randrange(len(pieces) + 1), b"")
    return pieces


def rand_cfg(rng, role=None, timers=False):
    srv = rng.randrange(2) if role is None else int(role == "server")
    c = {"srv": srv, "fbd": int(rng.random() < 0.6), "echo": rng.randrange(2), "u8": int(rng.random() < 0.9)}
    if rng.random() < 0.2:
        c["ap"] = 0
    if srv:
        if rng.random() < 0.15:
            c["rm"] = 0
        if rng.random() < 0.15:
            c["ms"] = 1
    else:
        if rng.random() < 0.15:
            c["am"] = 1
        if rng.random() < 0.15:
            c["mc"] = 0
    if rng.random() < 0.25:
        c["mf"] = rng.choice([1, 2, 125, 126, 1000])
    if rng.random() < 0.25:
        c["mm"] = rng.choice([1, 2, 125, 126, 1000])
    if rng.random() < 0.2:
        c["af"] = rng.choice([1, 2, 125, 126])
    if timers:
        c["cht"] = rng.choice([0, SEC, 3 * SEC, SEC // 2])
        c["sdt"] = rng.choice([0, SEC, 2 * SEC])
        if rng.random() < 0.5:
            c["pi"] = rng.choice([SEC, 3 * SEC])
            c["pt"] = rng.choice([0, SEC, 2 * SEC])
            c["pr"] = rng.randrange(2)
            c["ps"] = rng.choice([12, 20, 125])
    return c


def api_ops(rng, n=None, valid_only=False):
    """send-API operations"""
    ops = []
    for _ in range(n or rng.randrange(1, 6)):
        k = rng.choice(["msg", "msgfrag", "prep", "stream", "mframe", "ping", "pong", "sync", "bad"] if not valid_only
                       else ["msg", "msgfrag", "prep", "stream", "mframe", "ping", "pong", "sync"])
        b = rng.randrange(2)
        pl = rand_payload(rng, not b)
        if k == "msg":
            ops.append(f"msg,{hx(pl)},{b},n,0")
        elif k == "msgfrag":
            n_ = len(pl)
            f = rng.choice([1, 2, 125, 126, max(1, n_ - 1), max(1, n_), n_ + 1])
            ops.append(f"msg,{hx(pl)},{b},{f},{rng.randrange(2)}")
        elif k == "sync":
            ops.append(f"msg,{hx(pl)},{b},n,1")
            ops.append(f"adv,{rng.choice([8, 16, 4, 100])}")
        elif k == "prep":
            ops.append(f"prep,{hx(pl)},{b}")
        elif k == "stream":
            ops.append(f"bm,{b}")
            for _f in range(rng.randrange(1, 4)):
                fl = rng.choice([0, 1, 5, 126, 200])
                ops.append(f"bf,{fl}")
                data = rng.randbytes(fl) if b else bytes(rng.choice(b"abcXYZ 09") for _ in range(fl))
                if fl == 0:
                    ops.append("fd,-,0")
                else:
                    cuts = sorted(set(rng.randrange(1, fl + 1) for _ in range(rng.randrange(0, 3))) - {fl})
                    for a, bb in zip([0] + cuts, cuts + [fl]):
                        ops.append(f"fd,{hx(data[a:bb])},{int(rng.random() < 0.2)}")
                    if rng.random() < 0.15:
                        ops.insert(len(ops) - 1, "fd,-,0")   # an empty chunk while the frame is still open
            ops.append("em")
        elif k == "mframe":
            ops.append(f"bm,{b}")
            for _f in range(rng.randrange(1, 3)):
                fl = rng.choice([0, 1, 125, 126, 300])
                ops.append(f"mf,{hx(rng.randbytes(fl) if b else bytes(rng.choice(b'abcXYZ 09') for _ in range(fl)))},0")
            ops.append("em")
        elif k == "ping":
            ops.append(f"ping,{hx(rng.randbytes(rng.choice([0, 1, 125])))}")
        elif k == "pong":
            ops.append(f"pong,{hx(rng.randbytes(rng.choice([0, 1, 125])))}")
        else:
            ops.append(rng.choice([f"ping,{hx(bytes(126))}", "em", "bf,3", "fd,00,0", "bm,0", "msg,61,0,0,0",
                                   "close,999,n", "close,n,6162", "close,1005,n"]))
    return ops


def close_op(rng, valid=True):
    code = rng.choice([1000, 3000, 4999, 3500] if valid else [1000, 3000, 1001, 999, 5000, 2999])
    form = rng.choice(["none", "code", "reason", "long"])
    if form == "none":
        return "close,n,n"
    if form == "code":
        return f"close,{code},n"
    if form == "reason":
        return f"close,{code},{hx(rng.choice(VALID_TEXT[1:6]).encode())}"
    return f"close,{code},{hx(('é' * 80).encode())}"


def mixed_script(rng, timers=True):
    """anything goes: correspondence fodder"""
    cfg = rand_cfg(rng, timers=timers)
    ops = []
    for _ in range(rng.randrange(1, 8)):
        r = rng.random()
        if r < 0.4:
            data = b"".join(f for f, _ in peer_frames(rng, cfg))
            for piece in segment(rng, data):
                ops.append("feed," + hx(piece))
        elif r < 0.65:
            ops += api_ops(rng)
        elif r < 0.75:
            ops.append(close_op(rng, valid=rng.random() < 0.8))
        elif r < 0.9:
            ops.append(f"adv,{rng.choice([8, 100, SEC // 2, SEC - 8, SEC, SEC + 8, 2 * SEC, 5 * SEC])}")
        else:
            ops.append("lost")
    if rng.random() < 0.7:
        ops.append(f"adv,{rng.choice([SEC, 3 * SEC, 10 * SEC])}")
    if rng.random() < 0.8:
        ops.append("lost")
    if rng.random() < 0.3:
        ops.append(f"adv,{10 * SEC}")
        ops.append("msg,6162,1,n,0")
    return {"cfg": cfg, "start": "open", "ops": ops}
