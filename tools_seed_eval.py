#!/usr/bin/env python3
"""Evaluate a seeded change: tools_seed_eval.py <seed-worktree> <PROP> [more props...] [--name NAME] [--tier quick|thorough]
1. re-verify the seeder's claim in its worktree (demo passes on the unmodified source, fails with the patch);
2. apply the patch to a scratch copy of /repo/src and run ./check PROP against it (VERIF_REPO);
3. record everything under seeded/<name>/ (patch.diff, demo, meta.json with our observations)."""
import json
import os
import shutil
import subprocess
import sys
import tempfile
from pathlib import Path

V = Path(__file__).parent
args = [a for a in sys.argv[1:] if not a.startswith("--")]
opts = {}
it = iter(sys.argv[1:])
for a in it:
    if a.startswith("--"):
        opts[a[2:]] = next(it)
args = [a for a in args if a not in opts.values()]
wt = Path(args[0])
props = [p.upper() for p in args[1:]]
sid = wt.name
name = opts.get("name", sid)
tier = opts.get("tier", "quick")
demo = next(wt.glob("demo_*.py"))
patch = wt / "patch.diff"


def run(cmd, cwd, env=None, timeout=3000, keep=1500):
    e = dict(os.environ)
    e.update(env or {})
    p = subprocess.run(cmd, cwd=cwd, env=e, capture_output=True, text=True, timeout=timeout)
    out = p.stdout + p.stderr
    return p.returncode, (out[-keep:] if keep else out)


env = {"PYTHONPATH": str(wt / "src")}
# 1. seeder's claim
subprocess.run(["git", "checkout", "--", "src"], cwd=wt, check=True)
rc_clean, out_clean = run(["/venv/bin/python", demo.name], wt, env)
chk = subprocess.run(["git", "apply", "--check", "patch.diff"], cwd=wt, capture_output=True, text=True)
subprocess.run(["git", "apply", "patch.diff"], cwd=wt, check=True)
rc_mut, out_mut = run(["/venv/bin/python", demo.name], wt, env)
print(f"[{name}] demo on unmodified source: rc={rc_clean}; with patch: rc={rc_mut}")
# 2. our checks against a scratch copy with the patch
scratch = Path(tempfile.mkdtemp(prefix=f"abverif-seed-{sid}-"))
results = {}
try:
    shutil.copytree("/repo/src", scratch / "src", ignore=shutil.ignore_patterns("__pycache__", "*.o"))
    subprocess.run(["git", "init", "-q"], cwd=scratch, check=True)
    a = subprocess.run(["git", "apply", str(patch)], cwd=scratch, capture_output=True, text=True)
    if a.returncode != 0:
        print("patch does not apply to /repo copy:", a.stderr[:500])
        sys.exit(2)
    for prop in props:
        rc, out = run([str(V / "check"), prop, "--tier", tier], V, {"VERIF_REPO": str(scratch)}, timeout=6000, keep=0)
        lines = [l for l in out.splitlines() if l.startswith("VIOLATION") or "done rc" in l]
        keys = []
        for l in lines:
            if l.startswith("VIOLATION") and "replay=" in l:
                rp = l.split("replay=")[1].split()[0]
                try:
                    j = json.loads(Path(rp).read_text())
                    keys.append(j.get("key") or j.get("kind"))
                    (V / "seeded" / name).mkdir(parents=True, exist_ok=True)
                    shutil.copy(rp, V / "seeded" / name / ("replay_" + Path(rp).name))
                except Exception as e:  # noqa
                    keys.append("?" + str(e)[:50])
        results[prop] = {"exit": rc, "violation_keys": keys, "no_failing_input_found": any("no-failing-input-found" in l for l in lines)}
        print(f"[{name}] ./check {prop} --tier {tier} with the patch: exit {rc} keys {keys}")
finally:
    shutil.rmtree(scratch, ignore_errors=True)
# 3. record
d = V / "seeded" / name
d.mkdir(parents=True, exist_ok=True)
shutil.copy(patch, d / "patch.diff")
shutil.copy(demo, d / demo.name)
meta = {}
if (wt / "meta.json").exists():
    try:
        meta = json.loads((wt / "meta.json").read_text())
    except Exception:
        meta = {"seeder_meta_unparsable": True}
meta["verified_by_integrator"] = {
    "demo_exit_unmodified": rc_clean, "demo_exit_with_patch": rc_mut,
    "demo_output_with_patch_tail": out_mut[-600:],
    "patch_applies_to_repo_head": chk.returncode == 0,
    "checks": results, "tier": tier,
    "ran": f"cd {wt} && git checkout -- src && PYTHONPATH={wt}/src /venv/bin/python {demo.name}; git apply patch.diff; same demo; "
           f"VERIF_REPO=<scratch copy of /repo/src with patch> ./check <PROP> --tier {tier}",
}
(d / "meta.json").write_text(json.dumps(meta, indent=1))
print(json.dumps(meta["verified_by_integrator"]["checks"]))
