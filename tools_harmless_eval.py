#!/usr/bin/env python3
"""Evaluate a HARMLESS (behaviour-preserving) change: tools_harmless_eval.py <worktree> <PROP> [more props] [--name NAME]
applies <worktree>/patch.diff to a scratch copy of /repo/src, runs ./check PROP --tier quick against it (VERIF_REPO) and
records the outcome under seeded/<name>/ (patch.diff, meta.json).  Expected: exit 0 (no alarm on code where the property holds)."""
import json
import os
import shutil
import subprocess
import sys
import tempfile
from pathlib import Path

V = Path(__file__).parent
args = [a for a in sys.argv[1:] if not a.startswith("--")]
opts = {}
it = iter(sys.argv[1:])
for a in it:
    if a.startswith("--"):
        opts[a[2:]] = next(it)
args = [a for a in args if a not in opts.values()]
wt = Path(args[0])
props = [p.upper() for p in args[1:]]
name = opts.get("name", "harmless_" + wt.name)
patch = wt / "patch.diff"
scratch = Path(tempfile.mkdtemp(prefix="abverif-harmless-"))
res = {}
try:
    shutil.copytree("/repo/src", scratch / "src", ignore=shutil.ignore_patterns("__pycache__", "*.o"))
    subprocess.run(["git", "init", "-q"], cwd=scratch, check=True)
    a = subprocess.run(["git", "apply", str(patch)], cwd=scratch, capture_output=True, text=True)
    if a.returncode != 0:
        print("patch does not apply to /repo copy:", a.stderr[:500])
        sys.exit(2)
    for prop in props:
        e = dict(os.environ, VERIF_REPO=str(scratch))
        p = subprocess.run([str(V / "check"), prop, "--tier", "quick"], cwd=V, env=e, capture_output=True, text=True, timeout=6000)
        out = p.stdout + p.stderr
        lines = [l[:300] for l in out.splitlines() if l.startswith("VIOLATION") or "problems=" in l or "done rc" in l]
        res[prop] = {"exit": p.returncode, "lines": lines}
        print(f"[{name}] ./check {prop} --tier quick with the harmless patch: exit {p.returncode}")
        for l in lines:
            print("   ", l)
finally:
    shutil.rmtree(scratch, ignore_errors=True)
d = V / "seeded" / name
d.mkdir(parents=True, exist_ok=True)
shutil.copy(patch, d / "patch.diff")
meta = json.loads((wt / "meta.json").read_text()) if (wt / "meta.json").exists() else {}
meta["kind"] = "harmless"
meta["checks"] = res
(d / "meta.json").write_text(json.dumps(meta, indent=1))
# restore the generated Lean files of the real tree
subprocess.run([sys.executable, str(V / "tools_setup.py")], capture_output=True)
