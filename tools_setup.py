#!/usr/bin/env python3
"""setup: run every translator (/repo -> lean/Abverif/Generated), regenerate Driver.lean/Abverif.lean, lake build."""
import importlib
import random
import subprocess
import sys
import time
from pathlib import Path
V = Path(__file__).parent
sys.path.insert(0, str(V))


def translate_all():
    class Ctx:
        pass
    ctx = Ctx()
    ctx.tier, ctx.seed, ctx.rng, ctx.t0 = "quick", 0, random.Random(0), time.time()
    ctx.log = lambda *a: print("[setup]", *a, file=sys.stderr)
    done = set()
    for f in sorted((V / "harness").glob("c[0-9][0-9].py")):
        mod = importlib.import_module("harness." + f.stem)
        for tr in getattr(mod, "TRANSLATORS", []):
            if tr.__module__ + "." + tr.__name__ in done:
                continue
            done.add(tr.__module__ + "." + tr.__name__)
            tr(ctx)
    return sorted(done)


if __name__ == "__main__":
    print("translators:", translate_all())
    subprocess.check_call([sys.executable, str(V / "tools_gen_driver.py")])
    if "--no-build" not in sys.argv:
        sys.exit(subprocess.call(["lake", "build", "Abverif", "driver"], cwd=V / "lean"))
