"""translator: the URI / realm / custom-attribute regexes of autobahn/wamp/message.py -> Lean.

Writes (on every run, only if changed)
  lean/Abverif/Generated/UnicodeTables.lean   digitRanges / spaceRanges: the code points for which the *live* `re`
                                              of the interpreter under test (core.PY) matches r"\\d" / r"\\s"
  lean/Abverif/Generated/UriPatterns.lean     for each of the 11 names `<name>_src : String` (raw pattern text) and
                                              `<name> : Pat` (AST of Abverif/Model/Rx.lean), plus `allPatterns`

Supported regex subset (anything else raises TranslateError, i.e. "the source lost its shape"):
  `^` only as first character, `$` or `\\Z` only as the last token (exactly one of them, mandatory);
  literals (incl. escaped ASCII punctuation such as `\\.` `\\-`); classes `[...]` / `[^...]` with single characters,
  ranges, escaped punctuation, `\\d`, `\\s`; bare `\\d` `\\s`; capturing groups `( )`; `|`; greedy `* + ? {m} {m,n}`.
The patterns must be given as `NAME = re.compile(<one str literal>)` without flags at module level.
"""
import ast
import json
import os
import subprocess
from pathlib import Path

from vlib import core

NAMES = [
    "_URI_PAT_REALM_NAME",
    "_URI_PAT_REALM_NAME_ETH",
    "_URI_PAT_REALM_NAME_ENS",
    "_URI_PAT_REALM_NAME_ENS_REVERSE",
    "_URI_PAT_STRICT_EMPTY",
    "_URI_PAT_LOOSE_EMPTY",
    "_URI_PAT_STRICT_NON_EMPTY",
    "_URI_PAT_LOOSE_NON_EMPTY",
    "_URI_PAT_STRICT_LAST_EMPTY",
    "_URI_PAT_LOOSE_LAST_EMPTY",
    "_CUSTOM_ATTRIBUTE",
]


class TranslateError(Exception):
    pass


# --------------------------------------------------------------------------- source extraction

def extract_patterns(path: Path) -> dict:
    """{name: pattern string} for NAMES, from module-level `NAME = re.compile("...")` (no flags)."""
    tree = ast.parse(path.read_text(encoding="utf-8"), filename=str(path))
    found = {}
    for node in tree.body:
        if isinstance(node, ast.AnnAssign) and node.value is not None:
            targets, value = [node.target], node.value
        elif isinstance(node, ast.Assign):
            targets, value = node.targets, node.value
        else:
            continue
        for t in targets:
            if not (isinstance(t, ast.Name) and t.id in NAMES):
                continue
            name = t.id
            if name in found:
                raise TranslateError(f"{path}: {name} is assigned more than once")
            ok = (
                isinstance(value, ast.Call)
                and isinstance(value.func, ast.Attribute)
                and value.func.attr == "compile"
                and isinstance(value.func.value, ast.Name)
                and value.func.value.id == "re"
            )
            if not ok:
                raise TranslateError(f"{path}:{node.lineno}: {name} is not of the form re.compile(<str>)")
            if len(value.args) != 1 or value.keywords:
                raise TranslateError(f"{path}:{node.lineno}: {name}: re.compile with flags/extra arguments is not supported")
            a = value.args[0]
            if not (isinstance(a, ast.Constant) and isinstance(a.value, str)):
                raise TranslateError(f"{path}:{node.lineno}: {name}: pattern is not a single str literal")
            found[name] = a.value
    missing = [n for n in NAMES if n not in found]
    if missing:
        raise TranslateError(f"{path}: pattern definition(s) not found: {', '.join(missing)}")
    return found


# --------------------------------------------------------------------------- regex subset parser
# AST (python side):  ("eps",) ("cls", neg, items) ("seq", a, b) ("alt", a, b) ("star", a) ("plus", a) ("opt", a)
#                     ("rep", a, m, n);   items: ("ch", c) ("range", lo, hi) ("digit",) ("space",)

SPECIAL = set("\\^$.|?*+()[]{}")
PUNCT = set("!\"#$%&'()*+,-./:;<=>?@[\\]^_`{|}~ ")


class _P:
    def __init__(self, name, pat):
        self.name, self.pat, self.i = name, pat, 0

    def err(self, msg):
        raise TranslateError(f"{self.name}: unsupported regex syntax at offset {self.i} of {self.pat!r}: {msg}")

    def peek(self):
        return self.pat[self.i] if self.i < len(self.pat) else None

    def take(self):
        c = self.pat[self.i]
        self.i += 1
        return c

    # pattern := '^' alt ('$' | '\Z') EOF
    def pattern(self):
        if self.peek() != "^":
            self.err("pattern must start with '^'")
        self.take()
        body = self.alt(top=True)
        if self.pat.startswith("$", self.i):
            self.i += 1
            anchor = "dollar"
        elif self.pat.startswith("\\Z", self.i):
            self.i += 2
            anchor = "absEnd"
        else:
            self.err("expected the end anchor '$' or '\\Z'")
        if self.i != len(self.pat):
            self.err("text after the end anchor")
        return body, anchor

    def at_end_anchor(self):
        return self.pat.startswith("$", self.i) or self.pat.startswith("\\Z", self.i)

    def alt(self, top=False):
        branches = [self.seq(top)]
        while self.peek() == "|":
            if top:
                # "^a|b$" anchors only one side each: not the shape this model supports
                self.err("top-level alternation (anchors would bind to one branch only)")
            self.take()
            branches.append(self.seq(top))
        r = branches[-1]
        for b in reversed(branches[:-1]):
            r = ("alt", b, r)
        return r

    def seq(self, top):
        items = []
        while True:
            c = self.peek()
            if c is None or c in "|)":
                break
            if self.at_end_anchor():
                if not top:
                    self.err("end anchor inside a group")
                break
            items.append(self.quantified())
        if not items:
            return ("eps",)
        r = items[-1]
        for it in reversed(items[:-1]):
            r = ("seq", it, r)
        return r

    def quantified(self):
        a = self.atom()
        c = self.peek()
        q = None
        if c == "*":
            self.take()
            q = ("star", a)
        elif c == "+":
            self.take()
            q = ("plus", a)
        elif c == "?":
            self.take()
            q = ("opt", a)
        elif c == "{":
            j = self.pat.find("}", self.i)
            if j < 0:
                self.err("unterminated '{'")
            inner = self.pat[self.i + 1:j]
            parts = inner.split(",")
            if not (1 <= len(parts) <= 2) or not all(p.isascii() and p.isdigit() for p in parts):
                self.err("only {m} and {m,n} with explicit decimal bounds are supported")
            m = int(parts[0])
            n = int(parts[-1])
            if m > n:
                self.err("{m,n} with m > n")
            self.i = j + 1
            q = ("rep", a, m, n)
        if q is None:
            return a
        if self.peek() in ("?", "+", "*", "{"):
            self.err("lazy / possessive / stacked quantifiers are not supported")
        return q

    def escape(self, in_class):
        """after a backslash; returns an item"""
        if self.peek() is None:
            self.err("dangling backslash")
        c = self.take()
        if c == "d":
            return ("digit",)
        if c == "s":
            return ("space",)
        if c in PUNCT:
            return ("ch", c)
        self.i -= 1
        self.err(f"escape \\{c} is not supported")

    def atom(self):
        c = self.peek()
        if c == "(":
            self.take()
            if self.peek() == "?":
                self.err("(?...) group extensions are not supported")
            r = self.alt()
            if self.peek() != ")":
                self.err("missing ')'")
            self.take()
            return r
        if c == "[":
            return self.cclass()
        if c == "\\":
            self.take()
            return ("cls", False, [self.escape(False)])
        if c in SPECIAL:
            self.err(f"metacharacter {c!r} is not supported here")
        self.take()
        return ("cls", False, [("ch", c)])

    def cclass(self):
        self.take()  # [
        neg = False
        if self.peek() == "^":
            self.take()
            neg = True
        items = []
        first = True
        while True:
            c = self.peek()
            if c is None:
                self.err("unterminated character class")
            if c == "]":
                if first:
                    self.err("']' as first class member is not supported")
                self.take()
                break
            first = False
            if c == "[":
                self.err("'[' inside a character class is not supported")
            if c == "\\":
                self.take()
                lo = self.escape(True)
            else:
                self.take()
                lo = ("ch", c)
            # range?
            if self.peek() == "-" and self.i + 1 < len(self.pat) and self.pat[self.i + 1] != "]":
                if lo[0] != "ch":
                    self.err("\\d / \\s as range endpoint")
                self.take()  # -
                if self.peek() == "\\":
                    self.take()
                    hi = self.escape(True)
                else:
                    hi = ("ch", self.take())
                if hi[0] != "ch":
                    self.err("\\d / \\s as range endpoint")
                if ord(lo[1]) > ord(hi[1]):
                    self.err("bad character range")
                items.append(("range", lo[1], hi[1]))
            else:
                items.append(lo)
        if not items:
            self.err("empty character class")
        return ("cls", neg, items)


def parse_regex(name, pat):
    return _P(name, pat).pattern()


# --------------------------------------------------------------------------- Lean emission

def lean_char(c):
    o = ord(c)
    if 0xD800 <= o <= 0xDFFF:
        raise TranslateError(f"surrogate U+{o:04X} cannot be represented as a Lean Char")
    if c == "\\":
        return "'\\\\'"
    if c == "'":
        return "'\\''"
    if 0x20 <= o < 0x7F:
        return f"'{c}'"
    return "'\\u{%x}'" % o


def lean_string(s):
    out = []
    for c in s:
        o = ord(c)
        if c == "\\":
            out.append("\\\\")
        elif c == '"':
            out.append('\\"')
        elif 0x20 <= o < 0x7F:
            out.append(c)
        else:
            if 0xD800 <= o <= 0xDFFF:
                raise TranslateError(f"surrogate U+{o:04X} in a pattern string")
            out.append("\\u{%x}" % o)
    return '"' + "".join(out) + '"'


def lean_item(it):
    if it[0] == "ch":
        return f".ch {lean_char(it[1])}"
    if it[0] == "range":
        return f".range {lean_char(it[1])} {lean_char(it[2])}"
    return "." + it[0]


def lean_rx(r):
    k = r[0]
    if k == "eps":
        return ".eps"
    if k == "cls":
        return "(.cls ⟨%s, [%s]⟩)" % ("true" if r[1] else "false", ", ".join(lean_item(i) for i in r[2]))
    if k in ("seq", "alt"):
        return f"(.{k} {lean_rx(r[1])} {lean_rx(r[2])})"
    if k in ("star", "plus", "opt"):
        return f"(.{k} {lean_rx(r[1])})"
    if k == "rep":
        return f"(.rep {lean_rx(r[1])} {r[2]} {r[3]})"
    raise AssertionError(k)


# --------------------------------------------------------------------------- unicode tables from the live `re`

_TABLE_SCRIPT = r"""
import json, re, sys
cps = [c for c in range(0x110000) if not (0xD800 <= c <= 0xDFFF)]
big = "".join(map(chr, cps))
def ranges(p):
    pat = re.compile(p)
    hit = [cps[m.start()] for m in pat.finditer(big)]
    # spot-check the bulk scan against single-character re.match
    hs = set(hit)
    for c in list(range(0, 0x3100)) + hit + [h + 1 for h in hit if h + 1 < 0x110000 and not (0xD800 <= h + 1 <= 0xDFFF)]:
        if (re.match(p, chr(c)) is not None) != (c in hs):
            raise SystemExit("bulk scan disagrees with re.match at U+%04X" % c)
    out = []
    for c in hit:
        if out and out[-1][1] + 1 == c:
            out[-1][1] = c
        else:
            out.append([c, c])
    return out
json.dump({"digit": ranges(r"\d"), "space": ranges(r"\s"), "version": sys.version}, sys.stdout)
"""


def unicode_tables():
    p = subprocess.run([core.PY, "-c", _TABLE_SCRIPT], capture_output=True, text=True, cwd="/", timeout=600)
    if p.returncode != 0:
        raise TranslateError(f"computing \\d/\\s tables under {core.PY} failed: {p.stderr.strip()[-400:]}")
    return json.loads(p.stdout)


def _fmt_ranges(rs):
    lines, cur = [], "  ["
    for k, (lo, hi) in enumerate(rs):
        tok = f"({lo}, {hi})" + (", " if k + 1 < len(rs) else "")
        if len(cur) + len(tok) > 100:
            lines.append(cur.rstrip())
            cur = "   "
        cur += tok
    lines.append(cur + "]")
    return "\n".join(lines)


def render_tables(tab):
    return (
        "/-\nGENERATED by translate/uri_patterns.py — do not edit.\n"
        "Maximal code point ranges (surrogates U+D800..DFFF skipped) for which the `re` module of the interpreter\n"
        f"under test matches r\"\\d\" / r\"\\s\" on a one-character str.  Interpreter: {tab['version'].split()[0]}\n-/\n"
        "namespace Abverif.Rx\n\n"
        "def digitRanges : List (Nat × Nat) :=\n" + _fmt_ranges(tab["digit"]) + "\n\n"
        "def spaceRanges : List (Nat × Nat) :=\n" + _fmt_ranges(tab["space"]) + "\n\n"
        "end Abverif.Rx\n"
    )


def render_patterns(pats):
    out = [
        "import Abverif.Model.Rx",
        "/-",
        "GENERATED by translate/uri_patterns.py from src/autobahn/wamp/message.py — do not edit.",
        "`<name>_src` is the raw pattern text, `<name>` its AST (`^` implicit, end anchor explicit).",
        "-/",
        "namespace Abverif.Rx",
        "",
    ]
    for n in NAMES:
        src = pats[n]
        body, anchor = parse_regex(n, src)
        out.append(f"def {n}_src : String := {lean_string(src)}")
        out.append(f"def {n} : Pat :=\n  ⟨{lean_rx(body)},\n   .{anchor}⟩")
        out.append("")
    out.append("def allPatterns : List (String × Pat) :=\n  [" + ",\n   ".join(f'("{n}", {n})' for n in NAMES) + "]")
    out.append("")
    out.append("def allSources : List (String × String) :=\n  [" + ",\n   ".join(f'("{n}", {n}_src)' for n in NAMES) + "]")
    out.append("")
    out.append("end Abverif.Rx")
    return "\n".join(out) + "\n"


def translate(ctx=None, lean_root=None):
    root = Path(lean_root or os.environ.get("VERIF_LEAN_OUT") or core.LEAN)
    pats = extract_patterns(core.SRC / "wamp" / "message.py")
    text_p = render_patterns(pats)          # parse first: fail before touching any file
    text_t = render_tables(unicode_tables())
    gen = root / "Abverif" / "Generated"
    a = core.write_if_changed(gen / "UnicodeTables.lean", text_t)
    b = core.write_if_changed(gen / "UriPatterns.lean", text_p)
    if ctx is not None and hasattr(ctx, "log"):
        ctx.log(f"uri_patterns: UnicodeTables {'written' if a else 'unchanged'}, UriPatterns {'written' if b else 'unchanged'}")


if __name__ == "__main__":
    translate()
