"""C09 translators: /repo source -> lean/Abverif/Generated/Utf8*.lean (rewritten on every run).

  Utf8TablePy.lean    `tablePy : Nat -> Nat`   from the UTF8VALIDATOR_DFA tuple of websocket/utf8validator.py (ast),
                      plus UTF8_ACCEPT / UTF8_REJECT
  Utf8TableC.lean     `tableC : Nat -> Nat`    from the `UTF8VALIDATOR_DFA[] = { ... }` initialiser of nvx/_utf8validator.c,
                      plus the C `#define UTF8_ACCEPT/UTF8_REJECT`
  Utf8UnrolledC.lean  `unrolledC : Nat -> Nat -> Nat`  from the `DFA_TRANSITION(state, octet)` macro (if-chain) of the C file
  Utf8LoopC.lean      `tableLoopGuardsReject`, `unrolledLoopGuardsReject : Bool`  from the `while (...)` conditions of
                      `_nvx_utf8vld_validate_table` / `_nvx_utf8vld_validate_unrolled`: `i < length` -> false (the loop body
                      runs when the call is entered in the reject state, so the rejection is reported again: repaired F1),
                      `i < length && state != 1` -> true (the loop is skipped and the rejection is forgotten: F1)

The tables are emitted as functions with one leaf per cell, shaped as a balanced decision tree on the index (a lookup is
~9 comparisons for the kernel under `decide +kernel`; a flat 400-arm `match` on Nat literals was measured 10x slower);
an index outside the table gives 999 ("IndexError").  Every translator raises `ShapeError` when the source no
longer has the shape it reads (the check then reports the proof as broken and still runs the search).
"""
import ast
import re
from pathlib import Path

from vlib import core

GEN = core.LEAN / "Abverif" / "Generated"
OUT_OF_RANGE = 999


class ShapeError(Exception):
    pass


# ----------------------------------------------------------------------------- python table

def read_py_table(path=None):
    path = Path(path or core.SRC / "websocket" / "utf8validator.py")
    tree = ast.parse(path.read_text())
    found = {}
    for node in tree.body:
        if isinstance(node, ast.Assign) and len(node.targets) == 1 and isinstance(node.targets[0], ast.Name):
            name = node.targets[0].id
            if name in ("UTF8VALIDATOR_DFA", "UTF8_ACCEPT", "UTF8_REJECT"):
                if name in found:
                    raise ShapeError(f"{name} assigned twice in {path}")
                try:
                    found[name] = ast.literal_eval(node.value)
                except Exception as e:
                    raise ShapeError(f"{name} is not a literal: {e}")
    for n in ("UTF8VALIDATOR_DFA", "UTF8_ACCEPT", "UTF8_REJECT"):
        if n not in found:
            raise ShapeError(f"{n} not found at module level of {path}")
    tbl = found["UTF8VALIDATOR_DFA"]
    if not isinstance(tbl, tuple) or not all(type(x) is int for x in tbl):
        raise ShapeError("UTF8VALIDATOR_DFA is not a tuple of ints")
    if not all(0 <= x <= 255 for x in tbl):
        raise ShapeError("UTF8VALIDATOR_DFA has a value outside 0..255 (bytes() would raise)")
    for n in ("UTF8_ACCEPT", "UTF8_REJECT"):
        if type(found[n]) is not int:
            raise ShapeError(f"{n} is not an int")
    return list(tbl), found["UTF8_ACCEPT"], found["UTF8_REJECT"]


# ----------------------------------------------------------------------------- C tokenizer

_TOK = re.compile(r"""
    (?P<ws>\s+)
  | (?P<num>0[xX][0-9a-fA-F]+|\d+)
  | (?P<id>[A-Za-z_][A-Za-z0-9_]*)
  | (?P<op>==|!=|>=|<=|&&|\|\||[{}()\[\];,=<>+\-*/%&|!~^?:.\#])
""", re.X)


def strip_c_comments(src):
    out = []
    i, n = 0, len(src)
    while i < n:
        if src.startswith("//", i):
            while i < n and src[i] != "\n":
                i += 1
        elif src.startswith("/*", i):
            j = src.find("*/", i + 2)
            if j < 0:
                raise ShapeError("unterminated C comment")
            out.append(" ")
            i = j + 2
        elif src[i] == '"':
            j = i + 1
            while j < n and src[j] != '"':
                j += 2 if src[j] == "\\" else 1
            out.append(src[i:j + 1])
            i = j + 1
        else:
            out.append(src[i])
            i += 1
    return "".join(out)


def tokenize(src):
    toks = []
    i = 0
    while i < len(src):
        m = _TOK.match(src, i)
        if not m:
            raise ShapeError(f"cannot tokenize C at {src[i:i + 20]!r}")
        i = m.end()
        if m.lastgroup != "ws":
            toks.append((m.lastgroup, m.group()))
    return toks


def _c_source(path=None):
    path = Path(path or core.SRC / "nvx" / "_utf8validator.c")
    return path.read_text()


def read_c_defines(src):
    out = {}
    for name in ("UTF8_ACCEPT", "UTF8_REJECT"):
        ms = re.findall(r"^[ \t]*#[ \t]*define[ \t]+" + name + r"[ \t]+(\S+)[ \t]*$", strip_c_comments(src), re.M)
        if len(ms) != 1:
            raise ShapeError(f"expected exactly one #define {name}, found {len(ms)}")
        try:
            out[name] = int(ms[0], 0)
        except ValueError:
            raise ShapeError(f"#define {name} is not an integer literal")
    return out["UTF8_ACCEPT"], out["UTF8_REJECT"]


def read_c_table(src):
    s = strip_c_comments(src)
    # the declaration is duplicated under #if defined(_MSC_VER) / #else; exactly one initialiser follows
    decls = [m.end() for m in re.finditer(r"\bUTF8VALIDATOR_DFA\s*\[\s*\]", s)]
    if not decls:
        raise ShapeError("UTF8VALIDATOR_DFA[] declaration not found")
    inits = re.findall(r"UTF8VALIDATOR_DFA\s*\[\s*\][^;{]*=\s*(?:#endif\s*)?\{([^}]*)\}\s*;", s)
    if len(inits) != 1:
        raise ShapeError(f"expected exactly one UTF8VALIDATOR_DFA[] initialiser, found {len(inits)}")
    cells = [c.strip() for c in inits[0].split(",")]
    if cells and cells[-1] == "":
        cells.pop()
    vals = []
    for c in cells:
        if not re.fullmatch(r"0[xX][0-9a-fA-F]+|\d+", c):
            raise ShapeError(f"table cell {c!r} is not an integer literal")
        if re.fullmatch(r"0\d+", c):
            raise ShapeError(f"octal literal {c!r} in table")
        vals.append(int(c, 0))
    if not re.search(r"const\s+uint8_t\s+UTF8VALIDATOR_DFA", s):
        raise ShapeError("UTF8VALIDATOR_DFA is no longer `const uint8_t`")
    if not all(0 <= v <= 255 for v in vals):
        raise ShapeError("C table has a value outside uint8_t")
    return vals


# ----------------------------------------------------------------------------- DFA_TRANSITION macro

class _P:
    """recursive descent over the macro body:
         stmt  := 'if' '(' cond ')' block [ 'else' (stmt | block) ]
         block := '{' { assign } '}'
         assign:= <statevar> '=' num ';'
         cond  := or ;  or := and { '||' and } ;  and := atom { '&&' atom }
         atom  := '(' cond ')' | ident ('=='|'!='|'>='|'<='|'>'|'<') num
    """

    def __init__(self, toks, state, octet):
        self.t, self.i, self.state, self.octet = toks, 0, state, octet

    def peek(self):
        return self.t[self.i] if self.i < len(self.t) else (None, None)

    def eat(self, val=None, kind=None):
        k, v = self.peek()
        if (val is not None and v != val) or (kind is not None and k != kind):
            raise ShapeError(f"DFA_TRANSITION: expected {val or kind}, got {v!r} at token {self.i}")
        self.i += 1
        return v

    def stmt(self):
        self.eat("if")
        self.eat("(")
        c = self.cond()
        self.eat(")")
        then = self.block()
        els = None
        if self.peek()[1] == "else":
            self.eat("else")
            els = self.stmt() if self.peek()[1] == "if" else self.block()
        return ("if", c, then, els)

    def block(self):
        self.eat("{")
        body = []
        while self.peek()[1] != "}":
            if self.peek()[1] == "if":
                body.append(self.stmt())
                continue
            name = self.eat(kind="id")
            if name != self.state:
                raise ShapeError(f"DFA_TRANSITION assigns to {name!r}, not to the state parameter")
            self.eat("=")
            n = int(self.eat(kind="num"), 0)
            self.eat(";")
            body.append(("set", n))
        self.eat("}")
        if len(body) > 1:
            raise ShapeError("DFA_TRANSITION: block with more than one statement")
        return body[0] if body else ("keep",)

    def cond(self):
        a = self.conj()
        while self.peek()[1] == "||":
            self.eat("||")
            a = ("or", a, self.conj())
        return a

    def conj(self):
        a = self.atom()
        while self.peek()[1] == "&&":
            self.eat("&&")
            a = ("and", a, self.atom())
        return a

    def atom(self):
        if self.peek()[1] == "(":
            self.eat("(")
            c = self.cond()
            self.eat(")")
            return c
        name = self.eat(kind="id")
        if name not in (self.state, self.octet):
            raise ShapeError(f"DFA_TRANSITION tests unknown variable {name!r}")
        op = self.eat(kind="op")
        if op not in ("==", "!=", ">=", "<=", ">", "<"):
            raise ShapeError(f"DFA_TRANSITION: unsupported comparison {op!r}")
        lit = self.eat(kind="num")
        if re.fullmatch(r"0\d+", lit):
            raise ShapeError(f"octal literal {lit!r} in DFA_TRANSITION")
        return ("cmp", "state" if name == self.state else "octet", op, int(lit, 0))


def read_c_macro(src):
    m = re.search(r"^[ \t]*#[ \t]*define[ \t]+DFA_TRANSITION[ \t]*\(\s*(\w+)\s*,\s*(\w+)\s*\)((?:.*\\\n)*.*)$", src, re.M)
    if not m:
        raise ShapeError("#define DFA_TRANSITION(state, octet) not found")
    if len(re.findall(r"#[ \t]*define[ \t]+DFA_TRANSITION\b", src)) != 1:
        raise ShapeError("DFA_TRANSITION defined more than once")
    state, octet, body = m.group(1), m.group(2), m.group(3)
    body = strip_c_comments(body.replace("\\\n", "\n"))
    toks = tokenize(body)
    p = _P(toks, state, octet)
    tree = p.stmt()
    if p.i != len(toks):
        raise ShapeError(f"DFA_TRANSITION: trailing tokens after the if-chain: {toks[p.i:p.i + 5]}")
    return tree


def read_c_loop_guard(src, fname):
    """the condition of the single `while` loop of C function `fname`: does it also test `state != 1`?"""
    s = strip_c_comments(src)
    m = re.search(r"\bint\s+" + re.escape(fname) + r"\s*\([^)]*\)\s*\{", s)
    if not m:
        raise ShapeError(f"function {fname} not found")
    # body up to the matching brace
    depth, i = 1, m.end()
    while i < len(s) and depth:
        depth += {"{": 1, "}": -1}.get(s[i], 0)
        i += 1
    if depth:
        raise ShapeError(f"unbalanced braces in {fname}")
    body = s[m.end():i - 1]
    conds = re.findall(r"\bwhile\s*\(([^{]*)\)\s*\{", body)
    if len(conds) != 1 or re.search(r"\b(for|do|goto)\b", body):
        raise ShapeError(f"{fname}: expected exactly one while loop, found {len(conds)}")
    toks = [v for _, v in tokenize(conds[0])]
    if toks == ["i", "<", "length"]:
        return False
    if toks in (["i", "<", "length", "&&", "state", "!=", "1"], ["i", "<", "length", "&&", "state", "!=", "UTF8_REJECT"],
                ["state", "!=", "1", "&&", "i", "<", "length"], ["state", "!=", "UTF8_REJECT", "&&", "i", "<", "length"]):
        return True
    raise ShapeError(f"{fname}: unrecognised loop condition `{conds[0].strip()}`")


def probe_c_loop_guard():
    """Fallback when the loop of the C validators no longer has the shape `read_c_loop_guard` reads (e.g. a `for` loop,
    an extracted helper): decide the same question BEHAVIOURALLY.  The two functions are compiled from the source and
    called in the reject state with a one-octet chunk: a loop that also tests `state != 1` is skipped (result 1, "valid
    so far, not on a code point"), a loop that does not re-detects the rejection at index 0 (result -1).
    -> (table_guards, unrolled_guards)"""
    import json as _json
    import shutil
    import subprocess
    import tempfile
    tmp = Path(tempfile.mkdtemp(prefix="abverif-utf8probe-"))
    try:
        core.build_nvx(tmp, which=("utf8validator",), extra_cdef={"utf8validator":
            "int _nvx_utf8vld_validate_table (void*, const uint8_t*, size_t);"
            "int _nvx_utf8vld_validate_unrolled (void*, const uint8_t*, size_t);"})
        code = (
            "import sys, json; sys.path.insert(0, sys.argv[1])\n"
            "import _nvx_utf8validator as m\n"
            "out = []\n"
            "for f in (m.lib._nvx_utf8vld_validate_table, m.lib._nvx_utf8vld_validate_unrolled):\n"
            "    v = m.lib.nvx_utf8vld_new()\n"
            "    r0 = f(v, b'\\xff', 1)\n"
            "    r1 = f(v, b'a', 1)\n"
            "    out.append([r0, r1])\n"
            "    m.lib.nvx_utf8vld_free(v)\n"
            "print(json.dumps(out))\n")
        p = subprocess.run([core.PY, "-c", code, str(tmp)], capture_output=True, text=True, timeout=120)
        if p.returncode != 0:
            raise ShapeError("probing the compiled C validators failed: " + p.stderr[-300:])
        res = _json.loads(p.stdout.strip().splitlines()[-1])
        flags = []
        for r0, r1 in res:
            if r0 != -1 or r1 not in (-1, 1):
                raise ShapeError(f"probing the compiled C validators: unexpected results {res}")
            flags.append(r1 == 1)
        return tuple(flags)
    finally:
        shutil.rmtree(tmp, ignore_errors=True)


_LEAN_OP = {"==": "==", "!=": "!=", ">=": "≥", "<=": "≤", ">": ">", "<": "<"}


def _lean_cond(c):
    if c[0] == "cmp":
        _, var, op, n = c
        if op in ("==", "!="):
            return f"({var} {op} {n})"
        return f"decide ({var} {_LEAN_OP[op]} {n})"
    a, b = _lean_cond(c[1]), _lean_cond(c[2])
    return f"({a} {'||' if c[0] == 'or' else '&&'} {b})"


def _lean_stmt(t, ind):
    pad = "  " * ind
    if t[0] == "set":
        return f"{pad}{t[1]}"
    if t[0] == "keep":
        return f"{pad}state"
    _, c, then, els = t
    s = f"{pad}if {_lean_cond(c)} then\n{_lean_stmt(then, ind + 1)}\n{pad}else\n"
    s += _lean_stmt(els, ind + 1) if els is not None else f"{pad}  state"
    return s


# ----------------------------------------------------------------------------- emit

def _tree(vals, lo, hi, ind):
    """balanced decision tree over the index range [lo, hi): one leaf per cell"""
    pad = "  " * ind
    if hi - lo == 1:
        return f"{pad}{vals[lo]}"
    mid = (lo + hi) // 2
    return f"{pad}if i < {mid} then\n{_tree(vals, lo, mid, ind + 1)}\n{pad}else\n{_tree(vals, mid, hi, ind + 1)}"


def _emit_table(modname, fname, vals, consts, origin):
    cs = "\n".join(f"def {k} : Nat := {v}" for k, v in consts.items())
    listing = "\n".join("  " + ", ".join(f"{v}" for v in vals[i:i + 16]) + f"   -- {i}.." for i in range(0, len(vals), 16))
    return (f"-- GENERATED by translate/utf8.py from {origin} — do not edit.\n"
            f"namespace Abverif.Utf8.Gen\n\n"
            f"def {fname}Len : Nat := {len(vals)}\n{cs}\n\n"
            f"/- cells in source order:\n{listing}\n-/\n\n"
            f"/-- cell `i` of the table as written in the source (one leaf per cell, as a balanced decision tree so that\n"
            f"the kernel evaluates a lookup in ~9 comparisons); {OUT_OF_RANGE} = index out of range -/\n"
            f"def {fname} (i : Nat) : Nat :=\n  if i < {len(vals)} then\n{_tree(vals, 0, len(vals), 2)}\n  else {OUT_OF_RANGE}\n\n"
            f"end Abverif.Utf8.Gen\n")


def translate(ctx=None):
    """(re)writes the three generated modules; raises ShapeError if a source lost its shape"""
    errors = []
    # Python table
    try:
        tbl, acc, rej = read_py_table()
        if len(tbl) != 400:
            raise ShapeError(f"UTF8VALIDATOR_DFA has {len(tbl)} cells, expected 400 (256 classes + 9 x 16 transitions)")
        core.write_if_changed(GEN / "Utf8TablePy.lean", _emit_table(
            "Utf8TablePy", "tablePy", tbl, {"pyAccept": acc, "pyReject": rej}, "src/autobahn/websocket/utf8validator.py"))
    except ShapeError as e:
        errors.append(f"utf8validator.py: {e}")
    # C table + macro
    try:
        src = _c_source()
        ctab = read_c_table(src)
        if len(ctab) != 400:
            raise ShapeError(f"C UTF8VALIDATOR_DFA has {len(ctab)} cells, expected 400")
        cacc, crej = read_c_defines(src)
        core.write_if_changed(GEN / "Utf8TableC.lean", _emit_table(
            "Utf8TableC", "tableC", ctab, {"cAccept": cacc, "cReject": crej}, "src/autobahn/nvx/_utf8validator.c"))
        tree = read_c_macro(src)
        body = _lean_stmt(tree, 1)
        core.write_if_changed(GEN / "Utf8UnrolledC.lean", (
            "-- GENERATED by translate/utf8.py from the DFA_TRANSITION macro of src/autobahn/nvx/_utf8validator.c — do not edit.\n"
            "namespace Abverif.Utf8.Gen\n\n"
            "/-- `DFA_TRANSITION(state, octet)`: the new value of `state` -/\n"
            "def unrolledC (state octet : Nat) : Nat :=\n" + body + "\n\nend Abverif.Utf8.Gen\n"))
        how = "from the while-conditions"
        try:
            gt = read_c_loop_guard(src, "_nvx_utf8vld_validate_table")
            gu = read_c_loop_guard(src, "_nvx_utf8vld_validate_unrolled")
        except ShapeError as e0:
            # the loops were rewritten: decide the same question by compiling and probing the two functions
            gt, gu = probe_c_loop_guard()
            how = f"by probing the compiled functions in the reject state (loop shape not recognised: {e0})"
        core.write_if_changed(GEN / "Utf8LoopC.lean", (
            f"-- GENERATED by translate/utf8.py {how} of _nvx_utf8vld_validate_table/_unrolled "
            "(src/autobahn/nvx/_utf8validator.c) — do not edit.\n"
            "namespace Abverif.Utf8.Gen\n\n"
            "/-- does the loop condition also test `state != 1` (then a call entered in the reject state skips the loop)? -/\n"
            f"def tableLoopGuardsReject : Bool := {str(gt).lower()}\n"
            f"def unrolledLoopGuardsReject : Bool := {str(gu).lower()}\n\n"
            "end Abverif.Utf8.Gen\n"))
    except ShapeError as e:
        errors.append(f"_utf8validator.c: {e}")
    if errors:
        raise ShapeError("; ".join(errors))


if __name__ == "__main__":
    translate()
    print("ok")
