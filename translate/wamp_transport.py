"""Translator for C13: constants of the WAMP transport negotiation, read from the source by `ast`
on every run and written to lean/Abverif/Generated/WampTransport.lean.

What is read (a changed literal changes the generated constant, so the Lean theorems that relate the
model -- which uses these constants -- to the Spec -- which uses the RFC/WAMP literals -- stop checking):

  twisted/rawsocket.py   server/client dataReceived: the magic octet compared with `!=`, the operands of
                         `2 ** (9 + (octet >> 4))`, the serializer mask `& 0x0F`, the accumulator length 4
  asyncio/rawsocket.py   MAGIC_BYTE, FRAME_TYPE_*, ERR_SERIALIZER_UNSUPPORTED, PrefixProtocol.max_length,
                         `_length_exp = 15`, parse_handshake's `& 0x0F`, `>> 4`, `2 ** (lexp + 9)`,
                         data_received's type mask `& 0b111`
  wamp/serializer.py     SERIALIZER_ID / RAWSOCKET_SERIALIZER_ID of every *Serializer class, BINARY of the
                         object serializers, the `<id>.batched` ids
  wamp/websocket.py      the literal "wamp", the version 2, the subprotocol prefix "wamp.2.", and the close
                         status names used by onMessage/_bailout, resolved in websocket/protocol.py

The extraction is by *pattern inside a function*, never by local variable name or statement position, so that
renamings / reorderings of independent statements do not disturb it. If a pattern is not found exactly once
the translator raises (the source lost the shape the model mirrors).
"""
import ast
from pathlib import Path

from vlib import core


class Shape(Exception):
    pass


def _parse(rel):
    p = core.SRC / rel
    return ast.parse(p.read_text(), filename=str(p))


def _find_class(tree, name):
    for n in ast.walk(tree):
        if isinstance(n, ast.ClassDef) and n.name == name:
            return n
    raise Shape(f"class {name} not found")


def _find_func(node, name):
    for n in ast.walk(node):
        if isinstance(n, (ast.FunctionDef, ast.AsyncFunctionDef)) and n.name == name:
            return n
    raise Shape(f"function {name} not found in {getattr(node, 'name', 'module')}")


def _int(n):
    if isinstance(n, ast.Constant) and type(n.value) is int:
        return n.value
    return None


def _one(vals, what):
    vals = sorted(set(vals))
    if len(vals) != 1:
        raise Shape(f"{what}: expected exactly one value, found {vals}")
    return vals[0]


def _neq_consts(fn):
    """integer constants compared with != inside fn"""
    out = []
    for n in ast.walk(fn):
        if isinstance(n, ast.Compare) and len(n.ops) == 1 and isinstance(n.ops[0], ast.NotEq):
            for side in (n.left, n.comparators[0]):
                v = _int(side)
                if v is not None:
                    out.append(v)
    return out


def _pow_formula(fn):
    """(base, add, shift-or-None) of every `base ** (… + …)` in fn"""
    out = []
    for n in ast.walk(fn):
        if isinstance(n, ast.BinOp) and isinstance(n.op, ast.Pow) and _int(n.left) is not None:
            r = n.right
            if isinstance(r, ast.BinOp) and isinstance(r.op, ast.Add):
                add = [_int(x) for x in (r.left, r.right) if _int(x) is not None]
                shift = None
                for x in (r.left, r.right):
                    if isinstance(x, ast.BinOp) and isinstance(x.op, ast.RShift) and _int(x.right) is not None:
                        shift = _int(x.right)
                if len(add) == 1:
                    out.append((_int(n.left), add[0], shift))
    return out


def _binop_consts(fn, op):
    out = []
    for n in ast.walk(fn):
        if isinstance(n, ast.BinOp) and isinstance(n.op, op):
            for side in (n.left, n.right):
                v = _int(side)
                if v is not None:
                    out.append(v)
    return out


def _class_consts(cls):
    """NAME = <literal> assignments directly in a class body"""
    out = {}
    for st in cls.body:
        if isinstance(st, ast.Assign) and len(st.targets) == 1 and isinstance(st.targets[0], ast.Name):
            try:
                out[st.targets[0].id] = ast.literal_eval(st.value)
            except Exception:
                try:
                    out[st.targets[0].id] = eval(compile(ast.Expression(st.value), "<c>", "eval"), {"__builtins__": {}}, {})
                except Exception:
                    pass
    return out


def _module_consts(tree):
    out = {}
    for st in tree.body:
        if isinstance(st, ast.Assign) and len(st.targets) == 1 and isinstance(st.targets[0], ast.Name):
            try:
                out[st.targets[0].id] = ast.literal_eval(st.value)
            except Exception:
                pass
    return out


def extract():
    g = {}
    # ------------------------------------------------------------------ twisted/rawsocket.py
    tw = _parse("twisted/rawsocket.py")
    for role, cname in (("Server", "WampRawSocketServerProtocol"), ("Client", "WampRawSocketClientProtocol")):
        fn = _find_func(_find_class(tw, cname), "dataReceived")
        neq = [v for v in _neq_consts(fn) if v > 15]      # the magic octet (serializer ids are <= 15)
        g[f"tw{role}Magic"] = _one(neq, f"twisted {role} magic octet")
        pf = [p for p in _pow_formula(fn) if p[2] is not None]
        base, add, shift = _one(pf, f"twisted {role} 2**(9+(o>>4))")
        g[f"tw{role}PowBase"], g[f"tw{role}ExpAdd"], g[f"tw{role}Shift"] = base, add, shift
        g[f"tw{role}SerMask"] = _one(_binop_consts(fn, ast.BitAnd), f"twisted {role} serializer mask")
        eqs = []
        for n in ast.walk(fn):
            if isinstance(n, ast.Compare) and len(n.ops) == 1 and isinstance(n.ops[0], ast.Eq) and _int(n.comparators[0]) is not None:
                eqs.append(_int(n.comparators[0]))
        g[f"tw{role}HsLen"] = _one(eqs, f"twisted {role} handshake length")
    # send guard `0 < self._max_len_send < payload_len`
    snd = _find_func(_find_class(tw, "WampRawSocketProtocol"), "send")
    chains = [n for n in ast.walk(snd) if isinstance(n, ast.Compare) and len(n.ops) == 2]
    if len(chains) != 1 or not all(isinstance(o, ast.Lt) for o in chains[0].ops) or _int(chains[0].left) != 0:
        raise Shape("twisted send(): guard `0 < max_len_send < payload_len` not found")
    # ------------------------------------------------------------------ asyncio/rawsocket.py
    aio = _parse("asyncio/rawsocket.py")
    mc = _module_consts(aio)
    for k, name in (("MAGIC_BYTE", "aioMagic"), ("FRAME_TYPE_DATA", "aioTypeData"), ("FRAME_TYPE_PING", "aioTypePing"),
                    ("FRAME_TYPE_PONG", "aioTypePong"), ("ERR_SERIALIZER_UNSUPPORTED", "aioErrSerUnsupported")):
        if type(mc.get(k)) is not int:
            raise Shape(f"asyncio/rawsocket.py: {k} not an int literal")
        g[name] = mc[k]
    pp = _find_class(aio, "PrefixProtocol")
    pc = _class_consts(pp)
    if pc.get("prefix_format") != "!L" or type(pc.get("max_length")) is not int:
        raise Shape("PrefixProtocol.prefix_format/max_length")
    g["aioDefaultMaxLength"] = pc["max_length"]
    dr = _find_func(pp, "data_received")
    g["aioTypeMask"] = _one(_binop_consts(dr, ast.BitAnd), "PrefixProtocol type mask")
    rp = _find_class(aio, "RawSocketProtocol")
    ph = _find_func(rp, "parse_handshake")
    g["aioSerMask"] = _one(_binop_consts(ph, ast.BitAnd), "asyncio serializer mask")
    g["aioShift"] = _one(_binop_consts(ph, ast.RShift), "asyncio exponent shift")
    base, add, _ = _one(_pow_formula(ph), "asyncio 2**(lexp+9)")
    g["aioPowBase"], g["aioExpAdd"] = base, add
    init = _find_func(rp, "__init__")
    lexp = []
    for n in ast.walk(init):
        if isinstance(n, ast.Assign) and isinstance(n.targets[0], ast.Attribute) and n.targets[0].attr == "_length_exp" and _int(n.value) is not None:
            lexp.append(_int(n.value))
    g["aioLengthExp"] = _one(lexp, "RawSocketProtocol._length_exp")
    # F12 shape: does WampRawSocketServerProtocol.supports_serializer() call self.abort() (before any session exists)?
    ss = _find_func(_find_class(aio, "WampRawSocketServerProtocol"), "supports_serializer")
    aborts = [n for n in ast.walk(ss) if isinstance(n, ast.Call) and isinstance(n.func, ast.Attribute)
              and n.func.attr in ("abort", "close") and isinstance(n.func.value, ast.Name) and n.func.value.id == "self"]
    g["aioServerAbortsOnUnsupported"] = bool(aborts)
    # F14 shape: the exception class an over-long message raises on the asyncio send path:
    # the guard `… > self.max_length_send` in WampRawSocketMixinGeneral.send(), else the one in PrefixProtocol.sendString()
    def over_limit_raise(fn):
        found = []
        for n in ast.walk(fn):
            if isinstance(n, ast.If) and isinstance(n.test, ast.Compare) and len(n.test.ops) == 1:
                names = [m.attr for m in ast.walk(n.test) if isinstance(m, ast.Attribute)]
                if "max_length_send" not in names:
                    continue
                if not isinstance(n.test.ops[0], ast.Gt) or not (isinstance(n.test.comparators[0], ast.Attribute)
                                                                    and n.test.comparators[0].attr == "max_length_send"):
                    raise Shape("asyncio send guard is not `<len> > self.max_length_send`")
                for m in n.body:
                    if isinstance(m, ast.Raise) and m.exc is not None:
                        c = m.exc.func if isinstance(m.exc, ast.Call) else m.exc
                        found.append(c.id if isinstance(c, ast.Name) else getattr(c, "attr", "?"))
        return found
    snd_aio = over_limit_raise(_find_func(_find_class(aio, "WampRawSocketMixinGeneral"), "send"))
    if not snd_aio:
        snd_aio = over_limit_raise(_find_func(pp, "sendString"))
    cls = _one(snd_aio, "asyncio over-limit exception class")
    g["aioSendOverLimitExc"] = {"PayloadExceededError": 0, "ValueError": 1}.get(cls, 2)
    # ------------------------------------------------------------------ wamp/serializer.py
    ser = _parse("wamp/serializer.py")
    objbin = {}
    sers = []
    for n in ast.walk(ser):
        if isinstance(n, ast.ClassDef):
            cc = _class_consts(n)
            if n.name.endswith("ObjectSerializer") and "NAME" in cc and "BINARY" in cc:
                objbin[cc["NAME"]] = bool(cc["BINARY"])
            elif n.name.endswith("Serializer") and "SERIALIZER_ID" in cc and "RAWSOCKET_SERIALIZER_ID" in cc:
                batched = []
                for m in ast.walk(n):
                    if (isinstance(m, ast.Assign) and isinstance(m.targets[0], ast.Attribute)
                            and m.targets[0].attr == "SERIALIZER_ID" and isinstance(m.value, ast.Constant)):
                        batched.append(m.value.value)
                sers.append((cc["SERIALIZER_ID"], cc["RAWSOCKET_SERIALIZER_ID"], _one(batched, n.name + " batched id")))
    if not sers:
        raise Shape("no serializer classes found")
    g["serializers"] = []
    for sid, rid, bid in sorted(sers, key=lambda x: x[1]):
        if sid not in objbin:
            raise Shape(f"BINARY flag of object serializer {sid!r} not found")
        g["serializers"].append((sid, rid, objbin[sid], bid))
    # ------------------------------------------------------------------ wamp/websocket.py
    wsm = _parse("wamp/websocket.py")
    pf = _find_func(wsm, "parseSubprotocolIdentifier")
    strs = []
    for n in ast.walk(pf):
        if isinstance(n, ast.Compare) and len(n.ops) == 1 and isinstance(n.ops[0], ast.NotEq):
            c = n.comparators[0]
            if isinstance(c, ast.Constant) and isinstance(c.value, str):
                strs.append(c.value)
    g["wsWord"] = _one(strs, 'parseSubprotocolIdentifier "wamp" literal')
    oc = _find_func(_find_class(wsm, "WampWebSocketServerProtocol"), "onConnect")
    vers = []
    for n in ast.walk(oc):
        if isinstance(n, ast.Compare) and len(n.ops) == 1 and isinstance(n.ops[0], ast.Eq) and _int(n.comparators[0]) is not None:
            vers.append(_int(n.comparators[0]))
    g["wsVersion"] = _one(vers, "server onConnect version")
    fi = _find_func(_find_class(wsm, "WampWebSocketFactory"), "__init__")
    prefixes = []
    for n in ast.walk(fi):
        if isinstance(n, ast.JoinedStr) and n.values and isinstance(n.values[0], ast.Constant):
            prefixes.append(n.values[0].value)
    g["wsPrefix"] = _one(prefixes, "factory protocols prefix")
    wp = _class_consts(_find_class(_parse("websocket/protocol.py"), "WebSocketProtocol"))
    om = _find_func(_find_class(wsm, "WampWebSocketProtocol"), "onMessage")
    codes = {}
    for h in [n for n in ast.walk(om) if isinstance(n, ast.ExceptHandler)]:
        names = [m.attr for m in ast.walk(h) if isinstance(m, ast.Attribute) and m.attr.startswith("CLOSE_STATUS_CODE_")]
        nm = _one(names, "close status in onMessage handler")
        et = h.type.id if isinstance(h.type, ast.Name) else "?"
        codes[et] = wp[nm]
    if set(codes) != {"ProtocolError", "Exception"}:
        raise Shape(f"onMessage exception ladder is {sorted(codes)}")
    g["wsCloseProtocolError"], g["wsCloseInternalError"] = codes["ProtocolError"], codes["Exception"]
    oo = _find_func(_find_class(wsm, "WampWebSocketProtocol"), "onOpen")
    names = [m.attr for m in ast.walk(oo) if isinstance(m, ast.Attribute) and m.attr.startswith("CLOSE_STATUS_CODE_")]
    g["wsCloseOnOpenError"] = wp[_one(names, "close status in onOpen")]
    ab = _find_func(_find_class(wsm, "WampWebSocketProtocol"), "abort")
    names = [m.attr for m in ast.walk(ab) if isinstance(m, ast.Attribute) and m.attr.startswith("CLOSE_STATUS_CODE_")]
    g["wsCloseAbort"] = wp[_one(names, "close status in abort")]
    cl = _find_func(_find_class(wsm, "WampWebSocketProtocol"), "close")
    names = [m.attr for m in ast.walk(cl) if isinstance(m, ast.Attribute) and m.attr.startswith("CLOSE_STATUS_CODE_")]
    g["wsCloseNormal"] = wp[_one(names, "close status in close")]
    return g


def _chars(s):
    return "[" + ", ".join("'%s'" % c if c not in "'\\" else "'\\%s'" % c for c in s) + "]"


def render(g):
    L = ["/- GENERATED by translate/wamp_transport.py from /repo/src/autobahn — do not edit. -/",
         "namespace Abverif.Gen.WampTransport", ""]
    for k, v in g.items():
        if isinstance(v, bool):
            L.append(f"def {k} : Bool := {'true' if v else 'false'}")
        elif isinstance(v, int):
            L.append(f"def {k} : Nat := {v}")
    L.append(f"def wsWord : List Char := {_chars(g['wsWord'])}")
    L.append(f"def wsPrefix : List Char := {_chars(g['wsPrefix'])}")
    L.append("")
    L.append("/-- (SERIALIZER_ID, RAWSOCKET_SERIALIZER_ID, BINARY, batched SERIALIZER_ID) of every serializer class in wamp/serializer.py -/")
    L.append("def serializers : List (List Char × Nat × Bool × List Char) := [")
    rows = [f"  ({_chars(s)}, {r}, {'true' if b else 'false'}, {_chars(bid)})" for s, r, b, bid in g["serializers"]]
    L.append(",\n".join(rows))
    L.append("]")
    L.append("")
    L.append("end Abverif.Gen.WampTransport")
    return "\n".join(L) + "\n"


def translate(ctx=None):
    g = extract()
    core.write_if_changed(core.LEAN / "Abverif" / "Generated" / "WampTransport.lean", render(g))
    return g


if __name__ == "__main__":
    import json
    import sys
    sys.path.insert(0, str(Path(__file__).resolve().parent.parent))
    print(json.dumps(translate(), indent=1))
