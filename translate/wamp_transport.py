"""Translator for C13: constants of the WAMP transport negotiation, read from the source by `ast`
on every run and written to lean/Abverif/Generated/WampTransport.lean.

What is read (a changed literal changes the generated constant, so the Lean theorems that relate the
model -- which uses these constants -- to the Spec -- which uses the RFC/WAMP literals -- stop checking):

  twisted/rawsocket.py   server/client dataReceived: the magic octet compared with `!=`, the operands of
                         `2 ** (9 + (octet >> 4))`, the serializer mask `& 0x0F`, the accumulator length 4;
                         what lengthLimitExceeded() does (abort / raise / loseConnection); the frame-length cap of send()
  asyncio/rawsocket.py   MAGIC_BYTE, FRAME_TYPE_*, ERR_SERIALIZER_UNSUPPORTED, PrefixProtocol.max_length,
                         `_length_exp = 15`, parse_handshake's `& 0x0F`, `>> 4`, `2 ** (lexp + 9)`,
                         data_received's type mask `& 0b111`; what ping()/pong() do (raise NotImplementedError / answer with
                         a frame of which type / consume); the frame-length cap of send() and sendString()
  wamp/serializer.py     SERIALIZER_ID / RAWSOCKET_SERIALIZER_ID of every *Serializer class, BINARY of the
                         object serializers, the `<id>.batched` ids
  wamp/websocket.py      the literal "wamp", the version 2, the subprotocol prefix "wamp.2.", and the close
                         status names used by onMessage/_bailout, resolved in websocket/protocol.py

The extraction is by *pattern inside a function*, never by local variable name or statement position, so that
renamings / reorderings of independent statements do not disturb it. If a pattern is not found exactly once
the translator raises (the source lost the shape the model mirrors).
"""
import ast
import json
from pathlib import Path

from vlib import core


class Shape(Exception):
    pass


def _parse(rel):
    p = core.SRC / rel
    return ast.parse(p.read_text(), filename=str(p))


def _find_class(tree, name):
    for n in ast.walk(tree):
        if isinstance(n, ast.ClassDef) and n.name == name:
            return n
    raise Shape(f"class {name} not found")


def _find_func(node, name):
    for n in ast.walk(node):
        if isinstance(n, (ast.FunctionDef, ast.AsyncFunctionDef)) and n.name == name:
            return n
    raise Shape(f"function {name} not found in {getattr(node, 'name', 'module')}")


def _int(n):
    if isinstance(n, ast.Constant) and type(n.value) is int:
        return n.value
    return None


def _one(vals, what):
    vals = sorted(set(vals))
    if len(vals) != 1:
        raise Shape(f"{what}: expected exactly one value, found {vals}")
    return vals[0]


def _neq_consts(fn):
    """integer constants compared with != inside fn"""
    out = []
    for n in ast.walk(fn):
        if isinstance(n, ast.Compare) and len(n.ops) == 1 and isinstance(n.ops[0], ast.NotEq):
            for side in (n.left, n.comparators[0]):
                v = _int(side)
                if v is not None:
                    out.append(v)
    return out


def _pow_formula(fn):
    """(base, add, shift-or-None) of every `base ** (… + …)` in fn"""
    out = []
    for n in ast.walk(fn):
        if isinstance(n, ast.BinOp) and isinstance(n.op, ast.Pow) and _int(n.left) is not None:
            r = n.right
            if isinstance(r, ast.BinOp) and isinstance(r.op, ast.Add):
                add = [_int(x) for x in (r.left, r.right) if _int(x) is not None]
                shift = None
                for x in (r.left, r.right):
                    if isinstance(x, ast.BinOp) and isinstance(x.op, ast.RShift) and _int(x.right) is not None:
                        shift = _int(x.right)
                if len(add) == 1:
                    out.append((_int(n.left), add[0], shift))
    return out


def _binop_consts(fn, op):
    out = []
    for n in ast.walk(fn):
        if isinstance(n, ast.BinOp) and isinstance(n.op, op):
            for side in (n.left, n.right):
                v = _int(side)
                if v is not None:
                    out.append(v)
    return out


def _class_consts(cls):
    """NAME = <literal> assignments directly in a class body"""
    out = {}
    for st in cls.body:
        if isinstance(st, ast.Assign) and len(st.targets) == 1 and isinstance(st.targets[0], ast.Name):
            try:
                out[st.targets[0].id] = ast.literal_eval(st.value)
            except Exception:
                try:
                    out[st.targets[0].id] = eval(compile(ast.Expression(st.value), "<c>", "eval"), {"__builtins__": {}}, {})
                except Exception:
                    pass
    return out


def _module_consts(tree):
    out = {}
    for st in tree.body:
        if isinstance(st, ast.Assign) and len(st.targets) == 1 and isinstance(st.targets[0], ast.Name):
            try:
                out[st.targets[0].id] = ast.literal_eval(st.value)
            except Exception:
                pass
    return out


class _Probe:
    """lazy semantic probe: real objects built from the source under translation, driven on fake transports
    (harness/workers/c13_probe.py, one process per framework; run only when some shape was not recognised)"""

    def __init__(self):
        self.cache = {}

    def get(self, fw):
        if fw not in self.cache:
            p = core.run_py(core.VERIF / "harness" / "workers" / "c13_probe.py", [fw], timeout=600)
            if p.returncode != 0:
                raise Shape(f"semantic probe ({fw}) failed: " + p.stderr[-400:].replace("\n", " | "))
            self.cache[fw] = json.loads(p.stdout)
        return self.cache[fw]


def _read_tw_role(tw, role):
    cname = {"Server": "WampRawSocketServerProtocol", "Client": "WampRawSocketClientProtocol"}[role]
    fn = _find_func(_find_class(tw, cname), "dataReceived")
    g = {}
    neq = [v for v in _neq_consts(fn) if v > 15]      # the magic octet (serializer ids are <= 15)
    g[f"tw{role}Magic"] = _one(neq, f"twisted {role} magic octet")
    pf = [p for p in _pow_formula(fn) if p[2] is not None]
    base, add, shift = _one(pf, f"twisted {role} 2**(9+(o>>4))")
    g[f"tw{role}PowBase"], g[f"tw{role}ExpAdd"], g[f"tw{role}Shift"] = base, add, shift
    g[f"tw{role}SerMask"] = _one(_binop_consts(fn, ast.BitAnd), f"twisted {role} serializer mask")
    eqs = []
    for n in ast.walk(fn):
        if isinstance(n, ast.Compare) and len(n.ops) == 1 and isinstance(n.ops[0], ast.Eq) and _int(n.comparators[0]) is not None:
            eqs.append(_int(n.comparators[0]))
    g[f"tw{role}HsLen"] = _one(eqs, f"twisted {role} handshake length")
    return g


def _probe_role(pr, prefix, names):
    """names: generated key suffix -> probe key"""
    out = {}
    for suffix, key in names.items():
        v = pr.get(key)
        if type(v) is not int:
            raise Shape(f"probe could not determine {prefix}{suffix} ({key}={v!r})")
        out[prefix + suffix] = v
    return out


ROLE_KEYS = {"Magic": "magic", "PowBase": "powBase", "ExpAdd": "expAdd", "Shift": "shift", "SerMask": "serMask", "HsLen": "hsLen"}


def _const_eval(node):
    """value of a constant integer expression such as `2**24 - 1` (None if it is not one)"""
    for n in ast.walk(node):
        if not isinstance(n, (ast.BinOp, ast.Constant, ast.operator, ast.UnaryOp, ast.unaryop)):
            return None
    try:
        v = eval(compile(ast.Expression(node), "<c>", "eval"), {"__builtins__": {}}, {})
    except Exception:
        return None
    return v if type(v) is int else None


def _is_self_attr(n, attr):
    return isinstance(n, ast.Attribute) and n.attr == attr and isinstance(n.value, ast.Name) and n.value.id == "self"


def _limit_cap(fn, node, attr):
    """`node` is the limit operand of a send guard. -> 0 when it is `self.<attr>` itself, C when it is `min(self.<attr>, C)`
    (written in place or bound to a local name assigned exactly once in fn), C a constant integer expression."""
    if _is_self_attr(node, attr):
        return 0
    if isinstance(node, ast.Name):
        binds = [a.value for a in ast.walk(fn) if isinstance(a, ast.Assign) and len(a.targets) == 1
                 and isinstance(a.targets[0], ast.Name) and a.targets[0].id == node.id]
        if len(binds) != 1:
            raise Shape(f"send guard: local {node.id} is not assigned exactly once")
        node = binds[0]
    if (isinstance(node, ast.Call) and isinstance(node.func, ast.Name) and node.func.id == "min" and len(node.args) == 2
            and not node.keywords):
        a, b = node.args
        if _is_self_attr(b, attr):
            a, b = b, a
        c = _const_eval(b)
        if _is_self_attr(a, attr) and c is not None and c > 0:
            return c
    raise Shape(f"send guard: limit operand is neither self.{attr} nor min(self.{attr}, <constant>)")


def _aio_guard(fn):
    """the over-limit guard `if <len> > <limit>: raise X` of an asyncio send function -> [(cap, exception class name)]"""
    found = []
    for n in ast.walk(fn):
        if not (isinstance(n, ast.If) and isinstance(n.test, ast.Compare) and len(n.test.ops) == 1):
            continue
        raises = [m for m in n.body if isinstance(m, ast.Raise) and m.exc is not None]
        if not raises:
            continue
        if not isinstance(n.test.ops[0], ast.Gt):
            raise Shape("asyncio send guard is not `<len> > <limit>`")
        cap = _limit_cap(fn, n.test.comparators[0], "max_length_send")
        for m in raises:
            c = m.exc.func if isinstance(m.exc, ast.Call) else m.exc
            found.append((cap, c.id if isinstance(c, ast.Name) else getattr(c, "attr", "?")))
    return found


EXC_CODE = {"PayloadExceededError": 0, "ValueError": 1}


def extract():
    """-> (g, how): g = generated values in a fixed order, how[key] = "read" (from the source text) | "probed" (on real objects).
    Every group of values is first read syntactically; when its shape is not recognised the same values are obtained by the
    semantic probe; a value that can be obtained neither way is a Shape error naming both failures."""
    probe = _Probe()
    vals, how = {}, {}

    def group(name, reader, prober):
        try:
            got = reader()
            tag = "read"
        except Exception as e1:            # Shape, KeyError, AttributeError, SyntaxError … : the text lost the expected shape
            try:
                got = prober()
                tag = "probed"
            except Exception as e2:
                raise Shape(f"{name}: not readable from the source text ({type(e1).__name__}: {e1}) "
                            f"and not obtainable by probing real objects ({type(e2).__name__}: {e2})")
        for k, v in got.items():
            vals[k] = v
            how[k] = tag

    # ------------------------------------------------------------------ twisted/rawsocket.py
    def parse_tw():
        return _parse("twisted/rawsocket.py")
    for role in ("Server", "Client"):
        group(f"twisted {role} handshake", lambda role=role: _read_tw_role(parse_tw(), role),
              lambda role=role: _probe_role(probe.get("twisted")[role.lower()], f"tw{role}", ROLE_KEYS))

    # send guard `0 < self._max_len_send < payload_len` (no constant: the shape, or its observable effect, must be there)
    def read_tw_send():
        snd = _find_func(_find_class(parse_tw(), "WampRawSocketProtocol"), "send")
        chains = [n for n in ast.walk(snd) if isinstance(n, ast.Compare) and len(n.ops) == 2]
        if len(chains) != 1 or not all(isinstance(o, ast.Lt) for o in chains[0].ops) or _int(chains[0].left) != 0:
            raise Shape("twisted send(): guard `0 < max_len_send < payload_len` not found")
        # the limit operand: `self._max_len_send` (cap 0 = none) or `min(self._max_len_send, C)` (the 24-bit length field, N2)
        return {"twSendGuardPresent": True, "twSendFrameCap": _limit_cap(snd, chains[0].comparators[0], "_max_len_send")}

    def probe_tw_send():
        pr = probe.get("twisted")
        if pr.get("sendGuard") is not True:
            raise Shape("twisted send(): a 513-octet message to a peer that announced 512 is not refused with PayloadExceededError")
        if type(pr.get("sendFrameCap")) is not int:
            raise Shape("twisted send(): behaviour at 2^24 - 1 / 2^24 octets (peer exponent 15) not recognised")
        return {"twSendGuardPresent": True, "twSendFrameCap": pr["sendFrameCap"]}
    group("twisted send guard", read_tw_send, probe_tw_send)

    # N1 shape: what WampRawSocketProtocol.lengthLimitExceeded() does: 0 self.abort(), 1 raise PayloadExceededError (legacy), 2 loseConnection
    def read_tw_limit():
        fn = _find_func(_find_class(parse_tw(), "WampRawSocketProtocol"), "lengthLimitExceeded")
        acts = []
        for n in ast.walk(fn):
            if isinstance(n, ast.Raise):
                c = n.exc.func if isinstance(n.exc, ast.Call) else n.exc
                if not (isinstance(c, ast.Name) and c.id == "PayloadExceededError"):
                    raise Shape("lengthLimitExceeded raises something other than PayloadExceededError")
                acts.append(1)
            if isinstance(n, ast.Call) and isinstance(n.func, ast.Attribute):
                if _is_self_attr(n.func, "abort"):
                    acts.append(0)
                elif n.func.attr == "loseConnection" or _is_self_attr(n.func, "close"):
                    acts.append(2)
                elif n.func.attr == "abortConnection":
                    acts.append(0)
        return {"twLengthLimitAction": _one(acts, "twisted lengthLimitExceeded action")}

    def probe_tw_limit():
        v = probe.get("twisted").get("lengthLimitAction")
        if type(v) is not int:
            raise Shape("twisted: an over-long frame header neither aborts, nor closes, nor raises PayloadExceededError")
        return {"twLengthLimitAction": v}
    group("twisted lengthLimitExceeded", read_tw_limit, probe_tw_limit)

    # ------------------------------------------------------------------ asyncio/rawsocket.py
    def parse_aio():
        return _parse("asyncio/rawsocket.py")

    def read_aio_consts():
        mc = _module_consts(parse_aio())
        g = {}
        for k, name in (("MAGIC_BYTE", "aioMagic"), ("FRAME_TYPE_DATA", "aioTypeData"), ("FRAME_TYPE_PING", "aioTypePing"),
                        ("FRAME_TYPE_PONG", "aioTypePong"), ("ERR_SERIALIZER_UNSUPPORTED", "aioErrSerUnsupported")):
            if type(mc.get(k)) is not int:
                raise Shape(f"asyncio/rawsocket.py: {k} not an int literal")
            g[name] = mc[k]
        return g

    def probe_aio_consts():
        pr = probe.get("asyncio")
        g = _probe_role(pr["server"], "aio", {"Magic": "magic"})
        if pr["client"].get("magic") != g["aioMagic"]:
            raise Shape("asyncio client and server disagree on the magic octet")
        g.update(_probe_role(pr, "aio", {"TypeData": "typeData", "TypePing": "typePing", "TypePong": "typePong",
                                         "ErrSerUnsupported": "errSerUnsupported"}))
        return g
    group("asyncio module constants", read_aio_consts, probe_aio_consts)

    def read_aio_prefix():
        pp = _find_class(parse_aio(), "PrefixProtocol")
        pc = _class_consts(pp)
        if pc.get("prefix_format") != "!L" or type(pc.get("max_length")) is not int:
            raise Shape("PrefixProtocol.prefix_format/max_length")
        return {"aioDefaultMaxLength": pc["max_length"],
                "aioTypeMask": _one(_binop_consts(_find_func(pp, "data_received"), ast.BitAnd), "PrefixProtocol type mask")}
    group("asyncio PrefixProtocol", read_aio_prefix,
          lambda: _probe_role(probe.get("asyncio"), "aio", {"DefaultMaxLength": "defaultMaxLength", "TypeMask": "typeMask"}))

    def read_aio_hs():
        ph = _find_func(_find_class(parse_aio(), "RawSocketProtocol"), "parse_handshake")
        g = {"aioSerMask": _one(_binop_consts(ph, ast.BitAnd), "asyncio serializer mask"),
             "aioShift": _one(_binop_consts(ph, ast.RShift), "asyncio exponent shift")}
        base, add, _ = _one(_pow_formula(ph), "asyncio 2**(lexp+9)")
        g["aioPowBase"], g["aioExpAdd"] = base, add
        return g

    def probe_aio_hs():
        pr = probe.get("asyncio")
        names = {"SerMask": "serMask", "Shift": "shift", "PowBase": "powBase", "ExpAdd": "expAdd"}
        g = _probe_role(pr["server"], "aio", names)
        if _probe_role(pr["client"], "aio", names) != g:
            raise Shape("asyncio client and server decode octet 2 differently")
        return g
    group("asyncio parse_handshake", read_aio_hs, probe_aio_hs)

    def read_aio_lexp():
        init = _find_func(_find_class(parse_aio(), "RawSocketProtocol"), "__init__")
        lexp = []
        for n in ast.walk(init):
            if isinstance(n, ast.Assign) and isinstance(n.targets[0], ast.Attribute) and n.targets[0].attr == "_length_exp" and _int(n.value) is not None:
                lexp.append(_int(n.value))
        return {"aioLengthExp": _one(lexp, "RawSocketProtocol._length_exp")}
    group("asyncio announced exponent", read_aio_lexp, lambda: _probe_role(probe.get("asyncio"), "aio", {"LengthExp": "lengthExp"}))

    # F12 shape: does WampRawSocketServerProtocol.supports_serializer() call self.abort() (before any session exists)?
    def read_aio_abort():
        ss = _find_func(_find_class(parse_aio(), "WampRawSocketServerProtocol"), "supports_serializer")
        aborts = [n for n in ast.walk(ss) if isinstance(n, ast.Call) and isinstance(n.func, ast.Attribute)
                  and n.func.attr in ("abort", "close") and isinstance(n.func.value, ast.Name) and n.func.value.id == "self"]
        return {"aioServerAbortsOnUnsupported": bool(aborts)}

    def probe_aio_abort():
        v = probe.get("asyncio").get("serverAbortsOnUnsupported")
        if type(v) is not bool:
            raise Shape("asyncio server on an unsupported serializer neither answers+closes nor raises TransportLost")
        return {"aioServerAbortsOnUnsupported": v}
    group("asyncio unsupported-serializer path", read_aio_abort, probe_aio_abort)

    # F14 shape: the exception class an over-long message raises on the asyncio send path; N2: the frame-length caps
    def read_aio_send():
        aio = parse_aio()
        snd = _aio_guard(_find_func(_find_class(aio, "WampRawSocketMixinGeneral"), "send"))
        sst = _aio_guard(_find_func(_find_class(aio, "PrefixProtocol"), "sendString"))
        if len(sst) != 1 or sst[0][1] != "ValueError":
            raise Shape("PrefixProtocol.sendString: guard `if l > <limit>: raise ValueError` not found exactly once")
        if len(snd) > 1:
            raise Shape("asyncio send(): more than one over-limit guard")
        first = snd[0] if snd else sst[0]       # legacy F14: send() had no guard of its own, sendString's ValueError came out
        return {"aioSendOverLimitExc": EXC_CODE.get(first[1], 2), "aioSendFrameCap": first[0], "aioSendStringFrameCap": sst[0][0]}

    def probe_aio_send():
        pr = probe.get("asyncio")
        v = pr.get("sendOverLimitExc")
        if not isinstance(v, str):
            raise Shape("asyncio send(): a 513-octet message to a peer that announced 512 is not refused with an exception")
        if type(pr.get("sendFrameCap")) is not int or type(pr.get("sendStringFrameCap")) is not int:
            raise Shape("asyncio send()/sendString(): behaviour at 2^24 - 1 / 2^24 octets (peer exponent 15) not recognised")
        return {"aioSendOverLimitExc": EXC_CODE.get(v, 2), "aioSendFrameCap": pr["sendFrameCap"], "aioSendStringFrameCap": pr["sendStringFrameCap"]}
    group("asyncio over-limit send", read_aio_send, probe_aio_send)

    # F13 shape: PrefixProtocol.ping()/pong(): `raise NotImplementedError()` (legacy) or: ping answers with one frame of type
    # <constant> carrying the same payload (header = pack(prefix_format, len) with the first octet replaced), pong writes nothing
    def read_aio_pingpong():
        aio = parse_aio()
        pp = _find_class(aio, "PrefixProtocol")
        mc = _module_consts(aio)
        g = {}
        fns = {}
        for name in ("ping", "pong"):
            fn = fns[name] = _find_func(pp, name)
            rs = [n for n in ast.walk(fn) if isinstance(n, ast.Raise)]
            if rs:
                c = rs[0].exc.func if isinstance(rs[0].exc, ast.Call) else rs[0].exc
                if len(rs) != 1 or len(fn.body) != 1 or not (isinstance(c, ast.Name) and c.id == "NotImplementedError"):
                    raise Shape(f"PrefixProtocol.{name}: raises, but is not just `raise NotImplementedError()`")
            g[f"aio{name.capitalize()}Raises"] = bool(rs)

        def writes(fn):
            return [n for n in ast.walk(fn) if isinstance(n, ast.Call) and isinstance(n.func, ast.Attribute) and n.func.attr == "write"]

        def other_calls(fn):
            return [n for n in ast.walk(fn) if isinstance(n, ast.Call) and isinstance(n.func, ast.Attribute)
                    and n.func.attr in ("close", "abort", "sendString", "protocol_error", "stringReceived")]
        g["aioPingReplyType"] = 0
        if not g["aioPingRaises"]:
            fn = fns["ping"]
            w = writes(fn)
            if len(w) != 2 or other_calls(fn) or any(isinstance(n, (ast.If, ast.For, ast.While, ast.Try, ast.Return)) for n in ast.walk(fn)):
                raise Shape("PrefixProtocol.ping: not two unconditional transport writes")
            # 1st write: bytes(bytearray([<TYPE>])) + header[1:], header = struct.pack(self.prefix_format, len(data)); 2nd write: data
            arg = w[0].args[0]
            if not (isinstance(arg, ast.BinOp) and isinstance(arg.op, ast.Add) and isinstance(arg.right, ast.Subscript)
                    and isinstance(arg.right.slice, ast.Slice) and _int(arg.right.slice.lower) == 1
                    and arg.right.slice.upper is None and arg.right.slice.step is None):
                raise Shape("PrefixProtocol.ping: first write is not `<type octet> + header[1:]`")
            tys = [mc[n.id] for n in ast.walk(arg.left) if isinstance(n, ast.Name) and n.id in mc and type(mc[n.id]) is int]
            tys += [n.value for n in ast.walk(arg.left) if isinstance(n, ast.Constant) and type(n.value) is int]
            packs = [n for n in ast.walk(fn) if isinstance(n, ast.Call) and isinstance(n.func, ast.Attribute) and n.func.attr == "pack"]
            if len(packs) != 1 or len(packs[0].args) != 2 or not _is_self_attr(packs[0].args[0], "prefix_format") \
                    or ast.dump(packs[0].args[1]) != ast.dump(ast.parse("len(data)", mode="eval").body):
                raise Shape("PrefixProtocol.ping: header is not struct.pack(self.prefix_format, len(data))")
            if not (isinstance(w[1].args[0], ast.Name) and w[1].args[0].id == fn.args.args[1].arg == "data"):
                raise Shape("PrefixProtocol.ping: second write is not the payload")
            g["aioPingReplyType"] = _one(tys, "PrefixProtocol.ping reply frame type")
        if not g["aioPongRaises"]:
            fn = fns["pong"]
            if writes(fn) or other_calls(fn):
                raise Shape("PrefixProtocol.pong: does more than consuming the frame")
        return g

    def probe_aio_pingpong():
        pr = probe.get("asyncio")
        g = {}
        for k, key in (("aioPingRaises", "pingRaises"), ("aioPongRaises", "pongRaises")):
            if type(pr.get(key)) is not bool:
                raise Shape(f"asyncio {key}: neither NotImplementedError nor the answered/consumed behaviour observed")
            g[k] = pr[key]
        if type(pr.get("pingReplyType")) is not int:
            raise Shape("asyncio ping reply frame type not determined")
        g["aioPingReplyType"] = pr["pingReplyType"]
        return g
    group("asyncio ping/pong", read_aio_pingpong, probe_aio_pingpong)

    # ------------------------------------------------------------------ wamp/serializer.py
    def read_sers():
        ser = _parse("wamp/serializer.py")
        objbin = {}
        sers = []
        for n in ast.walk(ser):
            if isinstance(n, ast.ClassDef):
                cc = _class_consts(n)
                if n.name.endswith("ObjectSerializer") and "NAME" in cc and "BINARY" in cc:
                    objbin[cc["NAME"]] = bool(cc["BINARY"])
                elif n.name.endswith("Serializer") and "SERIALIZER_ID" in cc and "RAWSOCKET_SERIALIZER_ID" in cc:
                    batched = []
                    for m in ast.walk(n):
                        if (isinstance(m, ast.Assign) and isinstance(m.targets[0], ast.Attribute)
                                and m.targets[0].attr == "SERIALIZER_ID" and isinstance(m.value, ast.Constant)):
                            batched.append(m.value.value)
                    sers.append((cc["SERIALIZER_ID"], cc["RAWSOCKET_SERIALIZER_ID"], _one(batched, n.name + " batched id")))
        if not sers:
            raise Shape("no serializer classes found")
        out = []
        for sid, rid, bid in sorted(sers, key=lambda x: x[1]):
            if sid not in objbin:
                raise Shape(f"BINARY flag of object serializer {sid!r} not found")
            out.append((sid, rid, objbin[sid], bid))
        return {"serializers": out}

    def probe_sers():
        rows = probe.get("twisted").get("serializers")
        if not rows:
            raise Shape("no serializer class could be imported")
        return {"serializers": [tuple(r) for r in rows]}      # importable classes only (flatbuffers is not installed)
    group("serializer table", read_sers, probe_sers)

    # ------------------------------------------------------------------ wamp/websocket.py
    def parse_ws():
        return _parse("wamp/websocket.py")

    def ws_probe(keys):
        def f():
            w = probe.get("twisted").get("ws", {})
            out = {}
            for k in keys:
                if w.get(k) is None:
                    raise Shape(f"probe could not determine {k} ({w.get('error', 'no unique value')})")
                out[k] = w[k]
            return out
        return f

    def read_ws_word():
        pf = _find_func(parse_ws(), "parseSubprotocolIdentifier")
        strs = []
        for n in ast.walk(pf):
            if isinstance(n, ast.Compare) and len(n.ops) == 1 and isinstance(n.ops[0], ast.NotEq):
                c = n.comparators[0]
                if isinstance(c, ast.Constant) and isinstance(c.value, str):
                    strs.append(c.value)
        return {"wsWord": _one(strs, 'parseSubprotocolIdentifier "wamp" literal')}
    group("parseSubprotocolIdentifier word", read_ws_word, ws_probe(["wsWord"]))

    def read_ws_version():
        oc = _find_func(_find_class(parse_ws(), "WampWebSocketServerProtocol"), "onConnect")
        vers = []
        for n in ast.walk(oc):
            if isinstance(n, ast.Compare) and len(n.ops) == 1 and isinstance(n.ops[0], ast.Eq) and _int(n.comparators[0]) is not None:
                vers.append(_int(n.comparators[0]))
        return {"wsVersion": _one(vers, "server onConnect version")}
    group("server onConnect version", read_ws_version, ws_probe(["wsVersion"]))

    def read_ws_prefix():
        fi = _find_func(_find_class(parse_ws(), "WampWebSocketFactory"), "__init__")
        prefixes = []
        for n in ast.walk(fi):
            if isinstance(n, ast.JoinedStr) and n.values and isinstance(n.values[0], ast.Constant):
                prefixes.append(n.values[0].value)
        return {"wsPrefix": _one(prefixes, "factory protocols prefix")}
    group("factory subprotocol prefix", read_ws_prefix, ws_probe(["wsPrefix"]))

    def read_ws_codes():
        wsm = parse_ws()
        wp = _class_consts(_find_class(_parse("websocket/protocol.py"), "WebSocketProtocol"))
        base = _find_class(wsm, "WampWebSocketProtocol")
        om = _find_func(base, "onMessage")
        codes = {}
        for h in [n for n in ast.walk(om) if isinstance(n, ast.ExceptHandler)]:
            names = [m.attr for m in ast.walk(h) if isinstance(m, ast.Attribute) and m.attr.startswith("CLOSE_STATUS_CODE_")]
            nm = _one(names, "close status in onMessage handler")
            et = h.type.id if isinstance(h.type, ast.Name) else "?"
            codes[et] = wp[nm]
        if set(codes) != {"ProtocolError", "Exception"}:
            raise Shape(f"onMessage exception ladder is {sorted(codes)}")
        g = {"wsCloseProtocolError": codes["ProtocolError"], "wsCloseInternalError": codes["Exception"]}
        for key, fname in (("wsCloseOnOpenError", "onOpen"), ("wsCloseAbort", "abort"), ("wsCloseNormal", "close")):
            fn = _find_func(base, fname)
            names = [m.attr for m in ast.walk(fn) if isinstance(m, ast.Attribute) and m.attr.startswith("CLOSE_STATUS_CODE_")]
            g[key] = wp[_one(names, "close status in " + fname)]
        return g
    group("WebSocket close status codes", read_ws_codes,
          ws_probe(["wsCloseProtocolError", "wsCloseInternalError", "wsCloseOnOpenError", "wsCloseAbort", "wsCloseNormal"]))

    # fixed order of the generated file (independent of which way a value was obtained)
    order = []
    for role in ("Server", "Client"):
        order += [f"tw{role}{x}" for x in ("Magic", "PowBase", "ExpAdd", "Shift", "SerMask", "HsLen")]
    order += ["aioMagic", "aioTypeData", "aioTypePing", "aioTypePong", "aioErrSerUnsupported", "aioDefaultMaxLength", "aioTypeMask",
              "aioSerMask", "aioShift", "aioPowBase", "aioExpAdd", "aioLengthExp", "aioServerAbortsOnUnsupported", "aioSendOverLimitExc",
              "aioSendFrameCap", "aioSendStringFrameCap", "twSendFrameCap", "twLengthLimitAction",
              "aioPingRaises", "aioPongRaises", "aioPingReplyType",
              "serializers", "wsWord", "wsVersion", "wsPrefix", "wsCloseProtocolError", "wsCloseInternalError", "wsCloseOnOpenError",
              "wsCloseAbort", "wsCloseNormal"]
    g = {k: vals[k] for k in order}
    return g, how


def _chars(s):
    return "[" + ", ".join("'%s'" % c if c not in "'\\" else "'\\%s'" % c for c in s) + "]"


def render(g):
    L = ["/- GENERATED by translate/wamp_transport.py from <VERIF_REPO>/src/autobahn — do not edit.",
         "   Every value below is read from the source text (ast) when its shape is recognised and otherwise obtained by probing real",
         "   protocol objects built from that source (harness/workers/c13_probe.py); a value obtainable neither way is a Shape error.",
         "   Which way each value was obtained in the last run is recorded in the header of Generated/WampTransportProvenance.lean",
         "   (a separate file that no model or proof imports, so that a behaviour-preserving refactoring — which changes provenance only — does not",
         "   invalidate the build of the 2^16 handshake tables). -/",
         "namespace Abverif.Gen.WampTransport", ""]
    for k, v in g.items():
        if isinstance(v, bool):
            L.append(f"def {k} : Bool := {'true' if v else 'false'}")
        elif isinstance(v, int):
            L.append(f"def {k} : Nat := {v}")
    L.append(f"def wsWord : List Char := {_chars(g['wsWord'])}")
    L.append(f"def wsPrefix : List Char := {_chars(g['wsPrefix'])}")
    L.append("")
    L.append("/-- (SERIALIZER_ID, RAWSOCKET_SERIALIZER_ID, BINARY, batched SERIALIZER_ID) of every serializer class in wamp/serializer.py -/")
    L.append("def serializers : List (List Char × Nat × Bool × List Char) := [")
    rows = [f"  ({_chars(s)}, {r}, {'true' if b else 'false'}, {_chars(bid)})" for s, r, b, bid in g["serializers"]]
    L.append(",\n".join(rows))
    L.append("]")
    L.append("")
    L.append("end Abverif.Gen.WampTransport")
    return "\n".join(L) + "\n"


def render_provenance(g, how):
    read = [k for k in g if how.get(k) == "read"]
    probed = [k for k in g if how.get(k) == "probed"]
    guard = how.get("twSendGuardPresent")
    L = ["/- GENERATED by translate/wamp_transport.py — provenance of Generated/WampTransport.lean in the last run (not imported anywhere).",
         "   read from the source text (ast): " + (", ".join(read) or "(none)"),
         "   probed on real objects (shape not recognised in the text): " + (", ".join(probed) or "(none)"),
         f"   twisted send guard `0 < max_len_send < payload_len`: {'shape found in the text' if guard == 'read' else 'observed by probing (513 octets to a peer announcing 512 -> PayloadExceededError)'} -/",
         ""]
    return "\n".join(L)


def translate(ctx=None):
    g, how = extract()
    g.pop("twSendGuardPresent", None)
    core.write_if_changed(core.LEAN / "Abverif" / "Generated" / "WampTransport.lean", render(g))
    core.write_if_changed(core.LEAN / "Abverif" / "Generated" / "WampTransportProvenance.lean", render_provenance(g, how))
    probed = sorted(k for k, v in how.items() if v == "probed")
    if ctx is not None and probed and hasattr(ctx, "log"):
        ctx.log("wamp_transport: shapes not recognised, values probed on real objects: " + ", ".join(probed))
    return g


if __name__ == "__main__":
    import sys
    sys.path.insert(0, str(Path(__file__).resolve().parent.parent))
    print(json.dumps(translate(), indent=1))
