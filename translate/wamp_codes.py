"""Translator: /repo/src/autobahn/wamp/{message,serializer,role}.py -> lean/Abverif/Generated/WampCodes.lean

Regenerated on every run (C03, C08) so that the theorems talk about the tables the source has *now*:

* MESSAGE_TYPE of the 25 message classes, `Serializer.MESSAGE_TYPE_MAP`,
* the `request_type` list accepted by `Error.parse`,
* the id bound in `check_or_raise_id`,
* PAYLOAD_ENC_STANDARD_IDENTIFIERS / PAYLOAD_ENC_STANDARD_SERIALIZERS,
* the feature names of the six role classes (role.py `__init__` signatures) and the role names accepted by
  Hello.parse / Welcome.parse,
* per class: whether the `forward_for` validation loop of `parse` has been repaired to `for … else: valid = True`
  (finding F3; today the `valid = True` follows the loop unconditionally),
* per class: the tuple of admissible `len(wmsg)` found in `parse` (cross-checked against the schema by a theorem).

Raises if the source lost the shape this reads.
"""
import ast

from vlib import core

CLASSES = ["Hello", "Welcome", "Abort", "Challenge", "Authenticate", "Goodbye", "Error", "Publish", "Published",
           "Subscribe", "Subscribed", "Unsubscribe", "Unsubscribed", "Event", "EventReceived", "Call", "Cancel",
           "Result", "Register", "Registered", "Unregister", "Unregistered", "Invocation", "Interrupt", "Yield"]


def lean_str(s):
    """a Python str as a Lean `List Char` literal"""
    def ch(c):
        o = ord(c)
        if c == "'":
            return "'\\''"
        if c == "\\":
            return "'\\\\'"
        if 32 <= o < 127:
            return "'%s'" % c
        return "(Char.ofNat %d)" % o
    return "[" + ", ".join(ch(c) for c in s) + "]"


def _class(tree, name):
    for n in tree.body:
        if isinstance(n, ast.ClassDef) and n.name == name:
            return n
    raise ValueError(f"class {name} not found")


def _func(cls, name):
    for n in cls.body:
        if isinstance(n, ast.FunctionDef) and n.name == name:
            return n
    raise ValueError(f"{cls.name}.{name} not found")


def _const_assign(cls, name):
    for n in cls.body:
        if isinstance(n, ast.Assign) and len(n.targets) == 1 and isinstance(n.targets[0], ast.Name) \
                and n.targets[0].id == name:
            return ast.literal_eval(n.value)
    raise ValueError(f"{cls.name}.{name} not found")


def _module_assign(tree, name):
    for n in tree.body:
        if isinstance(n, ast.Assign) and len(n.targets) == 1 and isinstance(n.targets[0], ast.Name) \
                and n.targets[0].id == name:
            return n.value
    raise ValueError(f"module constant {name} not found")


def extract(src_dir=None):
    src_dir = src_dir or (core.SRC / "wamp")
    mt = ast.parse((src_dir / "message.py").read_text())
    st = ast.parse((src_dir / "serializer.py").read_text())
    rt = ast.parse((src_dir / "role.py").read_text())
    out = {}

    # MESSAGE_TYPE per class
    codes = {}
    for c in CLASSES:
        v = _const_assign(_class(mt, c), "MESSAGE_TYPE")
        if type(v) is not int:
            raise ValueError(f"{c}.MESSAGE_TYPE is not an int literal")
        codes[c] = v
    out["codes"] = codes

    # Serializer.MESSAGE_TYPE_MAP: {message.X.MESSAGE_TYPE: message.Y}
    ser = _class(st, "Serializer")
    tmap = None
    for n in ser.body:
        if isinstance(n, ast.Assign) and isinstance(n.targets[0], ast.Name) and n.targets[0].id == "MESSAGE_TYPE_MAP":
            tmap = []
            if not isinstance(n.value, ast.Dict):
                raise ValueError("MESSAGE_TYPE_MAP is not a dict display")
            for k, v in zip(n.value.keys, n.value.values):
                # key: message.X.MESSAGE_TYPE ; value: message.Y
                if not (isinstance(k, ast.Attribute) and k.attr == "MESSAGE_TYPE" and isinstance(k.value, ast.Attribute)
                        and isinstance(v, ast.Attribute)):
                    raise ValueError("unexpected entry shape in MESSAGE_TYPE_MAP: " + ast.unparse(k))
                kc, vc = k.value.attr, v.attr
                if kc not in codes:
                    raise ValueError(f"MESSAGE_TYPE_MAP names unknown class {kc}")
                tmap.append((codes[kc], vc))
    if tmap is None:
        raise ValueError("Serializer.MESSAGE_TYPE_MAP not found")
    out["type_map"] = tmap

    # request_type list in Error.parse: `if request_type not in [X.MESSAGE_TYPE, ...]`
    ep = _func(_class(mt, "Error"), "parse")
    rts = None
    for n in ast.walk(ep):
        if isinstance(n, ast.Compare) and isinstance(n.left, ast.Name) and n.left.id == "request_type" \
                and len(n.ops) == 1 and isinstance(n.ops[0], ast.NotIn) and isinstance(n.comparators[0], (ast.List, ast.Tuple)):
            rts = []
            for e in n.comparators[0].elts:
                if isinstance(e, ast.Attribute) and e.attr == "MESSAGE_TYPE" and isinstance(e.value, ast.Name):
                    rts.append(codes[e.value.id])
                elif isinstance(e, ast.Constant) and type(e.value) is int:
                    rts.append(e.value)
                else:
                    raise ValueError("unexpected element in Error.parse request_type list: " + ast.unparse(e))
    if rts is None:
        raise ValueError("request_type list not found in Error.parse")
    out["error_request_types"] = rts

    # id bound of check_or_raise_id.  Read SEMANTICALLY (the function is executed in isolation and probed), so that
    # an equivalent rewrite of the comparison (`value < 0 or value > N`, `not (0 <= value <= N)`, ...) does not
    # break the translation; the syntactic reading is only the fallback.
    cid = None
    fn = next((n for n in mt.body if isinstance(n, ast.FunctionDef) and n.name == "check_or_raise_id"), None)
    if fn is None:
        raise ValueError("check_or_raise_id not found")
    try:
        import typing
        ns = dict(vars(typing))
        ns["ProtocolError"] = type("ProtocolError", (Exception,), {})
        exec(compile(ast.Module(body=[fn], type_ignores=[]), "<check_or_raise_id>", "exec"), ns)

        def ok(v):
            try:
                ns["check_or_raise_id"](v)
                return True
            except Exception:
                return False
        if ok(0) and not ok(-1) and ok(1):
            hi = 1
            while ok(hi) and hi < 2 ** 80:
                hi *= 2
            if hi < 2 ** 80:
                lo = hi // 2          # ok(lo), not ok(hi)
                while hi - lo > 1:
                    mid = (lo + hi) // 2
                    if ok(mid):
                        lo = mid
                    else:
                        hi = mid
                # the accepted set must be the interval [0, lo]
                if all(ok(v) for v in (0, 1, 2, lo - 1, lo)) and not any(ok(v) for v in (lo + 1, lo + 2, 2 * lo + 1)):
                    cid = lo
        elif not ok(0) or ok(-1):
            raise ValueError("check_or_raise_id lower bound is not 0")
    except ValueError:
        raise
    except Exception:
        cid = None
    if cid is None:
        for c in ast.walk(fn):
            if isinstance(c, ast.Compare) and isinstance(c.left, ast.Name) and c.left.id == "value" \
                    and isinstance(c.ops[0], ast.Gt) and isinstance(c.comparators[0], ast.Constant):
                cid = c.comparators[0].value
    if type(cid) is not int:
        raise ValueError("id bound not found in check_or_raise_id")
    out["id_bound"] = cid

    # enc identifiers
    def strlist(name):
        v = _module_assign(mt, name)
        res = []
        for e in v.elts:
            if isinstance(e, ast.Constant) and isinstance(e.value, str):
                res.append(e.value)
            elif isinstance(e, ast.Name):
                res.append(ast.literal_eval(_module_assign(mt, e.id)))
            else:
                raise ValueError(f"unexpected element in {name}")
        return res
    out["enc_algos"] = strlist("PAYLOAD_ENC_STANDARD_IDENTIFIERS")
    out["enc_serializers"] = strlist("PAYLOAD_ENC_STANDARD_SERIALIZERS")

    # role features: ROLE_NAME_TO_CLASS and __init__ signatures
    rmap = _module_assign(rt, "ROLE_NAME_TO_CLASS")
    roles = []
    for k, v in zip(rmap.keys, rmap.values):
        cls = _class(rt, v.id)
        init = _func(cls, "__init__")
        feats = [a.arg for a in init.args.args if a.arg != "self"]
        if init.args.kwarg is None:
            raise ValueError(f"{v.id}.__init__ lost its **kwargs")
        roles.append((k.value, feats))
    out["roles"] = roles

    # role names accepted by Hello.parse / Welcome.parse: `if role not in [...]`
    def role_names(cname):
        f = _func(_class(mt, cname), "parse")
        for n in ast.walk(f):
            if isinstance(n, ast.Compare) and isinstance(n.left, ast.Name) and n.left.id == "role" \
                    and isinstance(n.ops[0], ast.NotIn):
                return [e.value for e in n.comparators[0].elts]
        raise ValueError(f"role list not found in {cname}.parse")
    out["hello_roles"] = role_names("Hello")
    out["welcome_roles"] = role_names("Welcome")

    # forward_for loop: repaired (`for … else: valid = True`) or not, per class; and whether the entry check
    # admits `authid: None` (`ff["authid"] is not None and type(ff["authid"]) != str`) — must be uniform over the sites
    ff = {}
    ff_none = {}
    lens = {}
    for c in CLASSES:
        p = _func(_class(mt, c), "parse")
        state = None
        for n in ast.walk(p):
            if isinstance(n, ast.For) and isinstance(n.target, ast.Name) and n.target.id == "ff":
                in_else = any(isinstance(s, ast.Assign) and isinstance(s.targets[0], ast.Name)
                              and s.targets[0].id == "valid" for s in n.orelse)
                has_raise = any(isinstance(s, ast.Raise) for s in ast.walk(n))
                state = bool(in_else or has_raise)
                # the `if "authid" not in ff or …: break` test
                for t in ast.walk(n):
                    if isinstance(t, ast.If) and "authid" in ast.unparse(t.test):
                        ff_none[c] = "is not None" in ast.unparse(t.test)
        if state is not None:
            ff[c] = state
            if c not in ff_none:
                raise ValueError(f"{c}.parse: forward_for loop without an authid test")
        # admissible lengths: first `len(wmsg) != N` or `len(wmsg) not in (...)`
        ls = None
        for n in ast.walk(p):
            if isinstance(n, ast.Compare) and isinstance(n.left, ast.Call) and isinstance(n.left.func, ast.Name) \
                    and n.left.func.id == "len" and ls is None:
                if isinstance(n.ops[0], ast.NotEq) and isinstance(n.comparators[0], ast.Constant):
                    ls = [n.comparators[0].value]
                elif isinstance(n.ops[0], ast.NotIn):
                    ls = [e.value for e in n.comparators[0].elts]
        if ls is None:
            raise ValueError(f"length check not found in {c}.parse")
        lens[c] = ls
    out["ff_fixed"] = ff
    if len(set(ff_none.values())) != 1:
        raise ValueError(f"forward_for authid checks differ between classes: {ff_none}")
    out["ff_authid_none_ok"] = next(iter(ff_none.values()))
    out["lengths"] = lens

    # NAME / BINARY of the object serializers (text/binary flag reported by Serializer.serialize)
    sb = []
    for n in ast.walk(st):
        if isinstance(n, ast.ClassDef) and n.name.endswith("ObjectSerializer"):
            try:
                name, binary = _const_assign(n, "NAME"), _const_assign(n, "BINARY")
            except ValueError:
                continue
            if type(name) is not str or type(binary) is not bool:
                raise ValueError(f"{n.name}: NAME/BINARY are not literals")
            sb.append((name, binary))
    if not any(nm == "json" for nm, _ in sb):
        raise ValueError("JsonObjectSerializer NAME/BINARY not found")
    out["serializer_binary"] = sb
    return out


def render(d):
    L = ["/- GENERATED by translate/wamp_codes.py from /repo/src/autobahn/wamp/{message,serializer,role}.py — do not edit -/",
         "namespace Abverif.Generated.WampCodes", ""]
    L.append(f"def idBound : Int := {d['id_bound']}")
    L.append("")
    for c, v in d["codes"].items():
        L.append(f"def code_{c} : Int := {v}")
    L.append("")
    L.append("/-- (class name, MESSAGE_TYPE) for the 25 classes of message.py -/")
    L.append("def messageTypes : List (List Char × Int) := [")
    L.append(",\n".join(f"  ({lean_str(c)}, {v})" for c, v in d["codes"].items()))
    L.append("]")
    L.append("")
    L.append("/-- Serializer.MESSAGE_TYPE_MAP: type code ↦ class name -/")
    L.append("def typeMap : List (Int × List Char) := [")
    L.append(",\n".join(f"  ({k}, {lean_str(v)})" for k, v in d["type_map"]))
    L.append("]")
    L.append("")
    L.append("def errorRequestTypes : List Int := [" + ", ".join(map(str, d["error_request_types"])) + "]")
    L.append("def encAlgos : List (List Char) := [" + ", ".join(lean_str(s) for s in d["enc_algos"]) + "]")
    L.append("def encSerializers : List (List Char) := [" + ", ".join(lean_str(s) for s in d["enc_serializers"]) + "]")
    L.append("")
    L.append("/-- role name ↦ feature names (role.py `__init__` signatures, in attribute order) -/")
    L.append("def roleFeatures : List (List Char × List (List Char)) := [")
    L.append(",\n".join("  (%s, [%s])" % (lean_str(r), ", ".join(lean_str(f) for f in fs)) for r, fs in d["roles"]))
    L.append("]")
    L.append("def helloRoles : List (List Char) := [" + ", ".join(lean_str(s) for s in d["hello_roles"]) + "]")
    L.append("def welcomeRoles : List (List Char) := [" + ", ".join(lean_str(s) for s in d["welcome_roles"]) + "]")
    L.append("")
    L.append("/-- per class: has the `forward_for` loop of `parse` been repaired to `for … else: valid = True`? -/")
    for c in CLASSES:
        if c in d["ff_fixed"]:
            L.append(f"def ffFixed_{c} : Bool := {'true' if d['ff_fixed'][c] else 'false'}")
    L.append("")
    L.append("/-- do the `forward_for` entry checks of `parse` admit `authid: None` (as the constructors and marshal() do)? -/")
    L.append(f"def ffAuthidNoneOk : Bool := {'true' if d['ff_authid_none_ok'] else 'false'}")
    L.append("")
    L.append("/-- object serializer NAME ↦ its BINARY class attribute (what `Serializer.serialize` reports as is_binary) -/")
    L.append("def serializerBinary : List (List Char × Bool) := [" + ", ".join(
        "(%s, %s)" % (lean_str(nm), "true" if b else "false") for nm, b in d["serializer_binary"]) + "]")
    L.append("")
    L.append("/-- per class: admissible `len(wmsg)` as written in `parse` -/")
    L.append("def lengths : List (List Char × List Nat) := [")
    L.append(",\n".join("  (%s, [%s])" % (lean_str(c), ", ".join(map(str, ls))) for c, ls in d["lengths"].items()))
    L.append("]")
    L.append("")
    L.append("end Abverif.Generated.WampCodes")
    return "\n".join(L) + "\n"


def translate(ctx=None):
    d = extract()
    core.write_if_changed(core.LEAN / "Abverif" / "Generated" / "WampCodes.lean", render(d))
    return d


if __name__ == "__main__":
    import json
    import sys
    from pathlib import Path
    sys.path.insert(0, str(Path(__file__).resolve().parent.parent))
    print(json.dumps(translate(), indent=1))
