#!/usr/bin/env python3
"""Regression run over the stored seeded changes: tools_seed_regress.py [ids...] [--jobs N] [--tier quick|thorough]

For every seeded/<id>/ (patch.diff + meta.json): copy /repo/src, apply the patch (3-way tolerant: `git apply`, then
`git apply -3` is not available in a plain copy, so a patch that no longer applies because /repo was repaired in the
same place is reported as `stale`), run ./check <property> against the copy (VERIF_REPO) and compare with the
expectation: a breaking change must be reported (exit 1 with a VIOLATION line), a harmless one must stay silent (exit 0).
Writes seeded/REGRESS.json and prints one line per change. Nothing is written to evidence/ (VERIF_REPO runs go to
evidence_scratch/)."""
import concurrent.futures as cf
import json
import os
import shutil
import subprocess
import sys
import tempfile
import time
from pathlib import Path

V = Path(__file__).parent
opts, ids = {}, []
it = iter(sys.argv[1:])
for a in it:
    if a.startswith("--"):
        opts[a[2:]] = next(it)
    else:
        ids.append(a)
jobs = int(opts.get("jobs", 3))
tier = opts.get("tier", "quick")
if not ids:
    ids = sorted(p.name for p in (V / "seeded").iterdir() if (p / "patch.diff").exists())


def one(sid):
    d = V / "seeded" / sid
    meta = json.loads((d / "meta.json").read_text())
    prop = meta.get("property") or ("C" + sid.replace("harmless_", "")[1:3])
    # a change whose effect a later repair in /repo has neutralised (the seeder's own demo passes with it) must stay silent
    harmless = sid.startswith("harmless_") or meta.get("kind") == "harmless" or bool(meta.get("neutralised_by"))
    scratch = Path(tempfile.mkdtemp(prefix=f"abverif-regress-{sid}-"))
    t0 = time.time()
    try:
        shutil.copytree("/repo/src", scratch / "src", ignore=shutil.ignore_patterns("__pycache__", "*.o", "*.so"))
        subprocess.run(["git", "init", "-q"], cwd=scratch, check=True)
        a = subprocess.run(["git", "apply", str(d / "patch.diff")], cwd=scratch, capture_output=True, text=True)
        if a.returncode != 0:
            return dict(id=sid, property=prop, harmless=harmless, status="stale", detail=a.stderr.strip()[:300])
        e = dict(os.environ, VERIF_REPO=str(scratch))
        p = subprocess.run([str(V / "check"), prop, "--tier", tier], cwd=V, env=e, capture_output=True, text=True, timeout=7200)
        out = p.stdout + p.stderr
        viol = [l for l in out.splitlines() if l.startswith("VIOLATION")]
        ok = (p.returncode == 0 and not viol) if harmless else (p.returncode == 1 and bool(viol))
        return dict(id=sid, property=prop, harmless=harmless, status="ok" if ok else "UNEXPECTED", rc=p.returncode,
                    violations=len(viol), first=(viol[0][:160] if viol else ""), seconds=round(time.time() - t0))
    except Exception as ex:  # noqa
        return dict(id=sid, property=prop, harmless=harmless, status="error", detail=repr(ex)[:300])
    finally:
        shutil.rmtree(scratch, ignore_errors=True)


res = []
with cf.ThreadPoolExecutor(jobs) as ex:
    for r in ex.map(one, ids):
        res.append(r)
        print(json.dumps(r), flush=True)
(V / "seeded" / "REGRESS.json").write_text(json.dumps({"tier": tier, "results": res}, indent=1) + "\n")
bad = [r for r in res if r["status"] in ("UNEXPECTED", "error")]
print(f"{len(res)} changes: {sum(r['status'] == 'ok' for r in res)} as expected, {sum(r['status'] == 'stale' for r in res)} stale, {len(bad)} unexpected")
sys.exit(1 if bad else 0)
