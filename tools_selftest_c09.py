#!/usr/bin/env python3
"""Self-test of the C09 machinery (not a registered check): applies realistic single-edit mutations to a scratch copy
of /repo/src (never to /repo), runs `VERIF_REPO=<copy> ./check C09 --tier quick` for each and records exit code,
violation keys, replays and proof problems. Harmless rewrites must stay silent (exit 0 with only the known finding).

usage: python3 tools_selftest_c09.py [name ...]      (afterwards the generated Lean tables are restored from /repo)
"""
import json
import os
import re
import shutil
import subprocess
import sys
import tempfile
import time
from pathlib import Path

V = Path(__file__).resolve().parent
PYF = "src/autobahn/websocket/utf8validator.py"
CF = "src/autobahn/nvx/_utf8validator.c"
WF = "src/autobahn/nvx/_utf8validator.py"
INIT = "src/autobahn/websocket/__init__.py"


def sub(path, old, new, count=1):
    def f(root):
        p = root / path
        s = p.read_text()
        if s.count(old) < 1:
            raise SystemExit(f"mutation anchor not found in {path}: {old!r}")
        p.write_text(s.replace(old, new, count))
    return f


def py_cell(index, new):
    """change one cell of the Python UTF8VALIDATOR_DFA tuple (by position)"""
    def f(root):
        p = root / PYF
        s = p.read_text()
        a = s.index("UTF8VALIDATOR_DFA = (")
        b = s.index("\n)", a)
        body = s[a:b]
        cells = list(re.finditer(r"(?m)^    (0x[0-9A-Fa-f]+|\d+),", body))
        assert len(cells) == 400, len(cells)
        m = cells[index]
        body = body[:m.start(1)] + new + body[m.end(1):]
        p.write_text(s[:a] + body + s[b:])
    return f


def c_cell(index, new):
    def f(root):
        p = root / CF
        s = p.read_text()
        a = s.index("{", s.index("UTF8VALIDATOR_DFA[] __attribute__"))
        b = s.index("};", a)
        body = s[a:b]
        body_nc = body
        cells = [m for m in re.finditer(r"(?<![\w.])(0x[0-9a-fA-F]+|\d+)(?=\s*,|\s*//|\s*$)", body_nc)
                 if "//" not in body_nc[body_nc.rfind("\n", 0, m.start()) + 1:m.start()]]
        assert len(cells) == 400, len(cells)
        m = cells[index]
        p.write_text(s[:a] + body[:m.start(1)] + new + body[m.end(1):] + s[b:])
    return f


def py_reformat(root):
    """harmless: rewrite every table literal in the other base, `state << 4` -> `state * 16`, rename the loop variable"""
    p = root / PYF
    s = p.read_text()
    a = s.index("UTF8VALIDATOR_DFA = (")
    b = s.index("\n)", a)
    body = re.sub(r"(?m)^    (0x[0-9A-Fa-f]+|\d+),", lambda m: "    " + (str(int(m.group(1), 0)) if m.group(1).startswith("0x")
                                                                      else hex(int(m.group(1)))) + ",", s[a:b])
    s = s[:a] + body + s[b:]
    s = s.replace("256 + (state << 4) + UTF8VALIDATOR_DFA_S[ba[i]]", "256 + state * 16 + UTF8VALIDATOR_DFA_S[ba[i]]")
    p.write_text(s)


def c_reorder(root):
    """harmless: swap two independent branches of the macro, write a range as two comparisons the other way round"""
    p = root / CF
    s = p.read_text()
    a = "      } else if (octet == 0xe0) { \\\n         state = 4; \\\n"
    b = "      } else if (octet == 0xed) { \\\n         state = 5; \\\n"
    assert a in s and b in s
    s = s.replace(a, "@@A@@").replace(b, a).replace("@@A@@", b)
    s = s.replace("if (octet >= 0xc2 && octet <= 0xdf) {", "if (octet <= 0xdf && octet >= 0xc2) {")
    s = s.replace("octet == 0xf1 || octet == 0xf2 || octet == 0xf3", "octet >= 0xf1 && octet <= 0xf3")
    p.write_text(s)


MUTATIONS = {
    # name: (edit, expect_violation, description)
    "py-table-cell": (py_cell(256 + 5 * 16 + 7, "2"), True, "Python table: state 5 (after ED) x class 7 (A0..BF): 1 -> 2 (surrogates accepted)"),
    "c-table-cell": (c_cell(256 + 4 * 16 + 1, "2"), True, "C table: state 4 (after E0) x class 1 (80..8F): 1 -> 2 (overlong accepted)"),
    "c-macro-bound": (sub(CF, "if (octet >= 0x80 && octet <= 0x8f) {", "if (octet >= 0x80 && octet <= 0x9f) {"), True,
                      "C macro: state 8 (after F4) upper bound 0x8f -> 0x9f (> U+10FFFF accepted)"),
    "py-forgets-offset": (sub(PYF, "                    self._index += i\n", "                    pass\n"), True,
                          "Python validate(): reject branch no longer adds i to the total index"),
    "py-swap-tuple": (sub(PYF, "return True, state == UTF8_ACCEPT, l, self._index", "return state == UTF8_ACCEPT, True, l, self._index"), True,
                      "Python validate(): first two elements of the success tuple swapped"),
    "py-cur-total-swapped": (sub(PYF, "return False, False, i, self._index", "return False, False, self._index, i"), True,
                             "Python validate(): currentIndex and totalIndex swapped in the reject tuple"),
    "wrapper-ends-mapping": (sub(WF, "return (res >= 0, res == 0, current_index, total_index)", "return (res >= 0, res >= 0, current_index, total_index)"), True,
                             "NVX wrapper: endsOnCodePoint computed as res >= 0"),
    "c-total-off-by-one": (sub(CF, "         vld->total_index += i;\n", "         vld->total_index += i + 1;\n"), True,
                           "C table loop: total_index advanced by i + 1 on reject"),
    "c-unrolled-state-not-saved": (sub(CF, "   vld->state = state;\n\n   // Update position tracking for success or partial success", "\n   // Update position tracking for success or partial success", 2), True,
                                   "C loops: state no longer stored at the end of a call (both loops): chunk boundary inside a code point is lost"),
    "py-reject-const": (sub(PYF, "UTF8_REJECT = 1", "UTF8_REJECT = 2"), True, "Python UTF8_REJECT = 2"),
    "selection-ignores-0": (sub(INIT, 'if env_val in ("0", "no", "false"):', 'if env_val in ("no", "false"):'), True,
                            "websocket/__init__.py: AUTOBAHN_USE_NVX=0 no longer disables NVX"),
    "c-readd-reject-guard-table": (sub(CF, "   while (i < length) {\n      state = UTF8VALIDATOR_DFA[", "   while (i < length && state != 1) {\n      state = UTF8VALIDATOR_DFA["), True,
                                   "C table loop: `&& state != 1` re-added to the while condition (F1 regression)"),
    "c-readd-reject-guard-unrolled": (sub(CF, "   while (i < length) {\n\n      // get octet", "   while (i < length && state != 1) {\n\n      // get octet"), True,
                                      "C unrolled loop: `&& state != 1` re-added to the while condition (F1 regression)"),
    "harmless-py": (py_reformat, False, "Python: table literals re-based (hex<->dec), state << 4 -> state * 16"),
    "harmless-c": (c_reorder, False, "C macro: two independent branches swapped, comparison order flipped, three == joined into a range"),
}


def main():
    names = sys.argv[1:] or list(MUTATIONS)
    rows = []
    for name in names:
        edit, expect, desc = MUTATIONS[name]
        root = Path(tempfile.mkdtemp(prefix="c09mut-"))
        try:
            shutil.copytree("/repo/src", root / "src")
            edit(root)
            for f in (V / "replays").glob("C09-*.json"):
                f.unlink()
            t = time.time()
            p = subprocess.run([str(V / "check"), "C09", "--tier", "quick"], cwd=V, capture_output=True, text=True,
                               env=dict(os.environ, VERIF_REPO=str(root)))
            wall = time.time() - t
            viol = [l for l in p.stdout.splitlines() if l.startswith("VIOLATION")]
            reps = []
            for l in viol:
                m = re.search(r"replay=(\S+)", l)
                d = json.loads(Path(m.group(1)).read_text())
                if d.get("kind") == "property-violation":
                    reps.append(f"{d['key']} {d['replay'].get('impl', '')} chunks={d['replay'].get('chunks')}")
                else:
                    reps.append("NO-FAILING-INPUT: " + json.dumps(d["no_longer_checks"])[:200])
            ev = json.loads((V / "evidence" / "C09.json").read_text())
            pp = ev["coverage"]["proof_problems"]
            ok = (p.returncode == 1 and reps and not any(r.startswith("NO-FAILING") for r in reps)) if expect else (p.returncode == 0)
            rows.append({"mutation": name, "what": desc, "exit": p.returncode, "as_expected": bool(ok), "wall_s": round(wall),
                         "replays": reps[:6], "proof_problems": [x[:160] for x in pp], "notes": ev["coverage"]["notes"][:2],
                         "correspondence_breaks": ev["coverage"]["correspondence_breaks"]})
            print(json.dumps(rows[-1], indent=1), flush=True)
            if p.returncode == 2:
                print(p.stderr[-1500:])
        finally:
            shutil.rmtree(root, ignore_errors=True)
    # restore the generated tables of the real tree
    subprocess.run([sys.executable, str(V / "tools_setup.py")], cwd=V, capture_output=True)
    print("\nSUMMARY")
    for r in rows:
        print(f"{r['mutation']:28s} exit={r['exit']} expected={'yes' if r['as_expected'] else 'NO '} {r['wall_s']:4d}s  "
              f"{'; '.join(r['replays'][:3])[:200]}")


if __name__ == "__main__":
    main()
