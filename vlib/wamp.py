"""Worker-side helpers for the WAMP *session* properties (C04, C11; reusable for C06, C10, C18, C20).

Import only inside harness workers (after `vlib.ws.setup(fw)`): the real autobahn code is used.

  MockTransport(log)            recording ITransport (send/isOpen/close/abort/transport_details/is_closed/_serializer);
                                `fail_next = True` makes the next send() raise SendFailed after recording the message
  make_session(env, log, ...)   real ApplicationSession of the bound framework on a MockTransport
  tokens <-> python             uri/val/key/option/message codecs of the line protocol (lean/Abverif/Drv/Session.lean)
  ScriptRunner(env).run(script) executes one event script against a fresh session; returns one canonical
                                observation line per event, in the format the Lean driver prints
"""
import sys

MATCH = ["exact", "prefix", "wildcard"]
INVOKE = ["single", "first", "last", "roundrobin", "random"]


class SendFailed(Exception):
    """what the mock transport raises when told to fail"""


# ----------------------------------------------------------------------------- token codecs

def uri(n):
    return "com.u%d" % n


def uri_token(s):
    return s[5:] if isinstance(s, str) and s.startswith("com.u") else "?" + str(s)


def key(n):
    return "details" if n == 0 else "k%d" % n


def key_token(s):
    if s == "details":
        return 0
    if s.startswith("k") and s[1:].isdigit():
        return int(s[1:])
    return -1


def parse_args(t):
    """'n' -> None ; 'a' -> [] ; 'a1.2' -> [1, 2]"""
    if t == "n":
        return None
    assert t[0] == "a", t
    return [int(x) for x in t[1:].split(".")] if len(t) > 1 else []


def parse_kwargs(t):
    if t == "n":
        return None
    assert t[0] == "k", t
    out = {}
    if len(t) > 1:
        for kv in t[1:].split("."):
            k, v = kv.split("=")
            out[key(int(k))] = int(v)
    return out


def r_args(a):
    return "a" + ".".join(str(x) for x in (a or ()))


def r_kwargs(k, val=str):
    items = sorted((key_token(n), v) for n, v in (k or {}).items())
    return "k" + ".".join("%d=%s" % (n, val(v)) for n, v in items)


def parse_opts(t):
    """'n' -> None ; 'o<name>=<val>/...' -> dict name -> raw value string"""
    if t == "n":
        return None
    assert t[0] == "o", t
    out = {}
    if len(t) > 1:
        for f in t[1:].split("/"):
            n, v = f.split("=")
            out[n] = v
    return out


def _b(v):
    return {"t": True, "f": False}[v]


def _oom(v, conv):
    if v.startswith("l"):
        return [conv(int(x)) for x in v[1:].split(".")] if len(v) > 1 else []
    return conv(int(v))


def _ff(n):
    return [{"session": n, "authid": "u", "authrole": "r"}]


def r_optval(name, v):
    """canonical token of a marshalled option value"""
    if name == "forward_for":
        return str(v[0]["session"])
    if name == "match":
        return str(MATCH.index(v))
    if name == "invoke":
        return str(INVOKE.index(v))
    if isinstance(v, bool):
        return "T" if v else "F"
    if isinstance(v, int):
        return str(v)
    if isinstance(v, str):
        return v.lstrip("hur")
    if isinstance(v, (list, tuple)):
        return "[" + ".".join(r_optval("", x) for x in v) + "]"
    return "?" + repr(v)


def r_opts(d):
    return "{" + "/".join("%s=%s" % (n, r_optval(n, d[n])) for n in sorted(d)) + "}"


KNOWN_URIS = {"wamp.error.runtime_error": "900", "wamp.error.invalid_payload": "901",
              "wamp.error.payload_size_exceeded": "902"}


def r_vals(a):
    """args of a reply message: ints as they are, None as 0, texts (messages) dropped"""
    out = []
    for x in (a or ()):
        if x is None:
            out.append("0")
        elif isinstance(x, int) and not isinstance(x, bool):
            out.append(str(x))
        elif isinstance(x, (str, set, frozenset)):
            continue          # texts (and cbor's sets) are results whose content is not compared
        else:
            out.append("?" + type(x).__name__)
    return "a" + ".".join(out)


def r_kwvals(k):
    items = sorted((key_token(n), v) for n, v in (k or {}).items())
    return "k" + ".".join("%d=%s" % (n, "0" if v is None else v) for n, v in items)


def r_msg(msg):
    """canonical rendering of a message object handed to ITransport.send (through its marshal())"""
    from autobahn.wamp import message as M
    m = msg.marshal()
    if isinstance(msg, M.Abort):
        return "ABORT"
    if isinstance(msg, M.Authenticate):
        return "AUTHENTICATE"
    if isinstance(msg, M.Yield):
        return "YIELD,%d,%s,%s,%s" % (m[1], r_opts(m[2]), r_vals(m[3] if len(m) > 3 else ()), r_kwvals(m[4] if len(m) > 4 else {}))
    if isinstance(msg, M.Error):
        u = KNOWN_URIS.get(m[4]) or uri_token(m[4])
        return "ERROR,%d,%s,%s,%s" % (m[2], u, r_vals(m[5] if len(m) > 5 else ()), r_kwvals(m[6] if len(m) > 6 else {}))
    if isinstance(msg, M.Hello):
        return "HELLO"
    if isinstance(msg, M.Goodbye):
        return "GOODBYE"
    if isinstance(msg, M.Cancel):
        return "CANCEL,%d" % m[1]
    if isinstance(msg, M.Unsubscribe):
        return "UNSUBSCRIBE,%d,%d" % (m[1], m[2]) + ("" if len(m) == 3 else ",+" + r_opts(m[3]))
    if isinstance(msg, M.Unregister):
        return "UNREGISTER,%d,%d" % (m[1], m[2]) + ("" if len(m) == 3 else ",+" + r_opts(m[3]))
    if isinstance(msg, M.Subscribe):
        return "SUBSCRIBE,%d,%s,%s" % (m[1], r_opts(m[2]), uri_token(m[3])) + ("" if len(m) == 4 else ",+%d" % len(m))
    if isinstance(msg, M.Register):
        return "REGISTER,%d,%s,%s" % (m[1], r_opts(m[2]), uri_token(m[3])) + ("" if len(m) == 4 else ",+%d" % len(m))
    if isinstance(msg, (M.Call, M.Publish)):
        name = "CALL" if isinstance(msg, M.Call) else "PUBLISH"
        args = m[4] if len(m) > 4 else ()
        kwargs = m[5] if len(m) > 5 else {}
        return "%s,%d,%s,%s,%s,%s" % (name, m[1], r_opts(m[2]), uri_token(m[3]), r_args(args), r_kwargs(kwargs))
    return "OTHER:" + type(msg).__name__ + ":" + repr(m)


def exc_name(e):
    from autobahn.wamp import exception as X
    if isinstance(e, SendFailed):
        return "SendFailed"
    if isinstance(e, X.ProtocolError):
        return "ProtocolError"
    if isinstance(e, X.TransportLost):
        return "TransportLost"
    if type(e) is TypeError:
        return "TypeError"
    if type(e) is AttributeError:
        return "AttributeError"
    if type(e) is Exception:
        return "Exception"
    if isinstance(e, X.SerializationError):
        return "SerializationError"
    if type(e).__name__ == "PayloadExceededError":
        return "PayloadExceededError"
    if type(e) is ValueError:
        return "Other"
    n = type(e).__name__
    if n in ("AlreadyCalledError", "InvalidStateError"):
        return "AlreadyCalled"
    return "Other:" + n


# ----------------------------------------------------------------------------- transport / session

class MockTransport:
    """recording ITransport; never talks to anything"""

    def __init__(self, log):
        self.log = log            # callable(str)
        self.fail_next = False
        self.faults = []          # outcomes of the next send() calls on reply paths (YIELD / ERROR): ok|ser|big|lost|other
        self.open = True
        self.sent = []

        class _Ser:
            SERIALIZER_ID = "json"
        self._serializer = _Ser()

    # ITransport
    def send(self, msg):
        from autobahn.wamp import message as M
        if isinstance(msg, (M.Yield, M.Error)):
            f = self.faults.pop(0) if self.faults else "ok"
            if f != "ok":
                from autobahn.wamp.exception import SerializationError, TransportLost
                from autobahn.exception import PayloadExceededError
                self.log("sendfail:%s:%s" % (f, r_msg(msg)))
                raise {"ser": SerializationError, "big": PayloadExceededError, "lost": TransportLost,
                       "other": ValueError}[f]("injected")
            self.sent.append(msg)
            self.log("send:" + r_msg(msg))
            return
        self.sent.append(msg)
        self.log("send:" + r_msg(msg))
        if self.fail_next:
            self.fail_next = False
            raise SendFailed("injected")

    def isOpen(self):
        return self.open

    @property
    def is_closed(self):
        return not self.open

    @property
    def transport_details(self):
        return None

    def close(self):
        self.log("close")

    def abort(self):
        self.log("abort")


def session_class(fw):
    if fw == "twisted":
        from autobahn.twisted.wamp import ApplicationSession
    else:
        from autobahn.asyncio.wamp import ApplicationSession
    return ApplicationSession


REASONS = {"wamp.close.normal": 0, "wamp.close.transport_lost": 1, "wamp.error.no_such_realm": 2,
           "wamp.error.cannot_authenticate": 3}


def make_session(env, log, realm="realm1", hook=None, transport=True):
    """-> (session, transport): a real ApplicationSession whose user-error hook is recorded. With `hook`
    (callable(name, default_body, arg) -> return value) every lifecycle callback is overridden: the override logs
    itself and lets `hook` decide whether the default body runs, what it calls, and whether it returns or raises;
    observers of the five session events are registered and logged as `fire:<event>`."""
    from autobahn.wamp import types
    base = session_class(env.fw)

    class Sess(base):
        def onUserError(self, fail, msg):
            log("uerr")
    if hook is not None:
        class Sess(Sess):  # noqa: F811
            def onConnect(self):
                return hook("onConnect", lambda: base.onConnect(self), None)

            def onJoin(self, details):
                return hook("onJoin", None, None)

            def onLeave(self, details):
                return hook("onLeave", lambda: base.onLeave(self, details), REASONS.get(details.reason, 9))

            def onDisconnect(self):
                return hook("onDisconnect", lambda: base.onDisconnect(self), None)

            def onChallenge(self, challenge):
                return hook("onChallenge", None, None)

            def onWelcome(self, msg):
                return hook("onWelcome", None, None)
    s = Sess(types.ComponentConfig(realm=realm))
    if hook is not None:
        for ev in ("connect", "join", "ready", "leave", "disconnect"):
            s.on(ev, (lambda ev: (lambda *a, **k: log("fire:" + ev)))(ev))
    t = MockTransport(log) if transport else None
    return s, t


def welcome_msg(session_id):
    from autobahn.wamp import message, role
    return message.Welcome(session_id, {"broker": role.RoleBrokerFeatures(), "dealer": role.RoleDealerFeatures()})


# ----------------------------------------------------------------------------- script runner

class _Dead:
    """placeholder for a future the API call never returned"""


class ScriptRunner:
    def __init__(self, env):
        self.env = env
        self.fw = env.fw
        import txaio
        self.txaio = txaio

    # --- logging
    def log(self, s):
        self.cur.append(s)

    # --- outcomes
    def r_value(self, kind, v):
        from autobahn.wamp import types
        from autobahn.wamp.request import Publication, Subscription, Registration
        if v is None:
            return "none"
        if isinstance(v, types.CallResult):
            return "CR(%s,%s)" % (r_args(v.results), r_kwargs(v.kwresults))
        if isinstance(v, Publication):
            return "pub%d" % v.id
        if isinstance(v, Subscription):
            return "sub%d" % v.id
        if isinstance(v, Registration):
            return "reg%d" % v.id
        if isinstance(v, int) and not isinstance(v, bool):
            return ("int%d" if kind == "unsub" else "v%d") % v
        return "?" + repr(v)

    def r_error(self, e):
        from autobahn.wamp import exception as X
        import asyncio
        try:
            from twisted.internet.defer import CancelledError as TwCancelled
        except Exception:  # pragma: no cover
            TwCancelled = ()
        if isinstance(e, (asyncio.CancelledError, TwCancelled)):
            return "cancelled"
        if isinstance(e, X.TransportLost):
            return "closed1"
        if isinstance(e, X.ApplicationError):
            if e.error == "wamp.close.transport_lost":
                return "closed1"
            if e.error.startswith("wamp.close."):
                return "closed0"
            if e.error == "wamp.error.no_such_realm":
                return "closed2"
            if e.error == "wamp.error.cannot_authenticate":
                return "closed3"
            return "err(%s,%s,%s)" % (uri_token(e.error), r_args(e.args), r_kwargs(e.kwargs))
        return "?" + type(e).__name__

    def track(self, kind, fut):
        """register a returned future as FutId len(futs); attach recording callbacks"""
        f = len(self.futs)
        self.futs.append((kind, fut))
        self.done.append(False)
        self.vals.append(None)

        def ok(v):
            self.vals[f] = ("v", v)
            self.log("cb:%d=%s" % (f, self.r_value(kind, v)))
            return v

        def err(fail):
            self.vals[f] = ("e", fail.value)
            self.log("cb:%d=%s" % (f, self.r_error(fail.value)))
            return None
        self.txaio.add_callbacks(fut, ok, err)
        return f

    def dead(self, kind, fut=None):
        self.futs.append((kind, fut if fut is not None else _Dead()))
        self.done.append(False)
        self.vals.append(None)

    def result_of(self, f):
        """the value future f resolved to (Subscription/Registration), or None"""
        kind, fut = self.futs[f]
        if isinstance(fut, _Dead):
            return None
        if self.fw == "twisted":
            v = self.vals[f]
            if v is None and fut is not None and getattr(fut, "called", False):
                # orphan (no recording callbacks attached): read the Deferred directly
                from twisted.python.failure import Failure
                return None if isinstance(fut.result, Failure) else fut.result
            return v[1] if v and v[0] == "v" else None
        if fut.done() and not fut.cancelled() and fut.exception() is None:
            return fut.result()
        return None

    def fut_of_obj(self, obj):
        for f in range(len(self.futs)):
            if self.result_of(f) is obj:
                return f
        return -1

    def poll_done(self):
        for f, (kind, fut) in enumerate(self.futs):
            if self.done[f] or isinstance(fut, _Dead):
                continue
            if self.txaio.is_called(fut):
                self.done[f] = True
                if self.fw == "twisted":
                    v = self.vals[f]
                    if v is None:
                        # orphan (never returned to the user): read the Deferred directly
                        r = fut.result
                        from twisted.python.failure import Failure
                        v = ("e", r.value) if isinstance(r, Failure) else ("v", r)
                        if isinstance(r, Failure):
                            fut.addErrback(lambda _: None)
                else:
                    if fut.cancelled():
                        import asyncio
                        v = ("e", asyncio.CancelledError())
                    elif fut.exception() is not None:
                        v = ("e", fut.exception())
                    else:
                        v = ("v", fut.result())
                self.log("done:%d=%s" % (f, self.r_value(kind, v[1]) if v[0] == "v" else self.r_error(v[1])))

    # --- user code
    DEFAULT_ACT = {"dflt": True, "raises": False, "spec": "", "progress": [], "calls": [], "unconditional": False}

    def next_act(self):
        return self.acts.pop(0) if self.acts else dict(self.DEFAULT_ACT)

    def run_calls(self, calls, self_obj):
        for c in calls:
            if c == "self":
                if self_obj is None:
                    continue
                c = "unsub,%d,ok" % self_obj
            self.do_api(c, nested=True)

    def make_exc(self, spec):
        """exception instance for an exc token: '' | r | a<uri>/<args>/<kwargs> | m<uri>/<args> | t<args> | u"""
        from autobahn.wamp import exception as X
        if spec in ("", "r"):
            return RuntimeError()
        if spec == "u":
            class Unbuildable(Exception):
                kwargs = 5          # `message.Error(...)` asserts `type(kwargs) == dict`
            return Unbuildable()
        if spec[0] == "a":
            u, a, k = spec[1:].split("/")
            return X.ApplicationError(uri(int(u)), *(parse_args(a) or []), **(parse_kwargs(k) or {}))
        if spec[0] == "m":
            u, a = spec[1:].split("/")
            cls = self.mapped.get(u)
            if cls is None:
                cls = type("Mapped%s" % u, (Exception,), {})
                self.mapped[u] = cls
                self.sess.define(cls, uri(int(u)))
            return cls(*(parse_args(a) or []))
        if spec[0] == "t":
            return RuntimeError(*(parse_args(spec[1:]) or []))
        raise ValueError("bad exc token " + spec)

    @staticmethod
    def make_ret(spec):
        """python value for a ret token: '' | n | v<val> | c<args>/<kwargs>"""
        from autobahn.wamp import types
        if spec in ("", "n"):
            return None
        if spec[0] == "v":
            return int(spec[1:])
        if spec[0] == "c":
            a, k = spec[1:].split("/")
            return types.CallResult(*(parse_args(a) or []), **(parse_kwargs(k) or {}))
        raise ValueError("bad ret token " + spec)

    def run_act(self, self_obj):
        act = self.next_act()
        self.run_calls(act["calls"], self_obj)
        if act["raises"]:
            raise self.make_exc(act["spec"])

    # --- lifecycle hooks (every override logs itself; behaviour from the acts the event carried)
    def hook(self, name, default_body, arg):
        self.log("hook:%s" % name + ("" if arg is None else ",%d" % arg))
        if name in self.now_acts:
            # called from within the event that carries its behaviour
            act = self.now_acts.pop(name)
        else:
            q = self.hook_acts.get(name)
            act = q.pop(0) if q else dict(self.DEFAULT_ACT)
        r = None
        if act["dflt"] and default_body is not None:
            r = default_body()
        self.run_calls(act["calls"], None)
        if act["raises"]:
            raise self.make_exc(act["spec"])
        if name == "onWelcome":
            return None if act["spec"] in ("", "n") else "denied"
        if name == "onChallenge":
            return None if act["spec"] in ("", "n") else "signature"
        return r

    def bind_hooks(self, ev, acts):
        """queue the behaviours an event carries for the hooks it will (eventually) make the session call"""
        def put(name, i):
            # a hook a continuation will call later (asyncio) or at once (Twisted): first in, first out
            if i < len(acts):
                self.hook_acts.setdefault(name, []).append(acts[i])
                self.put_now.append((name, acts[i]))

        def now(name, i):
            # a hook this very event calls synchronously
            if i < len(acts):
                self.now_acts[name] = acts[i]
        self.now_acts = {}
        joined = bool(self.sess._session_id)
        if ev == "open":
            put("onConnect", 0)
        elif ev == "closed":
            if joined:
                now("onLeave", 0)
            now("onDisconnect", 1)
        elif ev == "m.welcome" and not joined:
            now("onWelcome", 0)
            a = acts[0] if acts else self.DEFAULT_ACT
            if not a["raises"] and a["spec"] in ("", "n") and self.sess._transport is not None:
                put("onJoin", 1)
        elif ev == "m.abort" and not joined:
            now("onLeave", 0)
        elif ev == "m.goodbye" and joined:
            now("onLeave", 0)
        elif ev == "m.challenge" and not joined:
            now("onChallenge", 0)
            a = acts[0] if acts else self.DEFAULT_ACT
            fails = a["raises"] or (a["spec"] in ("", "n") and self.fw != "twisted")
            if fails and self.sess._transport is not None:
                put("onLeave", 1)

    def drop_refused(self):
        """the message was refused (onMessage raised): the hooks it would have led to are not going to be called"""
        for name, act in self.put_now:
            q = self.hook_acts.get(name, [])
            if any(a is act for a in q):
                q.pop(next(i for i, a in enumerate(q) if a is act))
        self.put_now = []

    def make_handler(self, h, obj):
        def handler(*a, **kw):
            def val(v):
                from autobahn.wamp import types
                if isinstance(v, types.EventDetails):
                    return "d%d" % self.fut_of_obj(v.subscription)
                return str(v)
            self.log("inv:%d,%d,%s,%s" % (obj, h, r_args(a), r_kwargs(kw, val)))
            self.run_act(obj)
        return handler

    def make_endpoint(self, h, obj):
        def endpoint(*a, **kw):
            from autobahn.wamp import types

            def val(v):
                if isinstance(v, types.CallDetails):
                    return "D%d.%d" % (self.fut_of_obj(v.registration), 1 if v.progress else 0)
                return str(v)
            req = self.cur_req
            self.log("ep:%d,%d,%d,%s,%s" % (req, obj, h, r_args(a), r_kwargs(kw, val)))
            act = self.next_act()
            details = next((v for v in kw.values() if isinstance(v, types.CallDetails)), None)
            # two endpoint styles: `if details.progress:` (~p) and `if details.progress is not None:` (~P)
            has = details is not None and ((details.progress is not None) if act.get("unconditional") else bool(details.progress))
            if has:
                self.prog_fns[req] = details.progress
                for v in act["progress"]:
                    details.progress(v)
            self.run_calls(act["calls"], None)
            if act["raises"]:
                raise self.make_exc(act["spec"])
            if act["spec"] == "p":
                f = self.txaio.create_future()
                self.inv_futs[req] = f
                return f
            return self.make_ret(act["spec"])
        return endpoint

    def make_progress(self, h):
        def on_progress(*a, **kw):
            from autobahn.wamp import types
            if len(a) == 1 and not kw and isinstance(a[0], types.CallResult):
                self.log("prog:%d,CR(%s,%s)" % (h, r_args(a[0].results), r_kwargs(a[0].kwresults)))
            else:
                self.log("prog:%d,plain(%s,%s)" % (h, r_args(a), r_kwargs(kw)))
            self.run_act(None)
        return on_progress

    # --- API
    def do_api(self, tok, nested=False):
        from autobahn.wamp import types
        p = tok.split(",")
        op = p[0]
        s, t = self.sess, self.tr
        tracked = None   # (kind, table attribute) when a future is created before the send
        try:
            if op == "join":
                s.join("realm1")
                return
            if op == "leave":
                s.leave()
                return
            if op == "disconnect":
                s.disconnect()
                return
            if op == "cancel":
                f = int(p[1])
                if f < len(self.futs) and not isinstance(self.futs[f][1], _Dead):
                    fut = self.futs[f][1]
                    if self.fw == "twisted":
                        fut.cancel()
                    else:
                        self.txaio.cancel(fut)
                else:
                    self.log("unmodelled")
                return
            snd = p[-1]
            if snd == "fail":
                t.fail_next = True
            if op == "call":
                o = parse_opts(p[4])
                opts = None
                if o is not None:
                    kw = {}
                    if "p" in o:
                        kw["on_progress"] = self.make_progress(int(o["p"]))
                    if "t" in o:
                        kw["timeout"] = int(o["t"])
                    if "x" in o:
                        kw["transaction_hash"] = "h" + o["x"]
                    if "c" in o:
                        kw["caller"] = int(o["c"])
                    if "ci" in o:
                        kw["caller_authid"] = "u" + o["ci"]
                    if "cr" in o:
                        kw["caller_authrole"] = "r" + o["cr"]
                    if "f" in o:
                        kw["forward_for"] = _ff(int(o["f"]))
                    if "d" in o:
                        kw["details"] = _b(o["d"])
                    opts = types.CallOptions(**kw)
                tracked = ("call", None)
                kwargs = parse_kwargs(p[3])
                if opts is not None:
                    kwargs = dict(kwargs, options=opts)
                r = s.call(uri(int(p[1])), *parse_args(p[2]), **kwargs)
            elif op == "pub":
                o = parse_opts(p[4])
                opts = None
                if o is not None:
                    kw = {}
                    conv = {"ex": int, "exi": lambda n: "u%d" % n, "exr": lambda n: "r%d" % n,
                            "el": int, "eli": lambda n: "u%d" % n, "elr": lambda n: "r%d" % n}
                    names = {"ex": "exclude", "exi": "exclude_authid", "exr": "exclude_authrole",
                             "el": "eligible", "eli": "eligible_authid", "elr": "eligible_authrole"}
                    for n, v in o.items():
                        if n == "ack":
                            kw["acknowledge"] = _b(v)
                        elif n == "xme":
                            kw["exclude_me"] = _b(v)
                        elif n == "ret":
                            kw["retain"] = _b(v)
                        elif n == "x":
                            kw["transaction_hash"] = "h" + v
                        elif n == "f":
                            kw["forward_for"] = _ff(int(v))
                        else:
                            kw[names[n]] = _oom(v, conv[n])
                    opts = types.PublishOptions(**kw)
                if opts is not None and opts.acknowledge:
                    tracked = ("pub", None)
                kwargs = parse_kwargs(p[3])
                if opts is not None:
                    kwargs = dict(kwargs, options=opts)
                r = s.publish(uri(int(p[1])), *parse_args(p[2]), **kwargs)
            elif op in ("sub", "reg"):
                o = parse_opts(p[3])
                opts = None
                if o is not None:
                    kw = {}
                    if "m" in o:
                        kw["match"] = MATCH[int(o["m"])]
                    if "f" in o:
                        kw["forward_for"] = _ff(int(o["f"]))
                    if "da" in o:
                        if o["da"] == "0":
                            kw["details"] = True
                        else:
                            kw["details_arg"] = key(int(o["da"]))
                    if op == "sub":
                        if "gr" in o:
                            kw["get_retained"] = _b(o["gr"])
                        opts = types.SubscribeOptions(**kw)
                    else:
                        if "inv" in o:
                            kw["invoke"] = INVOKE[int(o["inv"])]
                        if "con" in o:
                            kw["concurrency"] = int(o["con"])
                        if "fr" in o:
                            kw["force_reregister"] = _b(o["fr"])
                        opts = types.RegisterOptions(**kw)
                if op == "sub":
                    tracked = ("sub", "_subscribe_reqs")
                    r = s.subscribe(self.make_handler(int(p[1]), len(self.futs)), uri(int(p[2])), options=opts)
                else:
                    tracked = ("reg", "_register_reqs")
                    r = s.register(self.make_endpoint(int(p[1]), len(self.futs)), uri(int(p[2])), options=opts)
            elif op == "unsub":
                from autobahn.wamp.request import Subscription
                obj = self.result_of(int(p[1])) if int(p[1]) < len(self.futs) else None
                if not isinstance(obj, Subscription):
                    # the model raises Exception for "no such active subscription"; a user cannot even try
                    raise Exception("no such subscription object")
                tracked = ("unsub", "_unsubscribe_reqs")
                r = obj.unsubscribe()
            elif op == "unreg":
                from autobahn.wamp.request import Registration
                obj = self.result_of(int(p[1])) if int(p[1]) < len(self.futs) else None
                if not isinstance(obj, Registration):
                    raise Exception("no such registration object")
                tracked = ("unreg", "_unregister_reqs")
                r = obj.unregister()
            else:
                raise ValueError("bad api token " + tok)
        except Exception as e:  # noqa: BLE001 - every class is an observation
            t.fail_next = False
            if isinstance(e, SendFailed) and tracked is not None:
                kind, table = tracked
                orphan = None
                if table is not None:
                    recs = list(getattr(s, table).values())
                    orphan = recs[-1].on_reply if recs else None
                self.dead(kind, orphan)
            self.log(("caught:" if nested else "raise:") + exc_name(e))
            return
        t.fail_next = False
        if r is None:
            self.log("ret:none")
        else:
            self.log("ret:%d" % len(self.futs))
            self.track(tracked[0], r)

    # --- incoming
    def build_msg(self, tok):
        from autobahn.wamp import message as M
        p = tok.split(",")
        op = p[0]
        if op == "m.welcome":
            return welcome_msg(int(p[1]))
        if op == "m.goodbye":
            return M.Goodbye()
        if op == "m.abort":
            return M.Abort("wamp.error.no_such_realm")
        if op == "m.challenge":
            return M.Challenge("ticket")
        if op == "m.other":
            return M.Authenticate("sig")
        if op == "m.result":
            return M.Result(int(p[1]), args=parse_args(p[2]), kwargs=parse_kwargs(p[3]), progress=(p[4] == "1") or None)
        if op == "m.error":
            return M.Error(int(p[1]), int(p[2]), uri(int(p[3])), args=parse_args(p[4]), kwargs=parse_kwargs(p[5]))
        if op == "m.published":
            return M.Published(int(p[1]), int(p[2]))
        if op == "m.subscribed":
            return M.Subscribed(int(p[1]), int(p[2]))
        if op == "m.unsubscribed":
            return M.Unsubscribed(int(p[1]))
        if op == "m.registered":
            return M.Registered(int(p[1]), int(p[2]))
        if op == "m.unregistered":
            return M.Unregistered(int(p[1]), registration=None if p[2] == "n" else int(p[2]))
        if op == "m.event":
            return M.Event(int(p[1]), int(p[2]), args=parse_args(p[3]), kwargs=parse_kwargs(p[4]))
        if op == "m.invocation":
            if len(p) == 3:
                return M.Invocation(int(p[1]), int(p[2]))
            # the receive_progress detail: 0 absent, 1 true, f explicitly false (the only forms Invocation.parse lets
            # through: any other wire value — 0, 1, null, a string — is a ProtocolError of the parser, C08)
            return M.Invocation(int(p[1]), int(p[2]), args=parse_args(p[3]), kwargs=parse_kwargs(p[4]),
                                receive_progress={"1": True, "f": False}.get(p[5]))
        if op == "m.interrupt":
            return M.Interrupt(int(p[1]))
        raise ValueError("bad message token " + tok)

    @staticmethod
    def parse_acts(t):
        """act := [n](r[<ret>]|x[<exc>])[~p<v>.<v>...][+<call>...]"""
        acts = []
        if t:
            for a in t.split("!"):
                parts = a.split("+")
                head, _, prog = parts[0].partition("~")
                dflt = not head.startswith("n")
                if not dflt:
                    head = head[1:]
                assert head[:1] in ("r", "x"), "bad act " + a
                acts.append({"dflt": dflt, "raises": head[0] == "x", "spec": head[1:], "unconditional": prog[:1] == "P",
                             "progress": [int(x) for x in prog[1:].split(".")] if len(prog) > 1 else [],
                             "calls": parts[1:]})
        return acts

    # --- one script
    def run(self, script):
        """script: list of event tokens. -> list of observation lines"""
        self.futs, self.done, self.vals = [], [], []
        self.acts = []
        self.cur = []
        self.hook_acts = {}
        self.now_acts = {}
        self.put_now = []
        self.mapped = {}
        self.inv_futs = {}
        self.prog_fns = {}
        self.cur_req = -1
        self.sess, self.tr = make_session(self.env, self.log, hook=self.hook)
        out = []
        for ev in script:
            self.cur = []
            self.put_now = []
            head, _, acts = ev.partition(";")
            kind = head.split(",")[0]
            if kind in ("open", "closed"):
                self.bind_hooks(kind, self.parse_acts(acts))
                if kind == "open":
                    self.sess.onOpen(self.tr)
                else:
                    self.sess.onClose(True)
            elif ev == "pump":
                self.env.pump()
            elif ev == "tick":
                self.env.tick()
            elif kind.startswith("m."):
                pa = self.parse_acts(acts)
                if kind in ("m.welcome", "m.abort", "m.goodbye", "m.challenge"):
                    self.bind_hooks(kind, pa)
                    self.acts = []
                else:
                    self.acts = pa
                faithful = head.endswith(",-")
                m = head[:-2] if faithful else head
                if kind == "m.invocation":
                    self.cur_req = int(head.split(",")[1])
                try:
                    self.sess.onMessage(self.build_msg(m))
                except Exception as e:  # noqa: BLE001
                    self.log("raise:" + exc_name(e))
                    self.drop_refused()
                self.acts = []
                if kind == "m.welcome" and not faithful:
                    # the plain token means: delivered, and the loop ran until idle
                    self.env.pump()
            elif kind == "fault":
                self.tr.faults += head.split(",")[1].split(".")
            elif kind == "resolve":
                _, req, spec = head.split(",")
                f = self.inv_futs.get(int(req))
                if f is not None and not self.txaio.is_called(f):
                    self.txaio.resolve(f, self.make_ret(spec))
            elif kind == "fail":
                _, req, spec = head.split(",", 2)
                f = self.inv_futs.get(int(req))
                if f is not None and not self.txaio.is_called(f):
                    self.txaio.reject(f, self.make_exc(spec))
            elif kind == "lateprog":
                _, req, v = head.split(",")
                fn = self.prog_fns.get(int(req))
                if fn is None:
                    self.log("unmodelled")
                else:
                    try:
                        fn(int(v))
                    except Exception as e:  # noqa: BLE001
                        self.log("caught:" + exc_name(e))
            else:
                self.do_api(ev)
            self.now_acts = {}
            # completions are observed by polling, after everything else of this event
            head_ = [x for x in self.cur if not x.startswith("done:")]
            self.cur = head_
            self.poll_done()
            out.append(";".join(self.cur) if self.cur else "-")
        # leave nothing behind for the next script
        self.env.pump()
        return out


def worker_main():
    """stdin: JSON {"scripts": [[tokens...], ...]} ; argv[1]: framework ; stdout: JSON {"obs": [[lines...], ...]}
    (with --serve: a stream of such jobs, one per line)"""
    import json
    from vlib import ws
    fw = sys.argv[1]
    env = ws.setup(fw)
    r = ScriptRunner(env)

    def run_job(job):
        obs = []
        for sc in job["scripts"]:
            try:
                obs.append(r.run(sc))
            except Exception as e:  # noqa: BLE001 - harness failure, reported per script
                import traceback
                obs.append(["HARNESS-ERROR " + type(e).__name__ + ": " + str(e) + " " + traceback.format_exc()[-600:].replace("\n", " / ")])
        return {"obs": obs}
    if "--serve" in sys.argv:
        # one JSON job per input line, one JSON answer per output line (used while shrinking)
        for line in sys.stdin:
            if line.strip():
                sys.stdout.write(json.dumps(run_job(json.loads(line))) + "\n")
                sys.stdout.flush()
    else:
        json.dump(run_job(json.load(sys.stdin)), sys.stdout)
