"""Worker-side: the session script runner of vlib/wamp.py over the REAL WAMP transports of the bound framework.

  Link(env, kind, ser, ...)     one real client transport (kind = "ws" | "rs") with a real serializer, wired through an
                                in-memory pipe (vlib.ws.RecTransport) to a peer that speaks the wire format itself:
                                RawSocket handshake octets + length-prefixed frames / WebSocket opening handshake + RFC
                                6455 frames, payloads encoded and decoded with json / msgpack / cbor2 directly (not with
                                autobahn's serializer classes)
  RealRunner(env, kind, ser)    ScriptRunner whose `open` builds a Link (the transport calls session.onOpen itself), whose
                                `m.*` events travel as bytes through the transport's receive path, whose `closed` is the
                                framework's connection-lost notification, and whose `send:` observations are what the
                                peer decoded from the bytes the transport wrote

Observation tokens are those of vlib/wamp.py, plus (not part of the model's vocabulary, kept apart with a `t:` prefix):
  t:fail,<how>   the transport failed the connection by itself (protocol violation answered with close 1002 / abort)
The asyncio WebSocket transport hands received bytes to the protocol through the loop, so for that combination every
transport event is followed by a run of the loop inside the same token (`auto_pump`; scripts for it pump after every
event anyway and are compared pairwise). The other combinations process received bytes synchronously: their tokens mean
exactly what they mean for the mock transport, loop iterations included.
"""
import json
import struct

from vlib import wamp, ws

SER_ID = {"json": 1, "msgpack": 2, "cbor": 3}


def make_codec(name):
    """independent encoder / decoder of a WAMP message list (non-batched wire format)"""
    if name == "json":
        return (lambda o: json.dumps(o, separators=(",", ":"), ensure_ascii=False).encode("utf8"),
                lambda b: json.loads(b.decode("utf8")), False)
    if name == "msgpack":
        import msgpack
        return (lambda o: msgpack.packb(o, use_bin_type=True), lambda b: msgpack.unpackb(b, raw=False), True)
    if name == "cbor":
        import cbor2
        return (cbor2.dumps, cbor2.loads, True)
    raise ValueError(name)


def r_raw(m):
    """canonical token of a decoded WAMP message list (same rendering as vlib.wamp.r_msg gives for the object)"""
    t = m[0]
    opts = lambda d: wamp.r_opts(d)  # noqa: E731
    if t == 1:
        return "HELLO"
    if t == 6:
        return "GOODBYE"
    if t == 3:
        return "ABORT"
    if t == 5:
        return "AUTHENTICATE"
    if t == 70:
        return "YIELD,%d,%s,%s,%s" % (m[1], opts(m[2]), wamp.r_vals(m[3] if len(m) > 3 else ()), wamp.r_kwvals(m[4] if len(m) > 4 else {}))
    if t == 8:
        u = wamp.KNOWN_URIS.get(m[4]) or wamp.uri_token(m[4])
        return "ERROR,%d,%s,%s,%s" % (m[2], u, wamp.r_vals(m[5] if len(m) > 5 else ()), wamp.r_kwvals(m[6] if len(m) > 6 else {}))
    if t == 49:
        return "CANCEL,%d" % m[1]
    if t in (34, 66):
        return "%s,%d,%d" % ("UNSUBSCRIBE" if t == 34 else "UNREGISTER", m[1], m[2])
    if t in (32, 64):
        return "%s,%d,%s,%s" % ("SUBSCRIBE" if t == 32 else "REGISTER", m[1], opts(m[2]), wamp.uri_token(m[3]))
    if t in (48, 16):
        return "%s,%d,%s,%s,%s,%s" % ("CALL" if t == 48 else "PUBLISH", m[1], opts(m[2]), wamp.uri_token(m[3]),
                                      wamp.r_args(m[4] if len(m) > 4 else ()), wamp.r_kwargs(m[5] if len(m) > 5 else {}))
    return "OTHER:%r" % (m,)


class Link:
    """one real client transport + the peer's end of the pipe"""

    def __init__(self, env, kind, ser, log, session, rs_peer_exp=15, rs_own_size=None, ws_max=None):
        self.env, self.kind, self.ser, self.log, self.fw = env, kind, ser, log, env.fw
        self.enc, self.dec, self.binary = make_codec(ser)
        self.buf = b""
        self.up = False
        self.lost = False
        self.handshaking = True
        self.rs_peer_exp = rs_peer_exp        # the peer announces 2**rs_peer_exp as the longest message it accepts
        fw = env.fw
        from autobahn.wamp import serializer as S
        aser = {"json": S.JsonSerializer, "msgpack": S.MsgPackSerializer, "cbor": S.CBORSerializer}[ser]()
        link = self
        if kind == "rs":
            if fw == "twisted":
                from autobahn.twisted import rawsocket as R
            else:
                from autobahn.asyncio import rawsocket as R
            f = R.WampRawSocketClientFactory(lambda: session, serializer=aser)
            base = f.protocol
        else:
            if fw == "twisted":
                from autobahn.twisted import websocket as W
                kw = {"reactor": env.clock}
            else:
                from autobahn.asyncio import websocket as W
                kw = {"loop": env.loop}
            f = W.WampWebSocketClientFactory(lambda: session, "ws://localhost:9000", serializers=[aser], **kw)
            f.setProtocolOptions(openHandshakeTimeout=0, closeHandshakeTimeout=0, serverConnectionDropTimeout=0)
            if ws_max:
                f.setProtocolOptions(maxMessagePayloadSize=ws_max)
            base = f.protocol

        class Proto(base):
            # ITransport.close / abort as the session calls them
            def close(self):
                link.log("close")
                return base.close(self)

            def abort(self):
                link.log("t:fail,abort")
                return base.abort(self)

            def _bailout(self, code, reason=None):
                link.log("t:fail,%d" % code)
                return base._bailout(self, code, reason)
        f.protocol = Proto
        if kind == "rs" and fw == "twisted" and rs_own_size:
            f.setProtocolOptions(maxMessagePayloadSize=rs_own_size)
        self.factory = f
        self.proto = f.buildProtocol(None) if fw == "twisted" else f()
        self.t = ws.RecTransport(env)
        self.t.proto = self.proto
        orig_write = self.t.write

        def write(data):
            orig_write(data)
            link.on_bytes(bytes(data))
        self.t.write = write
        self.t.writeSequence = lambda seq: [write(d) for d in seq]

    # --- the peer reads what the transport writes
    def on_bytes(self, data):
        self.buf += data
        if self.kind == "rs":
            if self.handshaking:
                if len(self.buf) < 4:
                    return
                self.client_hs = self.buf[:4]
                self.buf = self.buf[4:]
                self.handshaking = False
            while len(self.buf) >= 4:
                ln = struct.unpack("!I", b"\0" + self.buf[1:4])[0]
                if len(self.buf) < 4 + ln:
                    break
                payload, self.buf = self.buf[4:4 + ln], self.buf[4 + ln:]
                if self.buf[0:0] == b"" and True:
                    pass
                self.got(payload)
        else:
            if self.handshaking:
                if b"\r\n\r\n" not in self.buf:
                    return
                head, _, self.buf = self.buf.partition(b"\r\n\r\n")
                self.request = head.decode("latin1")
                self.handshaking = False
            frames, self.buf = ws.parse_frames(self.buf)
            for fr in frames:
                if fr["opcode"] in (1, 2):
                    self.got(fr["payload"])
                elif fr["opcode"] == 8:
                    code = struct.unpack("!H", fr["payload"][:2])[0] if len(fr["payload"]) >= 2 else 0
                    self.close_code = code

    def got(self, payload):
        try:
            m = self.dec(payload)
            self.log("send:" + r_raw(m))
        except Exception as e:  # noqa: BLE001 - the peer could not decode what was written
            self.log("send:UNDECODABLE:" + type(e).__name__)

    # --- the peer writes
    def feed(self, data):
        if self.lost:
            return
        if self.fw == "twisted":
            self.proto.dataReceived(data)
        else:
            self.proto.data_received(data)

    def open(self):
        if self.fw == "twisted":
            self.proto.makeConnection(self.t)
        else:
            self.proto.connection_made(self.t)
        if self.kind == "ws" and self.fw == "asyncio":
            self.env.pump()
        if self.kind == "rs":
            assert not self.handshaking, "no RawSocket handshake request written"
            self.feed(bytes([0x7F, ((self.rs_peer_exp - 9) << 4) | SER_ID[self.ser], 0, 0]))
        else:
            assert not self.handshaking, "no WebSocket handshake request written"
            key = [l.split(":", 1)[1].strip() for l in self.request.split("\r\n") if l.lower().startswith("sec-websocket-key")][0]
            resp = ("HTTP/1.1 101 Switching Protocols\r\nUpgrade: websocket\r\nConnection: Upgrade\r\n"
                    "Sec-WebSocket-Accept: %s\r\nSec-WebSocket-Protocol: wamp.2.%s\r\n\r\n" % (ws.accept_for(key), self.ser))
            self.feed(resp.encode())
            if self.fw == "asyncio":
                self.env.pump()
        self.up = True

    def deliver(self, raw):
        data = self.enc(raw)
        if self.kind == "rs":
            self.feed(struct.pack("!I", len(data)) + data)
        else:
            self.feed(ws.build_frame(2 if self.binary else 1, data))

    def lose(self):
        if self.lost:
            return
        self.lost = True
        if self.fw == "twisted":
            from twisted.internet import error
            from twisted.python.failure import Failure
            self.proto.connectionLost(Failure(error.ConnectionDone()))
        else:
            self.proto.connection_lost(None)


class RealRunner(wamp.ScriptRunner):
    """ScriptRunner over a real transport. Faults are not injected: `fault` tokens are ignored (the real transport
    decides what send() does with the real payload)."""

    def __init__(self, env, kind, ser, **link_kw):
        super().__init__(env)
        self.kind, self.ser, self.link_kw = kind, ser, link_kw
        self.auto_pump = kind == "ws" and env.fw == "asyncio"

    def make(self):
        sess, _ = wamp.make_session(self.env, self.log, hook=self.hook, transport=False)
        runner = self
        base_on_message = sess.onMessage

        def on_message(msg):
            try:
                return base_on_message(msg)
            except Exception as e:  # noqa: BLE001 - observed, then left to the transport
                runner.log("raise:" + wamp.exc_name(e))
                runner.drop_refused()
                raise
        sess.onMessage = on_message
        return sess

    def run(self, script):
        self.futs, self.done, self.vals = [], [], []
        self.acts, self.cur = [], []
        self.hook_acts, self.now_acts, self.mapped, self.inv_futs, self.prog_fns = {}, {}, {}, {}, {}
        self.cur_req = -1
        self.put_now = []
        self.sess = self.make()
        import types as _types
        self.tr = _types.SimpleNamespace(fail_next=False, faults=[])     # the mock's knobs: unused here
        self.link = None
        out = []
        for ev in script:
            self.cur = []
            self.put_now = []
            head, _, acts = ev.partition(";")
            kind = head.split(",")[0]
            try:
                if kind == "open":
                    self.bind_hooks(kind, self.parse_acts(acts))
                    self.link = Link(self.env, self.kind, self.ser, self.log, self.sess, **self.link_kw)
                    self.link.open()
                    if self.auto_pump:
                        self.env.pump()
                elif kind == "closed":
                    self.bind_hooks(kind, self.parse_acts(acts))
                    self.link.lose()
                    if self.auto_pump:
                        self.env.pump()
                elif ev == "pump" or (ev == "tick" and self.auto_pump):
                    self.env.pump()
                elif ev == "tick":
                    self.env.tick()
                elif kind.startswith("m."):
                    pa = self.parse_acts(acts)
                    if kind in ("m.welcome", "m.abort", "m.goodbye", "m.challenge"):
                        self.bind_hooks(kind, pa)
                        self.acts = []
                    else:
                        self.acts = pa
                    m = head[:-2] if head.endswith(",-") else head
                    if kind == "m.invocation":
                        self.cur_req = int(head.split(",")[1])
                    raw = self.build_msg(m).marshal()
                    self.link.deliver(raw)
                    if self.auto_pump or (kind == "m.welcome" and not head.endswith(",-")):
                        self.env.pump()
                    self.acts = []
                elif kind == "fault":
                    pass
                elif kind in ("resolve", "fail", "lateprog"):
                    self.user_event(kind, head)
                    if self.auto_pump:
                        self.env.pump()
                else:
                    self.do_api(ev)
                    if self.auto_pump:
                        self.env.pump()
            except Exception as e:  # noqa: BLE001 - an exception the transport let through to the framework
                self.log("t:escape," + type(e).__name__)
            self.now_acts = {}
            self.cur = [x for x in self.cur if not x.startswith("done:")]
            self.poll_done()
            out.append(";".join(self.cur) if self.cur else "-")
        self.env.pump()
        return out

    def user_event(self, kind, head):
        if kind == "resolve":
            _, req, spec = head.split(",")
            f = self.inv_futs.get(int(req))
            if f is not None and not self.txaio.is_called(f):
                self.txaio.resolve(f, self.make_ret(spec))
        elif kind == "fail":
            _, req, spec = head.split(",", 2)
            f = self.inv_futs.get(int(req))
            if f is not None and not self.txaio.is_called(f):
                self.txaio.reject(f, self.make_exc(spec))
        else:
            _, req, v = head.split(",")
            fn = self.prog_fns.get(int(req))
            if fn is None:
                self.log("unmodelled")
            else:
                try:
                    fn(int(v))
                except Exception as e:  # noqa: BLE001
                    self.log("caught:" + wamp.exc_name(e))

    # results a real serializer / a real size limit have something to say about
    @staticmethod
    def make_ret(spec):
        if spec.startswith("U"):
            return {"o": object(), "s": {1, 2}, "u": "\ud800"}[spec[1:2]] if spec[1:2] != "u" else "\ud800"
        if spec.startswith("S"):
            return "x" * int(spec[1:])
        return wamp.ScriptRunner.make_ret(spec)


def classify_sends(env, kind, ser, link_kw, specs):
    """what the real transport's send() does with a YIELD carrying each value: "ok" or the class of the exception"""
    from autobahn.wamp import message as M
    out = []
    for spec in specs:
        log = []
        sess, _ = wamp.make_session(env, log.append, hook=None, transport=False)
        link = Link(env, kind, ser, log.append, sess, **link_kw)
        link.open()
        env.pump()
        try:
            link.proto.send(M.Yield(1, args=[RealRunner.make_ret(spec)]))
            out.append("ok")
        except Exception as e:  # noqa: BLE001 - the class is the observation
            out.append(type(e).__name__)
        link.lose()
        env.pump()
    return out


def worker_main():
    """argv: framework; stdin: JSON {"jobs": [{"kind","ser","link":{...},"scripts":[[...]]}]} -> {"obs": [[[lines]]]}"""
    import sys
    fw = sys.argv[1]
    env = ws.setup(fw)
    job = json.load(sys.stdin)
    res = []
    for j in job["jobs"]:
        if "classify" in j:
            res.append(classify_sends(env, j["kind"], j["ser"], j.get("link", {}), j["classify"]))
            continue
        r = RealRunner(env, j["kind"], j["ser"], **j.get("link", {}))
        obs = []
        for sc in j["scripts"]:
            try:
                obs.append(r.run(sc))
            except Exception as e:  # noqa: BLE001
                import traceback
                obs.append(["HARNESS-ERROR " + type(e).__name__ + ": " + str(e) + " " + traceback.format_exc()[-700:].replace("\n", " / ")])
        res.append(obs)
    json.dump({"obs": res}, sys.stdout)
