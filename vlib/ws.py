"""Helpers used inside harness worker processes (they import the real autobahn code from /repo/src).

  setup(fw)                      -> Env (virtual clock, pump/advance)
  RecTransport                   -> recording transport for both frameworks
  make_ws(env, role, opts, ...)  -> real WebSocket{Server,Client}Protocol of the chosen framework,
                                    taken through a real opening handshake into OPEN
  parse_frames(bytes, ...)       -> small independent RFC 6455 frame splitter (python side)
"""
import base64
import hashlib
import os
import struct
import sys


class Env:
    def __init__(self, fw):
        self.fw = fw


def setup(fw):
    """bind txaio to the framework and install a virtual clock. One framework per process."""
    import txaio
    env = Env(fw)
    if fw == "twisted":
        txaio.use_twisted()
        from twisted.internet import task
        clock = task.Clock()
        txaio.config.loop = clock
        env.clock = clock
        env.now = clock.seconds

        def pump():
            clock.advance(0)
        env.pump = pump
        env.tick = pump           # one loop iteration: callbacks run synchronously on Twisted

        def advance(dt):
            # step to every pending deadline so that callbacks see the time of their own deadline
            target = clock.seconds() + dt
            for _ in range(100000):
                calls = [c.getTime() for c in clock.getDelayedCalls()]
                nxt = min(calls) if calls else None
                if nxt is None or nxt > target:
                    break
                clock.advance(max(0.0, nxt - clock.seconds()))
            clock.advance(target - clock.seconds())
        env.advance = advance
        env.pending_timers = lambda: sorted(c.getTime() for c in clock.getDelayedCalls())
    else:
        txaio.use_asyncio()
        import asyncio

        class VLoop(asyncio.SelectorEventLoop):
            def __init__(self):
                super().__init__()
                self._vt = 0.0

            def time(self):
                return self._vt

            def pump(self):
                for _ in range(100000):
                    due = any((not h._cancelled) and h._when <= self._vt for h in self._scheduled)
                    if not self._ready and not due:
                        return
                    self.call_soon(lambda: None)
                    self._run_once()
                raise RuntimeError("loop does not quiesce")

            def tick(self):
                """exactly one loop iteration: the callbacks that are ready now; what they schedule waits"""
                self.call_soon(lambda: None)
                self._run_once()

            def advance(self, dt):
                target = self._vt + dt
                for _ in range(100000):
                    self.pump()
                    ws = [h._when for h in self._scheduled if not h._cancelled]
                    nxt = min(ws) if ws else None
                    if nxt is None or nxt > target:
                        break
                    self._vt = max(self._vt, nxt)
                self._vt = target
                self.pump()
        loop = VLoop()
        asyncio.set_event_loop(loop)
        txaio.config.loop = loop
        env.loop = loop
        env.now = loop.time
        env.pump = loop.pump
        env.tick = loop.tick
        env.advance = loop.advance
        env.pending_timers = lambda: sorted(h._when for h in loop._scheduled if not h._cancelled)
    import txaio as _t
    env.txaio = _t
    return env


class RecTransport:
    """records everything the protocol does to its transport; both Twisted and asyncio method names"""

    def __init__(self, env, peer=("127.0.0.1", 12345), trace=None):
        self.env = env
        self.trace = trace     # optional list shared with the application-event recorder (one total order)
        self.log = []          # ("write", bytes) | ("lose",) | ("abort",)
        self.closed = False
        self.proto = None
        self._peer = peer
        self.producer = None

    # --- twisted
    def write(self, data):
        self.log.append(("write", bytes(data), self.env.now()))
        if self.trace is not None:
            self.trace.append(("write", bytes(data)))

    def writeSequence(self, seq):
        for d in seq:
            self.write(d)

    def loseConnection(self):
        self.log.append(("lose", self.env.now()))
        if self.trace is not None:
            self.trace.append(("lose",))
        self.closed = True

    def abortConnection(self):
        self.log.append(("abort", self.env.now()))
        if self.trace is not None:
            self.trace.append(("abort",))
        self.closed = True

    def registerProducer(self, producer, streaming):
        self.producer = producer

    def unregisterProducer(self):
        self.producer = None

    def setTcpNoDelay(self, enabled):
        pass

    def getPeer(self):
        from twisted.internet.address import IPv4Address
        return IPv4Address("TCP", *self._peer)

    def getHost(self):
        from twisted.internet.address import IPv4Address
        return IPv4Address("TCP", "127.0.0.1", 9000)

    # --- asyncio
    def close(self):
        self.loseConnection()

    def abort(self):
        self.abortConnection()

    def is_closing(self):
        return self.closed

    def get_extra_info(self, name, default=None):
        if name == "peername":
            return self._peer
        if name == "sockname":
            return ("127.0.0.1", 9000)
        return default

    # --- helpers
    def written(self):
        return b"".join(e[1] for e in self.log if e[0] == "write")

    def take(self):
        """bytes written since the last take()"""
        n = getattr(self, "_taken", 0)
        w = [e[1] for e in self.log[n:] if e[0] == "write"]
        self._taken = len(self.log)
        return b"".join(w)


def _classes(fw):
    if fw == "twisted":
        from autobahn.twisted import websocket as m
    else:
        from autobahn.asyncio import websocket as m
    return m


def recording_subclass(base, events):
    """subclass of a protocol class that records application-level callbacks into `events`"""

    class Rec(base):
        def onConnect(self, r):
            events.append(("onConnect",))
            h = getattr(self, "_v_onConnect", None)
            return h(r) if h else None

        def onOpen(self):
            events.append(("onOpen",))

        def onMessage(self, payload, isBinary):
            events.append(("onMessage", bytes(payload), bool(isBinary), bool(getattr(self, "_isMessageCompressed", False))))

        def onPing(self, payload):
            events.append(("onPing", bytes(payload)))
            base.onPing(self, payload)

        def onPong(self, payload):
            events.append(("onPong", bytes(payload)))

        def onClose(self, wasClean, code, reason):
            events.append(("onClose", wasClean, code, reason))
    Rec.__name__ = "Rec" + base.__name__
    return Rec


KEY = "dGhlIHNhbXBsZSBub25jZQ=="
MAGIC = "258EAFA5-E914-47DA-95CA-C5AB0DC85B11"


def accept_for(key):
    return base64.b64encode(hashlib.sha1((key + MAGIC).encode()).digest()).decode()


class Endpoint:
    pass


def deliver(env, ep, data):
    """hand bytes to the protocol the way the framework does"""
    if env.fw == "twisted":
        ep.proto.dataReceived(data)
    else:
        ep.proto.data_received(data)
    env.pump()


def lose(env, ep, clean=True):
    """framework reports the transport gone"""
    if getattr(ep, "lost", False):
        return
    ep.lost = True
    if env.fw == "twisted":
        from twisted.internet import error
        from twisted.python.failure import Failure
        ep.proto.connectionLost(Failure(error.ConnectionDone() if clean else error.ConnectionLost()))
    else:
        ep.proto.connection_lost(None if clean else ConnectionResetError("reset"))
    env.pump()


def make_ws(env, role, opts=None, handshake=True, ext_request=None, ext_response=None, proto_attrs=None,
            url="ws://localhost:9000", factory_kwargs=None, on_connect=None):
    """real protocol object + recording transport; with handshake=True it is driven to OPEN through
    the real opening handshake (server: canned client request; client: canned 101 response)."""
    m = _classes(env.fw)
    ep = Endpoint()
    ep.events = []
    ep.role = role
    fk = dict(factory_kwargs or {})
    if env.fw == "twisted":
        fk["reactor"] = env.clock
    else:
        fk["loop"] = env.loop
    if role == "server":
        f = m.WebSocketServerFactory(url, **fk)
        base = m.WebSocketServerProtocol
    else:
        f = m.WebSocketClientFactory(url, **fk)
        base = m.WebSocketClientProtocol
    if opts:
        f.setProtocolOptions(**opts)
    f.protocol = recording_subclass(base, ep.events)
    ep.factory = f
    if env.fw == "twisted":
        p = f.buildProtocol(None)
    else:
        p = f()
    for k, v in (proto_attrs or {}).items():
        setattr(p, k, v)
    if on_connect:
        p._v_onConnect = on_connect
    ep.proto = p
    t = RecTransport(env, trace=ep.events)
    t.proto = p
    ep.transport = t
    if env.fw == "twisted":
        p.makeConnection(t)
    else:
        p.connection_made(t)
    env.pump()
    if handshake:
        if role == "server":
            req = ("GET / HTTP/1.1\r\nHost: localhost:9000\r\nUpgrade: websocket\r\nConnection: Upgrade\r\n"
                   "Sec-WebSocket-Key: %s\r\nSec-WebSocket-Version: 13\r\n" % KEY)
            if ext_request:
                req += "Sec-WebSocket-Extensions: %s\r\n" % ext_request
            req += "\r\n"
            deliver(env, ep, req.encode())
        else:
            sent = t.written().decode("latin-1")
            key = None
            for line in sent.split("\r\n"):
                if line.lower().startswith("sec-websocket-key:"):
                    key = line.split(":", 1)[1].strip()
            assert key, "client did not send a handshake: %r" % sent
            resp = ("HTTP/1.1 101 Switching Protocols\r\nUpgrade: websocket\r\nConnection: Upgrade\r\n"
                    "Sec-WebSocket-Accept: %s\r\n" % accept_for(key))
            if ext_response:
                resp += "Sec-WebSocket-Extensions: %s\r\n" % ext_response
            resp += "\r\n"
            deliver(env, ep, resp.encode())
        assert p.state == p.STATE_OPEN, "handshake did not reach OPEN: state=%s written=%r" % (p.state, t.written()[:300])
        ep.handshake_bytes = t.take()
        ep.events_after_open = len(ep.events)
    return ep


def parse_frames(data, strict=False):
    """independent splitter of a byte string into RFC 6455 frames.
    -> (frames, rest) with frame = dict(fin, rsv, opcode, masked, mask, length, payload(unmasked), raw_len_form)"""
    frames = []
    i = 0
    n = len(data)
    while True:
        if n - i < 2:
            break
        b0, b1 = data[i], data[i + 1]
        fin, rsv, opcode = b0 >> 7, (b0 >> 4) & 7, b0 & 15
        masked, l7 = b1 >> 7, b1 & 127
        j = i + 2
        if l7 == 126:
            if n - j < 2:
                break
            ln = struct.unpack("!H", data[j:j + 2])[0]
            j += 2
        elif l7 == 127:
            if n - j < 8:
                break
            ln = struct.unpack("!Q", data[j:j + 8])[0]
            j += 8
        else:
            ln = l7
        mask = b""
        if masked:
            if n - j < 4:
                break
            mask = data[j:j + 4]
            j += 4
        if n - j < ln:
            break
        pl = data[j:j + ln]
        if masked:
            pl = bytes(c ^ mask[k & 3] for k, c in enumerate(pl))
        frames.append({"fin": fin, "rsv": rsv, "opcode": opcode, "masked": masked, "mask": mask.hex(),
                       "length": ln, "len7": l7, "payload": pl})
        i = j + ln
    return frames, data[i:]


def build_frame(opcode, payload=b"", fin=1, rsv=0, mask=None, len_form=None, declared_len=None):
    """frame encoder for the *peer* side of harnesses (can produce ill-formed frames on purpose)"""
    ln = len(payload) if declared_len is None else declared_len
    b0 = (fin << 7) | (rsv << 4) | opcode
    if len_form is None:
        len_form = 7 if ln <= 125 else (16 if ln <= 0xFFFF else 64)
    if len_form == 7:
        hdr = bytes([b0, (0x80 if mask is not None else 0) | ln])
    elif len_form == 16:
        hdr = bytes([b0, (0x80 if mask is not None else 0) | 126]) + struct.pack("!H", ln)
    else:
        hdr = bytes([b0, (0x80 if mask is not None else 0) | 127]) + struct.pack("!Q", ln)
    if mask is not None:
        pl = bytes(c ^ mask[k & 3] for k, c in enumerate(payload))
        return hdr + mask + pl
    return hdr + payload
