"""Two-session WAMP harness helpers (used inside worker processes; imports the real autobahn code).

  make_serializer(name)              real autobahn.wamp.serializer.{Json,MsgPack,CBOR,UBJSON}Serializer
  Router(env, serializer_name)       in-memory router stub. It answers HELLO with WELCOME and routes
                                     REGISTER/REGISTERED, SUBSCRIBE/SUBSCRIBED, PUBLISH->EVENT (+PUBLISHED when
                                     acknowledged), CALL->INVOCATION, YIELD->RESULT, ERROR(INVOCATION)->ERROR(CALL),
                                     GOODBYE. args/kwargs/payload/enc_* travel through untouched. EVERY message is
                                     serialised by the sender's real serializer, parsed by the router's real serializer,
                                     re-built as a real message object, serialised again and parsed by the receiver's
                                     serializer, so the wire form (and message.parse validation) is exercised both ways.
  router.attach(name, session)       gives the session a StubTransport (an ITransport) and opens it; the real
                                     ApplicationSession then joins by itself (HELLO/WELCOME)
  router.run()                       delivers queued messages until quiescence (pumping the framework loop)
  router.wire                        every serialized message seen: dict(frm, to, kind, bytes, obj)
  router.hooks[kind] = fn(msg)->msg|None|list   alter / drop / multiply a message the router is about to send
                                     (kind = class name: "Event", "Invocation", "Result", "Error", ...)

One framework per process: call vlib.ws.setup(fw) first and pass the Env.
"""
import traceback


def make_serializer(name):
    from autobahn.wamp import serializer as s
    return {"json": s.JsonSerializer, "msgpack": s.MsgPackSerializer, "cbor": s.CBORSerializer,
            "ubjson": s.UBJSONSerializer}[name]()


def session_class(fw):
    if fw == "twisted":
        from autobahn.twisted.wamp import ApplicationSession
    else:
        from autobahn.asyncio.wamp import ApplicationSession
    return ApplicationSession


class StubTransport:
    """ITransport for one session; behaves like WampWebSocketProtocol.send (serialization failures are raised as
    SerializationError to the session, nothing is sent)."""

    def __init__(self, router, name):
        from autobahn.wamp.types import TransportDetails
        self.router = router
        self.name = name
        self._serializer = make_serializer(router.serializer_name)
        self._open = True
        self.is_closed = False
        self.transport_details = TransportDetails()
        self.closed_how = None

    def send(self, msg):
        from autobahn.wamp.exception import SerializationError, TransportLost
        if not self._open:
            raise TransportLost()
        try:
            data, is_binary = self._serializer.serialize(msg)
        except Exception as e:
            raise SerializationError("WAMP message serialization error: {}".format(e))
        self.router._from_session(self.name, type(msg).__name__, bytes(data))

    def isOpen(self):
        return self._open

    def close(self):
        self._open = False
        self.closed_how = "close"
        self.router._closed(self.name)

    def abort(self):
        self._open = False
        self.closed_how = "abort"
        self.router._closed(self.name)


class Peer:
    def __init__(self, name, session, transport):
        self.name, self.session, self.transport = name, session, transport
        self.session_id = None
        self.raised = []     # exceptions leaving session.onMessage (class names)


class Router:
    def __init__(self, env, serializer_name):
        self.env = env
        self.serializer_name = serializer_name
        self.ser = make_serializer(serializer_name)   # the router's own serializer instance
        self.peers = {}
        self.queue = []       # (from, bytes)
        self.wire = []
        self.hooks = {}
        self.errors = []      # infrastructure-visible problems (parse failures on the router, ...)
        self._ids = 1000
        self._session_ids = 7000
        self.registrations = {}   # procedure -> (peer name, registration id)
        self.reg_by_id = {}
        self.subscriptions = {}   # topic -> (subscription id, [peer names])
        self.invocations = {}     # invocation request id -> (caller name, call request id)
        self.on_unrouted = None

    def next_id(self):
        self._ids += 1
        return self._ids

    # ------------------------------------------------------------------ plumbing
    def attach(self, name, session):
        t = StubTransport(self, name)
        p = Peer(name, session, t)
        self.peers[name] = p
        session.onOpen(t)
        self.env.pump()
        self.run()
        return p

    def _closed(self, name):
        pass

    def _from_session(self, name, kind, data):
        self.wire.append({"frm": name, "to": "router", "kind": kind, "bytes": data})
        self.queue.append((name, data))

    def run(self, limit=10000):
        n = 0
        while True:
            self.env.pump()
            if not self.queue:
                break
            name, data = self.queue.pop(0)
            n += 1
            if n > limit:
                raise RuntimeError("router does not quiesce")
            try:
                msgs = self.ser.unserialize(data)
            except Exception as e:
                self.errors.append({"where": "router-parse", "frm": name, "err": type(e).__name__, "text": str(e)[:200]})
                continue
            for m in msgs:
                self._route(name, m)

    def send_to(self, name, msg):
        """router -> session: hooks, serialise, record, parse with the session's serializer, deliver"""
        kind = type(msg).__name__
        out = [msg]
        h = self.hooks.get(kind)
        if h:
            r = h(msg)
            out = [] if r is None else (r if isinstance(r, list) else [r])
        for m in out:
            data, _ = self.ser.serialize(m)
            data = bytes(data)
            hb = self.hooks.get("bytes:" + kind)
            if hb:
                data = hb(data)
            self.wire.append({"frm": "router", "to": name, "kind": kind, "bytes": data})
            p = self.peers[name]
            try:
                ms = p.transport._serializer.unserialize(data)
            except Exception as e:
                self.errors.append({"where": "session-parse", "to": name, "err": type(e).__name__, "text": str(e)[:200]})
                continue
            for mm in ms:
                try:
                    p.session.onMessage(mm)
                except Exception as e:
                    p.raised.append(type(e).__name__)
                    self.errors.append({"where": "onMessage", "to": name, "err": type(e).__name__,
                                        "text": str(e)[:200], "tb": traceback.format_exc()[-600:]})
                self.env.pump()

    # ------------------------------------------------------------------ routing
    @staticmethod
    def _payload_kw(m):
        """the 6-set, passed through untouched"""
        if m.payload is not None:
            return dict(payload=m.payload, enc_algo=m.enc_algo, enc_key=m.enc_key, enc_serializer=m.enc_serializer)
        return dict(args=m.args, kwargs=m.kwargs)

    def _route(self, name, m):
        from autobahn.wamp import message, role
        p = self.peers[name]
        if isinstance(m, message.Hello):
            self._session_ids += 1
            p.session_id = self._session_ids
            roles = {"broker": role.RoleBrokerFeatures(), "dealer": role.RoleDealerFeatures(progressive_call_results=True)}
            self.send_to(name, message.Welcome(p.session_id, roles, realm=m.realm, authid="u-" + name, authrole="user",
                                               authmethod="anonymous", authprovider="static"))
        elif isinstance(m, message.Register):
            if m.procedure in self.registrations:
                self.send_to(name, message.Error(message.Register.MESSAGE_TYPE, m.request,
                                                 "wamp.error.procedure_already_exists"))
                return
            rid = self.next_id()
            self.registrations[m.procedure] = (name, rid)
            self.reg_by_id[rid] = m.procedure
            self.send_to(name, message.Registered(m.request, rid))
        elif isinstance(m, message.Subscribe):
            if m.topic not in self.subscriptions:
                self.subscriptions[m.topic] = (self.next_id(), [])
            sid, names = self.subscriptions[m.topic]
            if name not in names:
                names.append(name)
            self.send_to(name, message.Subscribed(m.request, sid))
        elif isinstance(m, message.Publish):
            pubid = self.next_id()
            if m.acknowledge:
                self.send_to(name, message.Published(m.request, pubid))
            sid, names = self.subscriptions.get(m.topic, (None, []))
            for n in list(names):
                if n == name and (m.exclude_me is None or m.exclude_me):
                    continue
                self.send_to(n, message.Event(sid, pubid, **self._payload_kw(m)))
        elif isinstance(m, message.Call):
            if m.procedure not in self.registrations:
                self.send_to(name, message.Error(message.Call.MESSAGE_TYPE, m.request, "wamp.error.no_such_procedure"))
                return
            callee, rid = self.registrations[m.procedure]
            inv = self.next_id()
            self.invocations[inv] = (name, m.request)
            self.send_to(callee, message.Invocation(inv, rid, receive_progress=m.receive_progress, **self._payload_kw(m)))
        elif isinstance(m, message.Yield):
            if m.request not in self.invocations:
                self.errors.append({"where": "router", "err": "yield-for-unknown-invocation", "frm": name})
                return
            caller, req = self.invocations[m.request] if m.progress else self.invocations.pop(m.request)
            self.send_to(caller, message.Result(req, progress=m.progress, **self._payload_kw(m)))
        elif isinstance(m, message.Error):
            if m.request_type == message.Invocation.MESSAGE_TYPE and m.request in self.invocations:
                caller, req = self.invocations.pop(m.request)
                self.send_to(caller, message.Error(message.Call.MESSAGE_TYPE, req, m.error, **self._payload_kw(m)))
            else:
                self.errors.append({"where": "router", "err": "error-for-unknown-request", "frm": name})
        elif isinstance(m, message.Goodbye):
            self.send_to(name, message.Goodbye("wamp.close.goodbye_and_out"))
        else:
            if self.on_unrouted:
                self.on_unrouted(name, m)
            else:
                self.errors.append({"where": "router", "err": "unrouted:" + type(m).__name__, "frm": name})


# --------------------------------------------------------------------------- outcomes of futures

def outcome_cell(env, fut):
    """attach callbacks to a txaio future; returns a dict filled with ('ok', value) / ('err', exception)"""
    cell = {}

    def ok(v):
        cell["ok"] = v
        return None

    def err(f):
        cell["err"] = f.value
        return None
    env.txaio.add_callbacks(fut, ok, err)
    return cell


def canon(v):
    """canonical JSON-able rendering of a WAMP value (bytes as {"$b": hex}; dicts sorted by json.dumps later)"""
    if isinstance(v, (bytes, bytearray, memoryview)):
        return {"$b": bytes(v).hex()}
    if isinstance(v, (list, tuple)):
        return [canon(x) for x in v]
    if isinstance(v, dict):
        return {str(k): canon(x) for k, x in v.items()}
    if isinstance(v, float) and v == int(v):
        return int(v)
    if v is None or isinstance(v, (bool, int, float, str)):
        return v
    return {"$obj": type(v).__name__}
