"""Runs `ws.run` scripts (same op tokens as the Lean driver) against REAL protocol objects.
Worker-side (imports autobahn). Time unit = 2^-20 s."""
import struct
import types

from vlib import ws

SEC = 1048576
DEFAULT_CFG = dict(srv=1, rm=1, am=0, mc=1, ms=0, ap=1, fbd=1, u8=1, echo=0, mf=0, mm=0, af=0, pmce=0,
                   cht=SEC, sdt=SEC, oht=5 * SEC, pi=0, pt=0, ps=12, pr=1, aio=0)


def cfg_token(cfg):
    c = dict(DEFAULT_CFG)
    c.update(cfg)
    return ",".join(f"{k}={int(v)}" for k, v in c.items())


def key_of(i):
    return ((i + 1) * 0x01020305) % 4294967296


_patched = {}


def patch_environment():
    """deterministic key stream, ping payloads and an exact tick delay"""
    if _patched:
        return _patched
    import autobahn.websocket.protocol as P
    import os as _os
    import time as _time
    st = {"ctr": 0}

    class R:
        @staticmethod
        def getrandbits(k):
            v = key_of(st["ctr"])
            st["ctr"] += 1
            return v

        @staticmethod
        def seed(*a):
            pass
    P.random = R
    P.os = types.SimpleNamespace(urandom=lambda n: bytes(n), **{k: getattr(_os, k) for k in ("path", "environ")})
    P.time = types.SimpleNamespace(time_ns=lambda: 0, time=_time.time, perf_counter=_time.perf_counter)
    assert P.WebSocketProtocol._QUEUED_WRITE_DELAY == 0.00001, "source constant changed"
    P.WebSocketProtocol._QUEUED_WRITE_DELAY = 2.0 ** -17
    _patched["st"] = st
    _patched["P"] = P
    return _patched


def options_for(cfg, role):
    c = dict(DEFAULT_CFG)
    c.update(cfg)
    o = dict(applyMask=bool(c["ap"]), failByDrop=bool(c["fbd"]), utf8validateIncoming=bool(c["u8"]),
             echoCloseCodeReason=bool(c["echo"]), maxFramePayloadSize=c["mf"], maxMessagePayloadSize=c["mm"],
             autoFragmentSize=c["af"], closeHandshakeTimeout=c["cht"] / SEC, openHandshakeTimeout=c["oht"] / SEC,
             autoPingInterval=c["pi"] / SEC, autoPingTimeout=c["pt"] / SEC, autoPingSize=c["ps"],
             autoPingRestartOnAnyTraffic=bool(c["pr"]))
    if role == "server":
        o.update(requireMaskedClientFrames=bool(c["rm"]), maskServerFrames=bool(c["ms"]))
    else:
        o.update(acceptMaskedServerFrames=bool(c["am"]), maskClientFrames=bool(c["mc"]),
                 serverConnectionDropTimeout=c["sdt"] / SEC)
    return o, c


def set_time(env, target):
    """move the virtual clock to exactly `target` seconds, firing timers at their own deadlines"""
    if env.fw == "twisted":
        clock = env.clock
        for _ in range(1000000):
            calls = [c.getTime() for c in clock.getDelayedCalls()]
            nxt = min(calls) if calls else None
            if nxt is None or nxt > target:
                break
            if nxt > clock.rightNow:
                clock.rightNow = nxt
            clock.advance(0)
        clock.rightNow = max(clock.rightNow, target)
        clock.advance(0)
    else:
        loop = env.loop
        for _ in range(1000000):
            loop.pump()
            w = [h._when for h in loop._scheduled if not h._cancelled]
            nxt = min(w) if w else None
            if nxt is None or nxt > target:
                break
            loop._vt = max(loop._vt, nxt)
        loop._vt = max(loop._vt, target)
        loop.pump()


NCR = [("peer dropped the TCP connection without previous WebSocket closing handshake", "peer"),
       ("WebSocket opening handshake timeout", "open"),
       ("WebSocket closing handshake timeout (peer did not finish", "close"),
       ("WebSocket closing handshake timeout (server did not drop", "srvdrop"),
       ("WebSocket ping timeout", "ping"),
       ("I dropped the WebSocket TCP connection", "idrop")]


def hexs(b):
    return b.hex() if b else "-"


class Runner:
    def __init__(self, env):
        self.env = env
        self.pe = patch_environment()

    def make(self, cfg, start):
        env = self.env
        import math
        set_time(env, float(math.floor(env.now()) + 1))   # every script starts on a whole second
        role = "server" if dict(DEFAULT_CFG, **cfg)["srv"] else "client"
        opts, c = options_for(cfg, role)
        kw = {}
        if c["pmce"]:
            from autobahn.websocket.compress import (PerMessageDeflateOffer, PerMessageDeflateOfferAccept,
                                                     PerMessageDeflateResponseAccept)
            # pmce = 1: defaults; 2: client_no_context_takeover requested by the server (asymmetric takeover);
            #        3: client_max_window_bits=9 requested by the server (asymmetric windows)
            v = c["pmce"]
            if role == "server":
                opts["perMessageCompressionAccept"] = lambda offers: next(
                    (PerMessageDeflateOfferAccept(o, request_no_context_takeover=(v == 2),
                                                  request_max_window_bits=(9 if v == 3 else 0))
                     for o in offers if isinstance(o, PerMessageDeflateOffer)), None)
                kw["ext_request"] = "permessage-deflate; client_max_window_bits"
            else:
                opts["perMessageCompressionOffers"] = [PerMessageDeflateOffer(accept_no_context_takeover=True,
                                                                              accept_max_window_bits=True)]
                opts["perMessageCompressionAccept"] = lambda r: PerMessageDeflateResponseAccept(r)
                kw["ext_response"] = {1: "permessage-deflate", 2: "permessage-deflate; client_no_context_takeover",
                                      3: "permessage-deflate; client_max_window_bits=9"}[v]
        ep = ws.make_ws(env, role, opts, handshake=(start == "open"), **kw)
        p = ep.proto
        ep.failtexts = set()
        orig_fail = p._fail_connection
        from autobahn.util import encode_truncate

        def _fail(code=1001, reason="going away"):
            ep.failtexts.add(encode_truncate(reason, 123))
            return orig_fail(code, reason)
        p._fail_connection = _fail
        self.env.txaio.add_callbacks(p.is_closed, lambda _: ep.events.append(("cr",)), None)
        if start == "open":
            assert bool(c["pmce"]) == (p._perMessageCompress is not None), "pmce negotiation mismatch"
        self.pe["st"]["ctr"] = 0
        ep.mark = len(ep.events)
        ep.t0 = env.now()
        ep.tnow = 0
        return ep

    def canon_write(self, ep, data):
        # strip the human-readable reason of a close frame written by _fail_connection
        fr, rest = ws.parse_frames(data)
        if len(fr) == 1 and not rest and fr[0]["opcode"] == 8 and len(fr[0]["payload"]) > 2:
            f = fr[0]
            mask = bytes.fromhex(f["mask"]) if f["masked"] else None
            pl = f["payload"]
            if pl[2:] in ep.failtexts:
                data = ws.build_frame(8, pl[:2], mask=mask)
            elif mask is not None:
                raw = bytes(c ^ mask[k & 3] for k, c in enumerate(pl))  # applyMask=False: payload sent unmasked
                if raw[2:] in ep.failtexts:
                    hdr = ws.build_frame(8, b"\0\0", mask=mask)[:-2]
                    data = hdr + raw[:2]
        return "w:" + hexs(data)

    def canon(self, ep, e):
        k = e[0]
        if k == "write":
            return self.canon_write(ep, e[1])
        if k == "lose":
            return "cc:0"
        if k == "abort":
            return "cc:1"
        if k == "onMessage":
            return "m:%s:%d:%d" % (hexs(e[1]), int(e[2]), int(e[3]))
        if k == "onPing":
            return "pi:" + hexs(e[1])
        if k == "onPong":
            return "po:" + hexs(e[1])
        if k == "cr":
            return "cr"
        if k == "onClose":
            clean, code, reason = e[1], e[2], e[3]
            if clean:
                return "oc:1:%s:%s:n" % ("n" if code is None else code, "n" if reason is None else hexs(reason.encode("utf8")))
            why = "n"
            for txt, tag in NCR:
                if reason and txt in reason:
                    why = tag
            if reason and '("None")' in reason:
                why = "n"
            return "oc:0:%s:n:%s" % ("n" if code is None else code, why)
        if k == "x":
            return "x:" + e[1]
        return "?" + k

    def do(self, ep, tok):
        env = self.env
        p = ep.proto
        a = tok.split(",")
        op = a[0]
        hx = lambda s: b"" if s == "-" else bytes.fromhex(s)
        from autobahn.exception import Disconnected, PayloadExceededError
        try:
            if op == "feed":
                if not getattr(ep, "lost", False):
                    ws.deliver(env, ep, hx(a[1]))
            elif op == "lost":
                ws.lose(env, ep)
            elif op == "adv":
                ep.tnow += int(a[1])
                set_time(env, ep.t0 + ep.tnow / SEC)
            elif op == "msg":
                frag = None if a[3] == "n" else int(a[3])
                p.sendMessage(hx(a[1]), a[2] == "1", fragmentSize=frag, sync=(a[4] == "1"))
            elif op == "prep":
                p.sendPreparedMessage(ep.factory.prepareMessage(hx(a[1]), a[2] == "1"))
            elif op == "bm":
                p.beginMessage(a[1] == "1")
            elif op == "bf":
                p.beginMessageFrame(int(a[1]))
            elif op == "fd":
                p.sendMessageFrameData(hx(a[1]), sync=(a[2] == "1"))
            elif op == "em":
                p.endMessage()
            elif op == "mf":
                p.sendMessageFrame(hx(a[1]), sync=(a[2] == "1"))
            elif op == "ping":
                p.sendPing(hx(a[1]) or None)
            elif op == "pong":
                p.sendPong(hx(a[1]) or None)
            elif op == "close":
                code = None if a[1] == "n" else int(a[1])
                reason = None if a[2] == "n" else hx(a[2]).decode("utf8")
                p.sendClose(code, reason)
            elif op == "hs":
                self.handshake(ep)
            elif op == "hsx":
                self.handshake(ep, extra=hx(a[1]), cut=int(a[2]))
            elif op in ("hsd", "hsdc"):
                # the peer's handshake arrives, the application's onConnect returns a pending Deferred/Future
                # (`hsd` server: stays CONNECTING until `res`; `hsdc` client: already OPEN, onOpen waits for `res`)
                if (op == "hsd") == (ep.role == "server"):
                    self.handshake(ep, deferred=True)
            elif op == "res":
                self.resolve_connect(ep)
            else:
                raise ValueError("unknown op " + tok)
        except Disconnected:
            ep.events.append(("x", "disconnected"))
        except PayloadExceededError:
            ep.events.append(("x", "payloadexceeded"))
        except (ValueError, KeyError, IndexError):
            raise
        except Exception as ex:  # the API raised a plain Exception
            ep.events.append(("x", "exception"))
            ep.last_exc = repr(ex)
        env.pump()

    def resolve_connect(self, ep):
        """the pending onConnect() result arrives (op `res`). If the connection is still CONNECTING this completes the
        handshake (its own writes / onOpen are filtered as in `handshake`); if the connection is gone meanwhile, EVERYTHING
        the endpoint does now stays visible: the model says it does nothing."""
        import txaio
        p = ep.proto
        fut = getattr(ep, "pending_connect", None)
        if fut is None:
            return
        ep.pending_connect = None
        if ep.role == "server":
            live = p.state == p.STATE_CONNECTING and not getattr(ep, "lost", False)
        else:
            live = p.state != p.STATE_CLOSED and not getattr(ep, "lost", False)
        n0 = len(ep.events)
        txaio.resolve(fut, None)
        self.env.pump()
        new = ep.events[n0:]
        if live:
            io = next((i for i, e in enumerate(new) if e[0] == "onOpen"), len(new))
            ep.events[n0:] = [e for e in new[:io] if e[0] not in ("write", "onConnect")] + \
                             [e for e in new[io:] if e[0] not in ("onOpen", "onConnect")]
        elif any(e[0] == "onOpen" for e in new):
            ep.events.append(("x", "exception"))      # onOpen after the connection was closed: shown as a raised item
            ep.last_exc = "onOpen fired after the connection was closed"

    def handshake(self, ep, extra=b"", cut=None, deferred=False):
        """complete the opening handshake of an endpoint created with start == connecting"""
        env = self.env
        p = ep.proto
        if p.state != p.STATE_CONNECTING or getattr(ep, "lost", False):
            return
        if deferred:
            import txaio
            if getattr(ep, "pending_connect", None) is not None:
                return
            fut = txaio.create_future()
            ep.pending_connect = fut
            p._v_onConnect = lambda r: fut
        n0 = len(ep.events)
        if ep.role == "server":
            req = ("GET / HTTP/1.1\r\nHost: localhost:9000\r\nUpgrade: websocket\r\nConnection: Upgrade\r\n"
                   "Sec-WebSocket-Key: %s\r\nSec-WebSocket-Version: 13\r\n\r\n" % ws.KEY)
            hs = req.encode()
        else:
            sent = ep.transport.written().decode("latin-1")
            key = [l.split(":", 1)[1].strip() for l in sent.split("\r\n") if l.lower().startswith("sec-websocket-key:")][0]
            resp = ("HTTP/1.1 101 Switching Protocols\r\nUpgrade: websocket\r\nConnection: Upgrade\r\n"
                    "Sec-WebSocket-Accept: %s\r\n\r\n" % ws.accept_for(key))
            hs = resp.encode()
        data = hs + extra
        self.pe["st"]["ctr"] = 0
        if cut is None:
            ws.deliver(env, ep, data)
        else:
            # cut is relative to the END of the handshake: negative = inside the handshake, positive = inside extra
            c = max(0, min(len(data), len(hs) + cut))
            ws.deliver(env, ep, data[:c])
            ws.deliver(env, ep, data[c:])
        # the handshake's own writes / onConnect / onOpen are not observables of the post-handshake model
        new = ep.events[n0:]
        io = next((i for i, e in enumerate(new) if e[0] == "onOpen"), len(new))
        ep.events[n0:] = [e for e in new[:io] if e[0] not in ("write", "onConnect")] + \
                         [e for e in new[io:] if e[0] not in ("onOpen", "onConnect")]

    def state_letter(self, p):
        return {p.STATE_CONNECTING: "C", p.STATE_OPEN: "O", p.STATE_CLOSING: "G", p.STATE_CLOSED: "X"}.get(p.state, "?")

    def run(self, cfg, start, ops):
        ep = self.make(cfg, start)
        if start != "open":
            ep.mark = len(ep.events)
            # drop the client's own handshake request from the trace
            ep.events[:] = [e for e in ep.events if e[0] not in ("write",)]
            ep.mark = len(ep.events)
        outs = []
        for tok in ops:
            self.do(ep, tok)
            new = ep.events[ep.mark:]
            ep.mark = len(ep.events)
            items = [self.canon(ep, e) for e in new if e[0] not in ("onOpen", "onConnect")]
            if self.env.fw == "asyncio":
                # future callbacks run on a later loop iteration: `cr` is unordered within an op
                items = [i for i in items if i != "cr"] + [i for i in items if i == "cr"]
            outs.append(",".join(items) + "@" + self.state_letter(ep.proto))
        self.cleanup(ep)
        return "|".join(outs)

    def cleanup(self, ep):
        p = ep.proto
        for n in ("autoPingPendingCall", "autoPingTimeoutCall", "openHandshakeTimeoutCall", "closeHandshakeTimeoutCall",
                  "serverConnectionDropTimeoutCall"):
            c = getattr(p, n, None)
            if c is not None:
                try:
                    c.cancel()
                except Exception:
                    pass
        # drain remaining timers of this endpoint so they do not fire into the next script
        env = self.env
        if env.fw == "twisted":
            for c in list(env.clock.getDelayedCalls()):
                c.cancel()
        else:
            for h in list(env.loop._scheduled):
                h.cancel()
            env.loop._ready.clear()


def model_items_reorder_cr(line):
    """the same `cr`-last canonicalisation for the model's answer (asyncio comparison)"""
    out = []
    for seg in line.split("|"):
        body, _, st = seg.rpartition("@")
        items = [i for i in body.split(",") if i] if body else []
        items = [i for i in items if i != "cr"] + [i for i in items if i == "cr"]
        out.append(",".join(items) + "@" + st)
    return "|".join(out)
