"""Harness-side machinery shared by the WAMP session checks (C04, C11; reusable for C06, C10).

A *script* is a list of event tokens (grammar: lean/Abverif/Drv/Session.lean). For every script and framework:

  impl  = observation lines of the real ApplicationSession      (harness/workers/sess_worker.py, vlib/wamp.py)
  model = `sess <s|d> …`      through the Lean driver            (Model/Session.lean, mirrors the code)
  spec  = `sessspec <s|d> …`  through the Lean driver            (Model/SessSpec.lean, what the property says)

  model != impl (full line)                      -> correspondence break (repair the model) unless …
  spec  != projection of impl on the observables the property owns
                                                 -> property violation: classified (key), shrunk (ddmin), replayed
"""
import json
import os
import subprocess
import tempfile
from concurrent.futures import ThreadPoolExecutor
from pathlib import Path

from vlib import core

WORKER = core.VERIF / "harness" / "workers" / "sess_worker.py"
MODE = {"twisted": "s", "asyncio": "d"}
REQ_SENDS = ("send:CALL", "send:PUBLISH", "send:SUBSCRIBE", "send:UNSUBSCRIBE", "send:REGISTER", "send:UNREGISTER")


# ----------------------------------------------------------------------------- running

def _env():
    e = dict(os.environ)
    e["PYTHONPATH"] = os.pathsep.join([str(core.REPO / "src"), str(core.VERIF)])
    e.setdefault("PYTHONHASHSEED", "0")
    e["AUTOBAHN_VERIF"] = "1"
    return e


class ImplServer:
    """a persistent worker process of one framework (cheap repeated runs while shrinking)"""

    def __init__(self, fw):
        self.fw = fw
        self.p = subprocess.Popen([core.PY, str(WORKER), fw, "--serve"], stdin=subprocess.PIPE, stdout=subprocess.PIPE,
                                  stderr=subprocess.DEVNULL, text=True, cwd="/", env=_env())

    def run(self, scripts):
        self.p.stdin.write(json.dumps({"scripts": scripts}) + "\n")
        self.p.stdin.flush()
        line = self.p.stdout.readline()
        if not line:
            raise RuntimeError(f"sess_worker({self.fw}) server died")
        return json.loads(line)["obs"]

    def close(self):
        try:
            self.p.stdin.close()
            self.p.wait(timeout=10)
        except Exception:  # noqa: BLE001
            self.p.kill()


def _run_worker(fw, scripts, timeout=3000):
    e = _env()
    p = subprocess.run([core.PY, str(WORKER), fw], input=json.dumps({"scripts": scripts}), env=e,
                       capture_output=True, text=True, cwd="/", timeout=timeout)
    if p.returncode != 0:
        raise RuntimeError(f"sess_worker({fw}) failed: " + p.stderr[-2000:])
    obs = json.loads(p.stdout)["obs"]
    for sc, o in zip(scripts, obs):
        if len(o) != len(sc):
            raise RuntimeError(f"sess_worker({fw}): harness error on script {sc}: {o[:1]}")
    return obs


def run_impl(fw, scripts, nproc=8):
    """-> list (per script) of observation lines (per event)"""
    if not scripts:
        return []
    n = max(1, min(nproc, len(scripts) // 50 + 1))
    chunks = [scripts[i::n] for i in range(n)]
    with ThreadPoolExecutor(n) as ex:
        outs = list(ex.map(lambda c: _run_worker(fw, c), chunks))
    res = [None] * len(scripts)
    for i, o in enumerate(outs):
        for j, lines in enumerate(o):
            res[i + j * n] = lines
    return res


def _drv(ctx, cmd, mode, scripts):
    lines = [f"{cmd} {mode} " + " ".join(sc) for sc in scripts]
    out = ctx.driver.run(lines)
    res = []
    for sc, o in zip(scripts, out):
        if o == "bad-op":
            raise RuntimeError("driver rejected script: " + " ".join(sc))
        r = [] if not sc else [x.strip() for x in o.split(" | ")]
        if len(r) != len(sc):
            raise RuntimeError(f"driver answered {len(r)} observations for {len(sc)} events: {sc}")
        res.append(r)
    return res


def run_model(ctx, fw, scripts):
    return _drv(ctx, "sess", MODE[fw], scripts)


def run_spec(ctx, fw, scripts):
    return _drv(ctx, "sessspec", MODE[fw], scripts)


# ----------------------------------------------------------------------------- projection / comparison

def tokens(line):
    return [] if line == "-" else line.split(";")


def spec_observable(tok):
    return tok.startswith(REQ_SENDS) or tok.startswith(("ret:", "done:", "inv:", "prog:", "raise:"))


def project(line, owns):
    """the part of an implementation observation line the Spec (and this property) speaks about"""
    return [t for t in tokens(line) if spec_observable(t) and owns(t)]


class Divergence:
    def __init__(self, fw, script, index, expected, actual, what):
        self.fw, self.script, self.index, self.expected, self.actual, self.what = fw, script, index, expected, actual, what


def first_spec_divergence(script, impl, spec, owns):
    for i, (a, e) in enumerate(zip(impl, spec)):
        pa, pe = project(a, owns), [t for t in tokens(e) if owns(t)]
        if pa != pe:
            return i, pe, pa
    return None


def first_model_divergence(impl, model):
    for i, (a, m) in enumerate(zip(impl, model)):
        if a != m:
            return i, m, a
    return None


# ----------------------------------------------------------------------------- classification

def _objs(toks):
    return [t[4:].split(",")[0] for t in toks if t.startswith("inv:")]


def classify(script, i, exp, act):
    """canonical key of a Spec-vs-implementation divergence at event i (specific: one key per defect)"""
    ev = script[i]
    head, _, acts = ev.partition(";")
    kind = head.split(",")[0]
    if kind == "m.event":
        eo, ao = _objs(exp), _objs(act)
        if eo != ao:
            # first position where the sequences of invoked handlers part
            i0 = next((j for j, (x, y) in enumerate(zip(eo, ao)) if x != y), min(len(eo), len(ao)))
            done_acts = acts.split("!")[:i0] if acts else []
            if i0 < len(eo) and any("self" in a or "unsub," in a for a in done_acts):
                # a handler that was attached at arrival and is still attached is passed over once an earlier
                # handler of the same dispatch has unsubscribed (itself or a predecessor) synchronously
                return "event:handler-skipped-after-synchronous-unsubscribe"
            if sorted(eo) == sorted(ao):
                return "event:handler-order"
            if i0 >= len(ao):
                return "event:handler-not-called"
            return "event:handler-called-unexpectedly"
        einv = [t for t in exp if t.startswith("inv:")]
        ainv = [t for t in act if t.startswith("inv:")]
        for e, a in zip(einv, ainv):
            if e != a:
                ef, af = e.split(","), a.split(",")
                if ef[2] != af[2]:
                    return "event:handler-args-differ"
                own = ef[0][4:]
                ekw = dict(x.split("=") for x in ef[3][1:].split(".") if x)
                akw = dict(x.split("=") for x in af[3][1:].split(".") if x)
                foreign = [k for k, v in akw.items() if v.startswith("d") and ekw.get(k) != v]
                rest_a = {k: v for k, v in akw.items() if k not in foreign}
                rest_e = {k: v for k, v in ekw.items() if k not in foreign}
                if foreign and rest_a == rest_e and own not in [akw[k][1:] for k in foreign]:
                    return "event:details-of-another-handler-in-kwargs"
                return "event:handler-kwargs-differ"
        e_r = [t for t in exp if t.startswith("raise:")]
        a_r = [t for t in act if t.startswith("raise:")]
        if e_r != a_r:
            return f"event:{(e_r or ['no-raise'])[0]}-expected-got-{(a_r or ['no-raise'])[0]}"
        return "event:other"
    if kind == "m.result" and head.split(",")[4] == "1":
        e_p = [t for t in exp if t.startswith("prog:")]
        a_r = [t for t in act if t.startswith("raise:")]
        p = head.split(",")
        if e_p and a_r == ["raise:TypeError"] and e_p[0].split(",")[1].startswith("CR(") and "n" in (p[2], p[3]):
            return "result:progressive-details-without-args-or-kwargs-raises-TypeError"
        if not e_p and a_r == ["raise:AttributeError"] and "prog:" not in ";".join(act):
            return "result:progressive-for-call-without-options-raises-AttributeError"
        if e_p and not [t for t in act if t.startswith("prog:")]:
            return "result:progress-not-delivered"
        return "result:progress-differs"
    es = [t for t in exp if t.startswith(REQ_SENDS)]
    as_ = [t for t in act if t.startswith(REQ_SENDS)]
    if es and as_ and es != as_:
        e0, a0 = es[0].split(","), as_[0].split(",")
        if e0[0] == a0[0] and e0[2:] == a0[2:] and e0[1] != a0[1]:
            welcomes = [j for j, t in enumerate(script[:i]) if t.startswith("m.welcome")]
            if len(welcomes) >= 2:
                before = sum(1 for t in script[:welcomes[-1]] if t.split(",")[0] in ("call", "pub", "sub", "reg", "unsub", "unreg"))
                if before and int(a0[1]) > int(e0[1]):
                    return "request:id-continues-across-rejoin"
            return "request:id-not-sequential"
        if e0[0] != a0[0]:
            return "request:message-type-differs"
        return "request:message-content-differs"
    if bool(es) != bool(as_):
        return f"{kind}:request-message-{'missing' if es else 'unexpected'}"
    ed = [t for t in exp if t.startswith("done:")]
    ad = [t for t in act if t.startswith("done:")]
    if ed != ad:
        ef = sorted(t.split("=")[0] for t in ed)
        af = sorted(t.split("=")[0] for t in ad)
        if ef == af:
            return f"{kind}:completion-value-differs"
        if not ad:
            return f"{kind}:future-not-completed"
        if not ed:
            return f"{kind}:unexpected-completion"
        return f"{kind}:wrong-future-completed"
    e_r = [t for t in exp if t.startswith("raise:")]
    a_r = [t for t in act if t.startswith("raise:")]
    if e_r != a_r:
        return f"{kind}:{(e_r or ['no-raise'])[0]}-expected-got-{(a_r or ['no-raise'])[0]}"
    return f"{kind}:other"


# ----------------------------------------------------------------------------- shrinking

def ddmin(script, still_fails_batch, keep_prefix=0, max_rounds=60):
    """delta debugging over the op list. `still_fails_batch(list_of_scripts) -> list of bool`.
    The first keep_prefix events are never removed."""
    head, body = script[:keep_prefix], script[keep_prefix:]
    n = 2
    rounds = 0
    while len(body) >= 2 and rounds < max_rounds:
        rounds += 1
        size = max(1, len(body) // n)
        chunks = [body[i:i + size] for i in range(0, len(body), size)]
        cands = [c for c in chunks] + [sum(chunks[:k] + chunks[k + 1:], []) for k in range(len(chunks))]
        cands = [c for c in cands if 0 < len(c) < len(body)]
        if not cands:
            break
        verdicts = still_fails_batch([head + c for c in cands])
        hit = next((c for c, v in zip(cands, verdicts) if v), None)
        if hit is not None:
            body = hit
            n = max(2, min(n - 1, len(body)))
        elif n >= len(body):
            break
        else:
            n = min(len(body), n * 2)
    # final pass: single removals
    changed = True
    while changed and len(body) > 1 and rounds < max_rounds * 2:
        rounds += 1
        cands = [body[:k] + body[k + 1:] for k in range(len(body))]
        verdicts = still_fails_batch([head + c for c in cands])
        hit = next((c for c, v in zip(cands, verdicts) if v), None)
        changed = hit is not None
        if changed:
            body = hit
    return head + body


# ----------------------------------------------------------------------------- the check

def check_scripts(ctx, res, scripts, owns, frameworks=("twisted", "asyncio"), shrink=True, prefix=0, label=""):
    """run all scripts on both frameworks; fill `res` (evaluations, breaks, violations). -> dict of stats"""
    by_key = {}
    breaks = []
    for fw in frameworks:
        impl = run_impl(fw, scripts)
        ctx.log(f"{label}{fw}: implementation ran {len(scripts)} scripts")
        model = run_model(ctx, fw, scripts)
        spec = run_spec(ctx, fw, scripts)
        ctx.log(f"{label}{fw}: model and spec ran")
        for sc, a, m, e in zip(scripts, impl, model, spec):
            res.evaluations += len(sc)
            res.traces_validated += 1
            sd = first_spec_divergence(sc, a, e, owns)
            md = first_model_divergence(a, m)
            if sd is not None:
                i, pe, pa = sd
                key = classify(sc, i, pe, pa)
                cur = by_key.get(key)
                if cur is None or len(sc) < len(cur.script):
                    by_key[key] = Divergence(fw, sc, i, pe, pa, key)
                res.count("spec-divergence:" + key)
                # the model mirrors the code: it must show the same defect, i.e. agree with the implementation
                if md is not None and md[0] <= i:
                    breaks.append({"stream": f"model vs {fw} implementation", "script": sc, "event": md[0],
                                   "model": md[1], "implementation": md[2]})
            elif md is not None:
                breaks.append({"stream": f"model vs {fw} implementation", "script": sc, "event": md[0],
                               "model": md[1], "implementation": md[2]})
    res.correspondence_breaks += breaks[:20]
    res.count(label + "correspondence-breaks", len(breaks))
    known = {k["key"] for k in core.load_known() if k.get("property") == ctx.prop and k.get("status", "open") == "open"}
    servers = {}
    for key, d in sorted(by_key.items()):
        sc = d.script
        # listed findings are reported by key only: keep the shortest script seen, do not spend time minimising
        if shrink and key not in known and len(sc) > prefix + 1:
            ctx.log(f"{label}shrinking {key} ({len(d.script)} events)")
            if d.fw not in servers:
                servers[d.fw] = ImplServer(d.fw)

            def fails(cands, d=d, key=key):
                a = servers[d.fw].run(cands)
                e = run_spec(ctx, d.fw, cands)
                out = []
                for c, ai, ei in zip(cands, a, e):
                    x = first_spec_divergence(c, ai, ei, owns)
                    out.append(x is not None and classify(c, x[0], x[1], x[2]) == key)
                return out
            sc = ddmin(sc, fails, keep_prefix=prefix)
            a = servers[d.fw].run([sc])[0]
            e = run_spec(ctx, d.fw, [sc])[0]
            x = first_spec_divergence(sc, a, e, owns)
            if x is not None:
                d = Divergence(d.fw, sc, x[0], x[1], x[2], key)
        res.violations.append(core.Violation(
            key,
            f"{d.fw}: event #{d.index} `{d.script[d.index]}`: the property (Spec) expects [{';'.join(d.expected) or '-'}], "
            f"the implementation did [{';'.join(d.actual) or '-'}]",
            {"framework": d.fw, "script": d.script, "event_index": d.index, "expected": d.expected, "actual": d.actual}))
    for sv in servers.values():
        sv.close()
    return {"keys": sorted(by_key)}


def replay_scripts(ctx):
    """scripts named by --replay (a replay file written by ./check, or a corpus file)"""
    rp = json.loads(Path(ctx.replay_path).read_text())
    r = rp.get("replay", rp)
    if "script" in r:
        return [r["script"]], ([r["framework"]] if r.get("framework") else ("twisted", "asyncio"))
    if "no_longer_checks" in rp:
        out = [c["detail"]["script"] for c in rp["no_longer_checks"] if isinstance(c.get("detail"), dict) and "script" in c["detail"]]
        return out, ("twisted", "asyncio")
    raise RuntimeError("replay file has no script")


def corpus_scripts(prop):
    out = []
    d = core.VERIF / "corpus" / prop
    if d.is_dir():
        for f in sorted(d.glob("*.json")):
            j = json.loads(f.read_text())
            out.append((f.name, j["script"]))
    return out


# ----------------------------------------------------------------------------- script planning

ARGS_OUT = ["a", "a1", "a1.2", "a3.4.5"]                 # what an API call passes
KWARGS_OUT = ["k", "k1=2", "k1=2.3=4"]
ARGS_IN = ["n", "a", "a5", "a5.6"]                       # what an incoming message carries (n = absent)
KWARGS_IN = ["n", "k", "k1=7", "k1=7.2=8"]
CALL_OPTS = ["n", "o", "op=1", "op=2/d=t", "od=t", "ot=5/x=3", "oc=4/ci=5/cr=6", "of=9", "op=3/t=7/x=1/c=2/ci=3/cr=4/f=5/d=f"]
PUB_ACK_OPTS = ["oack=t", "oack=t/xme=f", "oack=t/ex=5", "oack=t/ex=l5.6", "oack=t/exi=3/exr=l4",
                "oack=t/el=l/eli=l1.2/elr=7", "oack=t/ret=t/x=4/f=2"]
PUB_NOACK_OPTS = ["n", "o", "oack=f", "oxme=t/ex=l1"]
SUB_OPTS = ["n", "o", "om=0", "om=1", "om=2/gr=t", "oda=0", "oda=3", "of=4/gr=f"]
REG_OPTS = ["n", "o", "om=1", "oinv=0", "oinv=3/con=2", "ofr=t/f=3", "oda=0", "om=2/inv=1"]
CODE = {"call": 48, "pub": 16, "sub": 32, "unsub": 34, "reg": 64, "unreg": 66}
KINDS = ["call", "pub", "sub", "unsub", "reg", "unreg"]


class Planner:
    """builds a script while tracking the ids the session will use (the router's view)"""

    def __init__(self, rng, pump="always"):
        self.rng = rng
        self.pump = pump
        self.ev = []
        self.req = 0          # last request id drawn
        self.fut = 0          # next FutId
        self.pending = {}     # request id -> dict(kind, fut, ...)
        self.subs = {}        # subscription id -> list of attached objs (FutIds)
        self.regs = {}        # registration id -> obj
        self.h = 0            # handler tokens
        self.pubid = 100

    def add(self, tok, pump=None):
        self.ev.append(tok)
        p = self.pump if pump is None else pump
        if p == "always" or (p == "random" and self.rng.random() < 0.5):
            self.ev.append("pump")

    def start(self, sid=7):
        self.ev += ["open", "pump", f"m.welcome,{sid}"]
        return self

    def _req(self, kind, **info):
        self.req += 1
        f = self.fut
        self.fut += 1
        self.pending[self.req] = dict(kind=kind, fut=f, **info)
        return self.req

    def call(self, uri=None, args=None, kwargs=None, opts=None, snd="ok"):
        r = self.rng
        opts = r.choice(CALL_OPTS) if opts is None else opts
        self.add(f"call,{uri or r.randint(1, 9)},{args or r.choice(ARGS_OUT)},{kwargs or r.choice(KWARGS_OUT)},{opts},{snd}")
        rid = self._req("call", progress="p=" in opts, details="d=t" in opts)
        if snd != "ok":
            del self.pending[rid]
        return rid

    def publish(self, ack=True, uri=None, opts=None, snd="ok"):
        r = self.rng
        opts = opts or r.choice(PUB_ACK_OPTS if ack else PUB_NOACK_OPTS)
        self.add(f"pub,{uri or r.randint(1, 9)},{r.choice(ARGS_OUT)},{r.choice(KWARGS_OUT)},{opts},{snd}")
        if "ack=t" in opts:
            rid = self._req("pub")
            if snd != "ok":
                del self.pending[rid]
            return rid
        self.req += 1
        return None

    def subscribe(self, topic=None, opts=None, snd="ok"):
        r = self.rng
        self.h += 1
        opts = r.choice(SUB_OPTS) if opts is None else opts
        topic = topic or r.randint(1, 9)
        self.add(f"sub,{self.h},{topic},{opts},{snd}")
        return self._req("sub", topic=topic)

    def register(self, proc=None, opts=None, snd="ok"):
        r = self.rng
        self.h += 1
        self.add(f"reg,{self.h},{proc or r.randint(1, 9)},{r.choice(REG_OPTS) if opts is None else opts},{snd}")
        return self._req("reg")

    def unsubscribe(self, obj, snd="ok"):
        """-> request id if an UNSUBSCRIBE goes out, else None"""
        self.add(f"unsub,{obj},{snd}")
        for sid, l in self.subs.items():
            if obj in l:
                l.remove(obj)
                if not l:
                    return self._req("unsub", sub=sid)
                self.fut += 1
                return None
        return None

    def unregister(self, obj, snd="ok"):
        self.add(f"unreg,{obj},{snd}")
        for rid, o in self.regs.items():
            if o == obj:
                return self._req("unreg", reg=rid)
        return None

    # --- replies
    def success(self, rid, sub=None, reg=None, args=None, kwargs=None):
        r = self.rng
        q = self.pending.pop(rid, None)
        kind = q["kind"] if q else r.choice(KINDS)
        if kind == "call":
            self.add(f"m.result,{rid},{args or r.choice(ARGS_IN)},{kwargs or r.choice(KWARGS_IN)},0")
        elif kind == "pub":
            self.pubid += 1
            self.add(f"m.published,{rid},{self.pubid}")
        elif kind == "sub":
            sid = sub if sub is not None else r.choice(list(self.subs) + [r.randint(50, 59)])
            self.add(f"m.subscribed,{rid},{sid}")
            if q:
                self.subs.setdefault(sid, []).append(q["fut"])
        elif kind == "unsub":
            self.add(f"m.unsubscribed,{rid}")
            if q:
                self.subs.pop(q["sub"], None)
        elif kind == "reg":
            gid = reg if reg is not None else r.randint(70, 79)
            self.add(f"m.registered,{rid},{gid}")
            if q and gid not in self.regs:
                self.regs[gid] = q["fut"]
        else:
            self.add(f"m.unregistered,{rid},n")
            if q:
                self.regs.pop(q["reg"], None)

    def error(self, rid, code=None):
        r = self.rng
        q = self.pending.get(rid)
        c = code if code is not None else (CODE[q["kind"]] if q else 48)
        if q and c == CODE[q["kind"]]:
            self.pending.pop(rid)
        self.add(f"m.error,{c},{rid},{r.randint(1, 9)},{r.choice(ARGS_IN)},{r.choice(KWARGS_IN)}")

    def progress(self, rid, args=None, kwargs=None, act=""):
        r = self.rng
        self.add(f"m.result,{rid},{args or r.choice(ARGS_IN)},{kwargs or r.choice(KWARGS_IN)},1" + (";" + act if act else ""))

    def wrong_type(self, rid):
        """a reply of another type carrying this id"""
        q = self.pending.get(rid)
        kinds = [k for k in KINDS if not q or k != q["kind"]]
        k = self.rng.choice(kinds)
        tok = {"call": f"m.result,{rid},a1,n,0", "pub": f"m.published,{rid},5", "sub": f"m.subscribed,{rid},55",
               "unsub": f"m.unsubscribed,{rid}", "reg": f"m.registered,{rid},75", "unreg": f"m.unregistered,{rid},n"}[k]
        # only use it when no *other* pending request of that kind has this id (ids are unique, so never)
        self.add(tok)

    def event(self, sid, args=None, kwargs=None, acts=""):
        r = self.rng
        self.pubid += 1
        self.add(f"m.event,{sid},{self.pubid},{args or r.choice(ARGS_IN)},{kwargs or r.choice(KWARGS_IN)}" + (";" + acts if acts else ""))

    def script(self):
        return list(self.ev)


# ----------------------------------------------------------------------------- trace Spec (C06, C10)

def run_trace(ctx, fw, scripts, obs):
    """`Abverif.SessTrace.check` (through the driver) on traces observed elsewhere.
    -> per script: list of (token index, violation string)"""
    lines = [f"sesstrace {MODE[fw]} {len(sc)} " + " ".join(sc) + " " + " ".join(o) for sc, o in zip(scripts, obs)]
    out = ctx.driver.run(lines)
    res = []
    for sc, o in zip(scripts, out):
        if o == "bad-op":
            raise RuntimeError("driver rejected trace of script: " + " ".join(sc))
        if o.strip() == "ok":
            res.append([])
        else:
            res.append([(int(x.split(":")[0]), x.split(":", 1)[1]) for x in o.split()])
    return res


def check_traces(ctx, res, items, owns, classify, frameworks=("twisted", "asyncio"), shrink=True, label="", prefix=1):
    """items: list of (class label, script, spec_checked). Every script runs on every framework; each observation line
    is compared with the Lean model (correspondence); for spec-checked scripts the implementation's trace is judged by
    the Lean trace Spec; violations `owns` accepts are classified (`classify(script, index, violation, fw) -> key`),
    shrunk (ddmin, same key) and reported."""
    scripts = [it[1] for it in items]
    by_key = {}
    breaks = []
    for fw in frameworks:
        impl = run_impl(fw, scripts)
        ctx.log(f"{label}{fw}: implementation ran {len(scripts)} scripts")
        model = run_model(ctx, fw, scripts)
        sidx = [i for i, it in enumerate(items) if it[2]]
        verdicts = dict(zip(sidx, run_trace(ctx, fw, [scripts[i] for i in sidx], [impl[i] for i in sidx])))
        ctx.log(f"{label}{fw}: model and trace spec ran")
        for i, (sc_, a, m) in enumerate(zip(scripts, impl, model)):
            res.evaluations += len(sc_)
            res.traces_validated += 1
            md = first_model_divergence(a, m)
            if md is not None:
                breaks.append({"stream": f"model vs {fw} implementation", "script": sc_, "event": md[0],
                               "model": md[1], "implementation": md[2]})
            for (j, v) in verdicts.get(i, []):
                if not owns(v):
                    continue
                key = classify(sc_, j, v, fw)
                cur = by_key.get(key)
                if cur is None or len(sc_) < len(cur.script):
                    by_key[key] = Divergence(fw, sc_, j, [v], a[j] if j < len(a) else "", key)
                res.count("violation:" + key)
    res.correspondence_breaks += breaks[:20]
    res.count(label + "correspondence-breaks", len(breaks))
    known = {k["key"] for k in core.load_known() if k.get("property") == ctx.prop and k.get("status", "open") == "open"}
    servers = {}
    for key, d in sorted(by_key.items()):
        sc_ = d.script
        if shrink and key not in known and len(sc_) > prefix + 1:
            ctx.log(f"{label}shrinking {key} ({len(sc_)} events)")
            if d.fw not in servers:
                servers[d.fw] = ImplServer(d.fw)

            def fails(cands, d=d, key=key):
                a = servers[d.fw].run(cands)
                good = [(c, o) for c, o in zip(cands, a) if len(o) == len(c)]
                vs = run_trace(ctx, d.fw, [c for c, _ in good], [o for _, o in good]) if good else []
                ok = {id(c): any(owns(v) and classify(c, j, v, d.fw) == key for j, v in vv) for (c, _), vv in zip(good, vs)}
                return [ok.get(id(c), False) for c in cands]
            sc_ = ddmin(sc_, fails, keep_prefix=prefix)
            a = servers[d.fw].run([sc_])[0]
            vv = run_trace(ctx, d.fw, [sc_], [a])[0]
            hit = next(((j, v) for j, v in vv if owns(v) and classify(sc_, j, v, d.fw) == key), None)
            if hit is not None:
                d = Divergence(d.fw, sc_, hit[0], [hit[1]], a[hit[0]], key)
        res.violations.append(core.Violation(
            key,
            f"{d.fw}: event #{d.index} `{d.script[d.index]}`: trace Spec verdict [{';'.join(d.expected)}]; "
            f"the implementation did [{d.actual}]; script: {' '.join(d.script)}",
            {"framework": d.fw, "script": d.script, "event_index": d.index, "verdict": d.expected, "actual": d.actual}))
    for sv in servers.values():
        sv.close()
    return {"keys": sorted(by_key), "breaks": len(breaks)}


# ----------------------------------------------------------------------------- part B: the real transports

REAL_WORKER = core.VERIF / "harness" / "workers" / "sess_real.py"
COMBOS = [(k, s) for k in ("rs", "ws") for s in ("json", "msgpack", "cbor")]


def run_real(fw, jobs, timeout=3000):
    """jobs: [{"kind","ser","link":{..},"scripts":[..]}] -> per job, per script, the observation lines"""
    p = subprocess.run([core.PY, str(REAL_WORKER), fw], input=json.dumps({"jobs": jobs}), env=_env(),
                       capture_output=True, text=True, cwd="/", timeout=timeout)
    if p.returncode != 0:
        raise RuntimeError(f"sess_real({fw}) failed: " + p.stderr[-2000:])
    obs = json.loads(p.stdout)["obs"]
    for j, o in zip(jobs, obs):
        for sc_, lines in zip(j.get("scripts", []), o):
            if len(lines) != len(sc_):
                raise RuntimeError(f"sess_real({fw}): harness error on script {sc_}: {lines[:1]}")
    return obs


def run_real_parallel(fw, jobs, nproc=6):
    if not jobs:
        return []
    n = max(1, min(nproc, len(jobs)))
    chunks = [jobs[i::n] for i in range(n)]
    with ThreadPoolExecutor(n) as ex:
        outs = list(ex.map(lambda c: run_real(fw, c), chunks))
    res = [None] * len(jobs)
    for i, o in enumerate(outs):
        for j, x in enumerate(o):
            res[i + j * n] = x
    return res


def merge_pairs(script, lines, drop=("t:",)):
    """real transports run the loop inside every transport event: compare (event, pump) pairs as one observation.
    -> list of (token, [observation tokens])"""
    out = []
    i = 0
    while i < len(script):
        toks = tokens(lines[i])
        step = 1
        if i + 1 < len(script) and script[i + 1] == "pump":
            toks = toks + tokens(lines[i + 1])
            step = 2
        toks = [t for t in toks if not t.startswith(drop)]
        out.append((script[i], [t for t in toks if not t.startswith("done:")] + sorted(t for t in toks if t.startswith("done:"))))
        i += step
    return out


def cut_after_close(script, model_lines, tail=("closed", "pump", "call,1,a,k,n,ok", "pump")):
    """the model's transport accepts messages after close() and goes on delivering after a protocol violation; a real
    one does neither (it is closing / it fails the connection): end the conversation there"""
    for i, l in enumerate(model_lines):
        if "close" in tokens(l) or (script[i].startswith("m.") and any(t.startswith("raise:") for t in tokens(l))):
            j = i + 1
            if j < len(script) and script[j] == "pump":
                j += 1
            rest = [t for t in script[j:] if t.partition(";")[0].split(",")[0] == "closed"]
            if j >= len(script):
                return script
            return script[:j] + (rest[:1] if rest else ["closed"]) + list(tail[1:])
    return script


def always_pumped(script):
    return all(script[i] == "pump" or (i + 1 < len(script) and script[i + 1] == "pump") for i in range(len(script)))


def auto_pump(fw, kind):
    """the asyncio WebSocket transport processes received bytes through the loop"""
    return fw == "asyncio" and kind == "ws"


def check_real(ctx, res, items, owns, classify, combos=COMBOS, frameworks=("twisted", "asyncio"), label="real: ", link=None,
               compare=None):
    """items: (label, script, spec_checked). Each script runs over every real transport x serializer of every framework
    (scripts that do not pump after every event are skipped for the asyncio WebSocket transport, whose tokens include a
    run of the loop); observations are compared with the model's — token by token, or (event, pump) pair by pair for
    asyncio WebSocket — and the trace is judged by the Lean trace Spec."""
    by_key = {}
    breaks = []
    for fw in frameworks:
        scripts0 = [it[1] for it in items]
        model0 = run_model(ctx, fw, scripts0)
        # a 4th item field False: messages that arrive in the same read as the one that made this side close
        scripts = [cut_after_close(s, m) if (len(it) < 4 or it[3]) else s for it, s, m in zip(items, scripts0, model0)]
        model = run_model(ctx, fw, scripts)
        sel = {(k, s): [i for i, sc_ in enumerate(scripts) if not auto_pump(fw, k) or always_pumped(sc_)] for k, s in combos}
        jobs = [{"kind": k, "ser": s, "link": (link or {}), "scripts": [scripts[i] for i in sel[(k, s)]]} for k, s in combos]
        obs = run_real_parallel(fw, jobs)
        ctx.log(f"{label}{fw}: {len(scripts)} scripts over {len(combos)} transport x serializer combinations")
        for (k, sname), o in zip(combos, obs):
            idx = sel[(k, sname)]
            o = dict(zip(idx, o))
            sidx = [i for i in idx if items[i][2]]
            clean = [[";".join(t for t in tokens(l) if not t.startswith("t:")) or "-" for l in o[i]] for i in sidx]
            verdicts = dict(zip(sidx, run_trace(ctx, fw, [scripts[i] for i in sidx], clean)))
            for i in idx:
                sc_, a, m = scripts[i], o[i], model[i]
                res.evaluations += len(sc_)
                res.traces_validated += 1
                if auto_pump(fw, k):
                    A, M = merge_pairs(sc_, a), merge_pairs(sc_, m, drop=("t:", "sendfail:"))
                else:
                    A = [(t, [x for x in tokens(l) if not x.startswith("t:")]) for t, l in zip(sc_, a)]
                    M = [(t, [x for x in tokens(l) if not x.startswith("sendfail:")]) for t, l in zip(sc_, m)]
                if compare is not None:
                    A, M = compare(A), compare(M)
                bad = next(((t, x, y) for (t, x), (_, y) in zip(A, M) if x != y), None)
                if bad is not None:
                    breaks.append({"stream": f"model vs {fw} {k}/{sname} implementation", "script": sc_, "event": bad[0],
                                   "model": ";".join(bad[2]), "implementation": ";".join(bad[1])})
                # a protocol violation must make the transport fail the connection
                for l in a:
                    tk = tokens(l)
                    if "raise:ProtocolError" in tk and not any(t.startswith("t:fail") for t in tk):
                        res.count(label + "protocol-error-without-transport-failure")
                for (j, v) in verdicts.get(i, []):
                    if not owns(v):
                        continue
                    key = classify(sc_, j, v, fw)
                    cur = by_key.get(key)
                    if cur is None or len(sc_) < len(cur.script):
                        by_key[key] = Divergence(f"{fw} {k}/{sname}", sc_, j, [v], a[j] if j < len(a) else "", key)
                    res.count(label + "violation:" + key)
    res.correspondence_breaks += breaks[:20]
    res.count(label + "correspondence-breaks", len(breaks))
    for key, d in sorted(by_key.items()):
        res.violations.append(core.Violation(
            key,
            f"{d.fw} (real transport): event #{d.index} `{d.script[d.index]}`: trace Spec verdict [{';'.join(d.expected)}]; "
            f"the implementation did [{d.actual}]; script: {' '.join(d.script)}",
            {"framework": d.fw.split()[0], "transport": d.fw, "script": d.script, "event_index": d.index,
             "verdict": d.expected, "actual": d.actual}))
    return {"keys": sorted(by_key), "breaks": len(breaks)}


# ----------------------------------------------------------------------------- direct expectations (property text, no Spec)

def check_direct(ctx, res, cases, frameworks=("twisted", "asyncio")):
    """cases: dicts {key, script, what, event (index or None), expect: [token prefixes that must be observed at that
    event], forbid: [token prefixes that must not], all_done: bool (every future handed out must be completed by the end
    of the script)}. Judges the implementation's observations against what the property text says for behaviours the
    Lean Spec mirrors from the code (so that Spec-vs-implementation cannot see them). -> keys violated"""
    hit = []
    for fw in frameworks:
        obs = run_impl(fw, [c["script"] for c in cases])
        for c, o in zip(cases, obs):
            res.evaluations += len(c["script"])
            bad = []
            if c.get("event") is not None:
                toks = tokens(o[c["event"]])
                bad += ["missing " + e for e in c.get("expect", []) if not any(t.startswith(e) for t in toks)]
                bad += ["unexpected " + t for t in toks for f in c.get("forbid", []) if t.startswith(f)]
            if c.get("all_done"):
                rets = [t[4:] for l in o for t in tokens(l) if t.startswith("ret:") and t != "ret:none"]
                done = [t[5:].split("=")[0] for l in o for t in tokens(l) if t.startswith("done:")]
                bad += ["future %s never completed" % f for f in rets if f not in done]
            if bad and c["key"] not in hit:
                hit.append(c["key"])
                res.violations.append(core.Violation(
                    c["key"], f"{fw}: {c['what']}: {'; '.join(bad)}; script: {' '.join(c['script'])}; observed: {' | '.join(o)}",
                    {"framework": fw, "script": c["script"], "direct": {k: c[k] for k in c if k not in ("script",)}}))
            res.count("direct:" + c["key"] + (":violated" if bad else ":holds"))
    return hit


def replay_direct(ctx):
    """the direct expectation stored in a replay file (if any) -> list of cases"""
    rp = json.loads(Path(ctx.replay_path).read_text())
    r = rp.get("replay", rp)
    if isinstance(r.get("direct"), dict) and "script" in r:
        return [dict(r["direct"], script=r["script"])]
    return []
