"""Shared machinery: paths, Lean build / audit, driver, evidence, known findings, NVX rebuild."""
import fcntl
import hashlib
import json
import os
import random
import re
import shutil
import subprocess
import sys
import tempfile
import time
from pathlib import Path

VERIF = Path(__file__).resolve().parent.parent
REPO = Path(os.environ.get("VERIF_REPO", "/repo"))
SRC = REPO / "src" / "autobahn"
LEAN = VERIF / "lean"
PY = os.environ.get("VERIF_PY", "/venv/bin/python")
DRIVER_BIN = LEAN / ".lake" / "build" / "bin" / "driver"
ALLOWED_AXIOMS = {"propext", "Classical.choice", "Quot.sound"}
FORBIDDEN = re.compile(
    r"\b(sorry|admit|native_decide|bv_decide|implemented_by)\b|^\s*axiom\s|\bunsafe\s|maxHeartbeats\s+0\b"
)


class Timeout(Exception):
    pass


# ----------------------------------------------------------------------------- Lean

class _NoLock:
    def close(self):
        pass


_HELD = None


def _lock():
    if _HELD is not None:          # this process already holds the build lock (see hold_build_lock)
        return _NoLock()
    f = open(LEAN / ".build.lock", "w")
    fcntl.flock(f, fcntl.LOCK_EX)
    return f


class hold_build_lock:
    """Hold the build lock across translate -> build -> audit, so that a concurrent run against another tree
    (VERIF_REPO) cannot swap the generated Lean files in between."""

    def __enter__(self):
        global _HELD
        self.f = open(LEAN / ".build.lock", "w")
        fcntl.flock(self.f, fcntl.LOCK_EX)
        _HELD = self.f
        return self

    def __exit__(self, *a):
        global _HELD
        _HELD = None
        self.f.close()


def lean_build(targets, timeout=3000):
    """lake build the given targets (serialised by a file lock). -> (ok, log)"""
    lk = _lock()
    try:
        p = subprocess.run(["lake", "build", *targets], cwd=LEAN, capture_output=True, text=True,
                           timeout=timeout)
        log = p.stdout + p.stderr
        return p.returncode == 0, log
    finally:
        lk.close()


def write_if_changed(path: Path, text: str) -> bool:
    path.parent.mkdir(parents=True, exist_ok=True)
    if path.exists() and path.read_text() == text:
        return False
    path.write_text(text)
    return True


def strip_comments(src: str) -> str:
    # remove /- ... -/ (nested) and -- comments
    out = []
    depth = 0
    i = 0
    n = len(src)
    while i < n:
        if src.startswith("/-", i):
            depth += 1
            i += 2
        elif depth and src.startswith("-/", i):
            depth -= 1
            i += 2
        elif depth:
            if src[i] == "\n":
                out.append("\n")
            i += 1
        elif src.startswith("--", i):
            while i < n and src[i] != "\n":
                i += 1
        else:
            out.append(src[i])
            i += 1
    return "".join(out)


def theorem_names(proof_file: Path):
    """qualified names of all theorems declared in a Proofs/CXX.lean file"""
    src = strip_comments(proof_file.read_text())
    ns = []
    names = []
    for line in src.splitlines():
        m = re.match(r"\s*namespace\s+(\S+)", line)
        if m:
            ns.append(m.group(1))
            continue
        m = re.match(r"\s*end\s+(\S+)\s*$", line)
        if m and ns and ns[-1] == m.group(1):
            ns.pop()
            continue
        m = re.match(r"\s*(?:@\[[^\]]*\]\s*)?(?:private\s+|protected\s+)?theorem\s+(\S+)", line)
        if m:
            names.append(".".join(ns + [m.group(1)]))
    return names


def lean_sources_for(modules):
    """transitive closure of Abverif.* imports of the given modules -> list of files"""
    seen = {}
    todo = list(modules)
    while todo:
        m = todo.pop()
        if m in seen or not (m.startswith("Abverif") or m == "Driver"):
            continue
        f = LEAN / (m.replace(".", "/") + ".lean")
        if not f.exists():
            continue
        seen[m] = f
        for line in f.read_text().splitlines():
            mm = re.match(r"\s*import\s+(\S+)", line)
            if mm:
                todo.append(mm.group(1))
    return seen


def forbidden_scan(modules):
    hits = []
    for m, f in lean_sources_for(modules).items():
        src = strip_comments(f.read_text())
        for ln, line in enumerate(src.splitlines(), 1):
            if FORBIDDEN.search(line):
                hits.append(f"{f.relative_to(LEAN)}:{ln}: {line.strip()[:100]}")
    return hits


def audit_axioms(prop, proof_modules, timeout=1200):
    """#print axioms on every theorem of the property's proof modules.
    -> (theorems: dict name -> list of axioms, problems: list of str)"""
    names = []
    for m in proof_modules:
        names += theorem_names(LEAN / (m.replace(".", "/") + ".lean"))
    lines = [f"import {m}" for m in proof_modules]
    lines += [f"#print axioms {n}" for n in names]
    af = LEAN / "Abverif" / "Audit" / f"{prop}.lean"
    write_if_changed(af, "\n".join(lines) + "\n")
    lk = _lock()
    try:
        p = subprocess.run(["lake", "env", "lean", str(af)], cwd=LEAN, capture_output=True, text=True,
                           timeout=timeout)
    finally:
        lk.close()
    out = p.stdout + p.stderr
    res = {}
    problems = []
    flat = re.sub(r"\s+", " ", out)
    for n in names:
        m = re.search(r"'" + re.escape(n) + r"' depends on axioms: \[([^\]]*)\]", flat)
        if m:
            ax = [a.strip() for a in m.group(1).split(",") if a.strip()]
            res[n] = ax
            bad = [a for a in ax if a not in ALLOWED_AXIOMS]
            if bad:
                problems.append(f"{n}: disallowed axioms {bad}")
        elif re.search(r"'" + re.escape(n) + r"' does not depend on any axioms", flat):
            res[n] = []
        else:
            problems.append(f"{n}: no axiom report (theorem missing or audit failed)")
    if p.returncode != 0 and not problems:
        problems.append("audit run failed: " + out[-400:])
    return res, problems


class Driver:
    """batch interface to the compiled line-protocol driver"""

    def __init__(self):
        self.bin = DRIVER_BIN

    def run(self, lines, timeout=1800, shards=None):
        """answers in the order of the requests; large batches are split over several driver processes"""
        if not lines:
            return []
        if shards is None:
            shards = 8 if len(lines) >= 256 else 1
        if shards > 1:
            from concurrent.futures import ThreadPoolExecutor
            k = (len(lines) + shards - 1) // shards
            parts = [lines[i:i + k] for i in range(0, len(lines), k)]
            with ThreadPoolExecutor(max_workers=len(parts)) as ex:
                outs = list(ex.map(lambda part: self.run(part, timeout=timeout, shards=1), parts))
            return [x for o in outs for x in o]
        data = ("\n".join(lines) + "\n").encode()

        def big_stack():
            # the models are structurally recursive over octet lists: very long messages need more than the default stack
            import resource
            soft, hard = resource.getrlimit(resource.RLIMIT_STACK)
            want = 16 * 1024 ** 3
            new = want if hard == resource.RLIM_INFINITY else min(want, hard)
            try:
                resource.setrlimit(resource.RLIMIT_STACK, (new, hard))
            except (ValueError, OSError):
                pass
        p = subprocess.run([str(self.bin)], input=data, capture_output=True, timeout=timeout, preexec_fn=big_stack)
        if p.returncode != 0:
            raise RuntimeError("driver failed: " + p.stderr.decode()[-400:])
        out = p.stdout.decode().split("\n")
        if out and out[-1] == "":
            out.pop()
        if len(out) != len(lines):
            raise RuntimeError(f"driver answered {len(out)} lines for {len(lines)} requests")
        return out


# ----------------------------------------------------------------------------- NVX rebuild

def build_nvx(dest: Path, which=("utf8validator", "xormasker"), extra_cdef=None):
    """compile /repo's NVX C sources with cffi into dest; returns dict name -> module path dir.
    Internal (non-public) entry points can be added to the cdef so that they can be called directly:
    extra_cdef = {"utf8validator": "int _nvx_utf8vld_validate_table (void*, const uint8_t*, size_t);"}"""
    code = r'''
import sys, os, re
from cffi import FFI
src_dir, dest, which = sys.argv[1], sys.argv[2], sys.argv[3].split(",")
CDEF = {
 "utf8validator": """
    void* nvx_utf8vld_new ();
    void nvx_utf8vld_reset (void* utf8vld);
    int nvx_utf8vld_validate (void* utf8vld, const uint8_t* data, size_t length);
    void nvx_utf8vld_free (void* utf8vld);
    int nvx_utf8vld_set_impl(void* utf8vld, int impl);
    int nvx_utf8vld_get_impl(void* utf8vld);
    size_t nvx_utf8vld_get_current_index (void* utf8vld);
    size_t nvx_utf8vld_get_total_index (void* utf8vld);
 """,
 "xormasker": """
    void* nvx_xormask_new (const uint8_t* mask);
    void nvx_xormask_reset (void* xormask);
    size_t nvx_xormask_pointer (void* xormask);
    void nvx_xormask_process (void* xormask, uint8_t* data, size_t length);
    void nvx_xormask_free (void* xormask);
    int nvx_xormask_set_impl(void* xormask, int impl);
    int nvx_xormask_get_impl(void* xormask);
 """,
}
import json
EXTRA = json.loads(sys.argv[4]) if len(sys.argv) > 4 else {}
for w in which:
    ffi = FFI()
    ffi.cdef(CDEF[w] + EXTRA.get(w, ""))
    with open(os.path.join(src_dir, "_%s.c" % w)) as fd:
        c = fd.read()
    ffi.set_source("_nvx_%s" % w, c, libraries=[], extra_compile_args=["-std=c99", "-O2", "-march=x86-64-v2"])
    ffi.compile(tmpdir=dest, verbose=False)
'''
    dest.mkdir(parents=True, exist_ok=True)
    p = subprocess.run([PY, "-c", code, str(SRC / "nvx"), str(dest), ",".join(which), json.dumps(extra_cdef or {})],
                       capture_output=True, text=True, cwd="/")
    if p.returncode != 0:
        raise RuntimeError("NVX rebuild failed:\n" + p.stdout[-2000:] + p.stderr[-2000:])
    return dest


# ----------------------------------------------------------------------------- results

class Violation:
    def __init__(self, key, what, replay, confirmed=True):
        self.key = key            # canonical key (matched against known_findings.jsonl)
        self.what = what          # one line
        self.replay = replay      # JSON-able dict: the concrete failing input / history
        self.confirmed = confirmed  # a concrete failing input exists


class Result:
    """what a property harness returns"""

    def __init__(self):
        self.violations = []          # list[Violation]
        self.correspondence_breaks = []  # list of dicts (model != impl, property observables equal)
        self.evaluations = 0
        self.distinct = set()
        self.samples = []
        self.distribution = {}
        self.rule = ""
        self.exhaustive = False
        self.traces_validated = 0
        self.notes = []
        self.assumptions = []

    def count(self, key, n=1):
        self.distribution[key] = self.distribution.get(key, 0) + n

    def sample(self, s, cap=6):
        if len(self.samples) < cap:
            self.samples.append(s)


def load_known():
    out = []
    files = [VERIF / "known_findings.jsonl"] + sorted((VERIF / "known_findings.d").glob("*.jsonl"))
    for f in files:
        if f.exists():
            for line in f.read_text().splitlines():
                line = line.strip()
                if line and not line.startswith("#"):
                    out.append(json.loads(line))
    return out


def sha(s):
    return hashlib.sha256(s if isinstance(s, bytes) else s.encode()).hexdigest()


def run_py(script, args=(), env=None, timeout=3600, cwd="/"):
    """run a harness worker under the repo's interpreter, with /repo/src first on sys.path"""
    e = dict(os.environ)
    e["PYTHONPATH"] = os.pathsep.join([str(REPO / "src"), str(VERIF)] + ([e["PYTHONPATH"]] if e.get("PYTHONPATH") else []))
    e.setdefault("PYTHONHASHSEED", "0")
    e["AUTOBAHN_VERIF"] = "1"
    if env:
        e.update(env)
    return subprocess.run([PY, str(script), *map(str, args)], env=e, capture_output=True, text=True,
                          timeout=timeout, cwd=cwd)
