"""WVal tokens: the whitespace-free one-token encoding of deserialized WAMP values used on the driver's line
protocol (lean/Abverif/Model/WValCodec.lean).  Pure stdlib; used by harnesses (python3) and workers (/venv python).

  n t f | i-12 | ~1.5~ | "a\\u0020b" | <6162> | [v,v] | {"k":v} | {!"k":v} (dict with non-str keys) | @Type:1-;
"""


class Float:
    """a float carried as its repr"""
    __slots__ = ("r",)

    def __init__(self, r):
        self.r = r

    def __eq__(self, o):
        return isinstance(o, Float) and o.r == self.r

    def __hash__(self):
        return hash(("F", self.r))

    def __repr__(self):
        return "Float(%s)" % self.r


class NSDict:
    """a dict that has non-str keys; only the str-keyed part is kept"""
    __slots__ = ("d",)

    def __init__(self, d):
        self.d = d

    def __eq__(self, o):
        return isinstance(o, NSDict) and o.d == self.d

    def __repr__(self):
        return "NSDict(%r)" % (self.d,)


class Other:
    """any other object: type name + truthiness + whether it compares equal to True ('t') / False ('f') / neither ('-')"""
    __slots__ = ("ty", "truthy", "eqb")

    def __init__(self, ty, truthy, eqb="-"):
        self.ty, self.truthy, self.eqb = ty, bool(truthy), eqb

    def __eq__(self, o):
        if isinstance(o, Other):
            return (o.ty, o.truthy, o.eqb) == (self.ty, self.truthy, self.eqb)
        if o is True:
            return self.eqb == "t"
        if o is False:
            return self.eqb == "f"
        return False

    def __hash__(self):
        return hash((self.ty, self.truthy, self.eqb))

    def __bool__(self):
        return self.truthy

    def __repr__(self):
        return "Other(%s,%s,%s)" % (self.ty, self.truthy, self.eqb)


def _esc(s):
    out = ['"']
    for c in s:
        o = ord(c)
        if c == '"':
            out.append('\\"')
        elif c == "\\":
            out.append("\\\\")
        elif 0x21 <= o <= 0x7E:
            out.append(c)
        elif o < 0x10000:
            out.append("\\u%04x" % o)
        else:
            out.append("\\U%08x" % o)
    out.append('"')
    return "".join(out)


def has_surrogate(v):
    """True if a str with a lone surrogate occurs anywhere (not representable as Lean `Char`)"""
    if isinstance(v, str):
        return any(0xD800 <= ord(c) <= 0xDFFF for c in v)
    if isinstance(v, (list, tuple)):
        return any(has_surrogate(x) for x in v)
    if isinstance(v, dict):
        return any(has_surrogate(k) or has_surrogate(x) for k, x in v.items())
    if isinstance(v, NSDict):
        return has_surrogate(v.d)
    return False


def enc(v, sort=False):
    """Python value (or canonical value produced by `dec`) -> token"""
    if v is None:
        return "n"
    if v is True:
        return "t"
    if v is False:
        return "f"
    t = type(v)
    if t is int:
        return "i%d" % v
    if t is float:
        return "~%s~" % repr(v)
    if t is Float:
        return "~%s~" % v.r
    if t is str:
        return _esc(v)
    if t in (bytes, bytearray, memoryview):
        return "<%s>" % bytes(v).hex()
    if t is list:
        return "[" + ",".join(enc(x, sort) for x in v) + "]"
    if t is dict:
        items = [(k, x) for k, x in v.items() if type(k) is str]
        ns = len(items) != len(v)
        if sort:
            items.sort(key=lambda kv: kv[0])
        body = ",".join(_esc(k) + ":" + enc(x, sort) for k, x in items)
        return ("{!" if ns else "{") + body + "}"
    if t is NSDict:
        items = list(v.d.items())
        if sort:
            items.sort(key=lambda kv: kv[0])
        return "{!" + ",".join(_esc(k) + ":" + enc(x, sort) for k, x in items) + "}"
    if t is Other:
        return "@%s:%d%s;" % (v.ty, 1 if v.truthy else 0, v.eqb)
    try:
        truthy = bool(v)
    except Exception:
        truthy = True
    try:
        eqb = "t" if v == True else ("f" if v == False else "-")  # noqa: E712 - Python's `in [True, False]` semantics
    except Exception:
        eqb = "-"
    name = "".join(c for c in t.__name__ if c.isalnum() or c == "_") or "obj"
    return "@%s:%d%s;" % (name, 1 if truthy else 0, eqb)


def dec(tok):
    """token -> canonical Python value (Float / NSDict / Other wrappers)"""
    v, i = _dec(tok, 0)
    if i != len(tok):
        raise ValueError("trailing input in token at %d" % i)
    return v


def _dec_str(s, i):
    # s[i] == '"'
    i += 1
    out = []
    while True:
        c = s[i]
        if c == '"':
            return "".join(out), i + 1
        if c == "\\":
            d = s[i + 1]
            if d == "u":
                out.append(chr(int(s[i + 2:i + 6], 16)))
                i += 6
            elif d == "U":
                out.append(chr(int(s[i + 2:i + 10], 16)))
                i += 10
            else:
                out.append(d)
                i += 2
        else:
            out.append(c)
            i += 1


def _dec(s, i):
    c = s[i]
    if c == "n":
        return None, i + 1
    if c == "t":
        return True, i + 1
    if c == "f":
        return False, i + 1
    if c == "i":
        j = i + 1
        if s[j] == "-":
            j += 1
        while j < len(s) and s[j].isdigit():
            j += 1
        return int(s[i + 1:j]), j
    if c == "~":
        j = s.index("~", i + 1)
        return Float(s[i + 1:j]), j + 1
    if c == '"':
        return _dec_str(s, i)
    if c == "<":
        j = s.index(">", i)
        return bytes.fromhex(s[i + 1:j]), j + 1
    if c == "@":
        j = s.index(":", i)
        return Other(s[i + 1:j], s[j + 1] == "1", s[j + 2]), j + 4
    if c == "[":
        i += 1
        out = []
        if s[i] == "]":
            return out, i + 1
        while True:
            v, i = _dec(s, i)
            out.append(v)
            if s[i] == "]":
                return out, i + 1
            assert s[i] == ","
            i += 1
    if c == "{":
        i += 1
        ns = False
        if s[i] == "!":
            ns = True
            i += 1
        d = {}
        if s[i] == "}":
            return (NSDict(d) if ns else d), i + 1
        while True:
            k, i = _dec_str(s, i)
            assert s[i] == ":"
            v, i = _dec(s, i + 1)
            d[k] = v
            if s[i] == "}":
                return (NSDict(d) if ns else d), i + 1
            assert s[i] == ","
            i += 1
    raise ValueError("bad token at %d: %r" % (i, s[i:i + 20]))


def canon(tok):
    """canonical token: dict keys sorted"""
    return enc(dec(tok), sort=True)


def to_py(v):
    """canonical value -> real Python objects to hand to the code under verification"""
    if isinstance(v, Float):
        return float(v.r)
    if isinstance(v, NSDict):
        d = {k: to_py(x) for k, x in v.d.items()}
        d[0] = None
        return d
    if isinstance(v, Other):
        return v
    if isinstance(v, list):
        return [to_py(x) for x in v]
    if isinstance(v, dict):
        return {k: to_py(x) for k, x in v.items()}
    return v
