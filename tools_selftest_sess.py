#!/usr/bin/env python3
"""Self-test of the WAMP session checks C04, C06, C10, C11 (not a registered check): applies realistic single-edit
mutations to a scratch copy of /repo/src (never to /repo), runs `VERIF_REPO=<copy> ./check CNN --tier quick` for each
and records exit code, violation keys and one replay. Harmless rewrites must stay silent (exit 0).

usage: python3 tools_selftest_sess.py [name ...]      (afterwards the generated Lean files are restored from /repo)
"""
import json
import os
import re
import shutil
import subprocess
import sys
import tempfile
import time
from pathlib import Path

V = Path(__file__).resolve().parent
P = "src/autobahn/wamp/protocol.py"
WS = "src/autobahn/wamp/websocket.py"
RA = "src/autobahn/asyncio/rawsocket.py"


def sub(path, old, new, nth=0):
    """replace the nth (0-based) occurrence of `old`"""
    def f(root):
        p = root / path
        s = p.read_text()
        idx = [m.start() for m in re.finditer(re.escape(old), s)]
        if len(idx) <= nth:
            raise SystemExit(f"mutation anchor not found in {path}: {old!r} (occurrence {nth})")
        i = idx[nth]
        p.write_text(s[:i] + new + s[i + len(old):])
    return f


def seq(*fs):
    def f(root):
        for g in fs:
            g(root)
    return f


MUTATIONS = {
    # ---- C06
    "c06-m1-no-onLeave-on-transport-loss": ("C06", sub(P, "        if self._session_id:\n            # fire callback and close the transport\n            details = types.CloseDetails(\n                reason=types.CloseDetails.REASON_TRANSPORT_LOST",
                                                        "        if False:\n            # fire callback and close the transport\n            details = types.CloseDetails(\n                reason=types.CloseDetails.REASON_TRANSPORT_LOST")),
    "c06-m2-goodbye-echoed-when-initiator": ("C06", sub(P, "                if not self._goodbye_sent:\n                    # the peer wants to close: send GOODBYE reply",
                                                          "                if True:\n                    # the peer wants to close: send GOODBYE reply")),
    "c06-m3-pending-not-failed-at-end": ("C06", sub(P, "            if not txaio.is_called(request.on_reply):\n                txaio.reject(request.on_reply, exc)",
                                                     "            if False:\n                txaio.reject(request.on_reply, exc)")),
    "c06-m4-pre-session-message-accepted": ("C06", sub(P, "                raise ProtocolError(\n                    f\"Received {msg.__class__} message, and session is not yet established\"\n                )",
                                                        "                pass")),
    "c06-m5-leave-sends-goodbye-again": ("C06", sub(P, "        if not self._goodbye_sent:\n            if not reason:", "        if True:\n            if not reason:")),
    "c06-m6-call-without-transport-not-guarded": ("C06", sub(P, "        if not self._transport:\n            raise exception.TransportLost()", "        if False:\n            raise exception.TransportLost()", nth=3)),
    "c06-m7-handshake-message-in-session-ignored": ("C06", sub(P, "                raise ProtocolError(f\"Unexpected message {msg.__class__}\")", "                pass")),
    "c06-h1-harmless-leave-reason-default-first": ("C06", sub(P, "        if not self._goodbye_sent:\n            if not reason:\n                reason = \"wamp.close.normal\"\n",
                                                            "        if not reason:\n            reason = \"wamp.close.normal\"\n        if not self._goodbye_sent:\n")),
    "c06-h2-harmless-errback-loop-over-copy": ("C06", sub(P, "        for request in outstanding:\n            self.log.debug(", "        for request in list(outstanding):\n            self.log.debug(")),
    # ---- C10
    "c10-n1-yield-sent-twice": ("C10", sub(P, "                                try:\n                                    self._transport.send(reply)\n                                except SerializationError as e:\n                                    # the application-level payload returned from the invoked procedure can't be serialized\n                                    error_reply",
                                           "                                try:\n                                    self._transport.send(reply)\n                                    self._transport.send(reply)\n                                except SerializationError as e:\n                                    # the application-level payload returned from the invoked procedure can't be serialized\n                                    error_reply")),
    "c10-n2-no-error-when-endpoint-raises": ("C10", sub(P, "                                try:\n                                    self._transport.send(reply)\n                                except SerializationError as e:\n                                    # the application-level payload returned from the invoked procedure can't be serialized\n                                    reply = message.Error(",
                                                         "                                try:\n                                    pass\n                                except SerializationError as e:\n                                    # the application-level payload returned from the invoked procedure can't be serialized\n                                    reply = message.Error(")),
    "c10-n3-progress-although-not-requested": ("C10", sub(P, "                                if msg.receive_progress:", "                                if True:")),
    "c10-n4-interrupt-ignored": ("C10", sub(P, "                    txaio.cancel(invoked.on_reply)", "                    pass")),
    "c10-n5-details-injected-although-not-requested": ("C10", seq(
        sub(P, "                            if endpoint.details_arg:\n                                if msg.receive_progress:", "                            if True:\n                                if msg.receive_progress:"),
        sub(P, "                                invoke_kwargs[endpoint.details_arg] = types.CallDetails(", "                                invoke_kwargs[endpoint.details_arg or \"details\"] = types.CallDetails("))),
    "c10-n6-duplicate-invocation-id-accepted": ("C10", sub(P, "                if msg.request in self._invocations:\n                    raise ProtocolError(", "                if False:\n                    raise ProtocolError(")),
    "c10-n7-no-fallback-for-serialization-error": ("C10", sub(P, "                                    self._transport.send(error_reply)\n                                except PayloadExceededError as e:", "                                    pass\n                                except PayloadExceededError as e:")),
    "c10-n8-websocket-send-lets-serializer-exception-through": ("C10", sub(WS, "            except Exception as e:\n                self.log.error(f\"WAMP message serialization error: {e}\")", "            except SerializationError as e:\n                self.log.error(f\"WAMP message serialization error: {e}\")")),
    "c10-n9-f14-reintroduced-asyncio-rawsocket-valueerror": ("C10", sub(RA, "raise PayloadExceededError(", "raise ValueError(")),
    "c10-h1-harmless-reply-built-in-two-steps": ("C10", sub(P, "                                        reply = message.Yield(msg.request, args=[res])", "                                        _args = [res]\n                                        reply = message.Yield(msg.request, args=_args)")),
    # ---- C04 / C11: the repaired defects must be reported again when they come back
    "c04-f10-reintroduced": ("C04", seq(sub(P, "                                            *args,\n                                            callee=msg.callee,", "                                            *msg.args,\n                                            callee=msg.callee,"),
                                        sub(P, "                                            **kw,\n                                        ),\n                                    )\n                                else:\n                                    prog_d", "                                            **msg.kwargs,\n                                        ),\n                                    )\n                                else:\n                                    prog_d"))),
    "c04-m1-published-get-instead-of-pop": ("C04", sub(P, "publish_request = self._publish_reqs.pop(msg.request)", "publish_request = self._publish_reqs.get(msg.request)")),
    "c11-f8-reintroduced": ("C11", sub(P, "invoke_kwargs = dict(msg.kwargs) if msg.kwargs else dict()", "invoke_kwargs = msg.kwargs if msg.kwargs else dict()")),
    "c11-f9-reintroduced": ("C11", seq(sub(P, "for subscription in list(self._subscriptions[msg.subscription]):", "for subscription in self._subscriptions[msg.subscription]:"),
                                       sub(P, "                        if not subscription.active:\n                            # unsubscribed by an earlier handler of this very event\n                            continue\n", ""))),
    "c11-m6-reversed-dispatch": ("C11", sub(P, "for subscription in list(self._subscriptions[msg.subscription]):", "for subscription in reversed(list(self._subscriptions[msg.subscription])):")),
}


def run(name):
    prop, mut = MUTATIONS[name]
    tmp = Path(tempfile.mkdtemp(prefix="selftest_sess_"))
    try:
        shutil.copytree("/repo/src", tmp / "src", ignore=shutil.ignore_patterns("*.so", "__pycache__"))
        mut(tmp)
        env = dict(os.environ, VERIF_REPO=str(tmp), VERIF_SEED="0")
        t0 = time.time()
        p = subprocess.run([str(V / "check"), prop, "--tier", "quick"], env=env, capture_output=True, text=True, cwd=str(V))
        out = p.stdout + p.stderr
        viol = re.findall(r"VIOLATION property=\S+ replay=(\S+)(.*)", out)
        keys, replay = [], None
        for path, rest in viol:
            try:
                j = json.loads(Path(path).read_text())
                keys.append(j.get("key") or j.get("kind"))
                if replay is None:
                    r = j.get("replay", j)
                    if "script" in r:
                        replay = " ".join(r["script"])
                    elif "no_longer_checks" in j:
                        c = j["no_longer_checks"][0]
                        replay = c["kind"] + ": " + json.dumps(c.get("detail"))[:300]
            except Exception as e:  # noqa: BLE001
                keys.append("?" + str(e))
        return {"name": name, "property": prop, "exit": p.returncode, "keys": keys[:6], "n_violations": len(viol),
                "replay": replay, "wall_s": round(time.time() - t0, 1)}
    finally:
        shutil.rmtree(tmp, ignore_errors=True)


def main():
    names = sys.argv[1:] or list(MUTATIONS)
    res = []
    for n in names:
        r = run(n)
        res.append(r)
        print(json.dumps(r), flush=True)
    # restore the generated files from the real tree
    subprocess.run([sys.executable, str(V / "tools_setup.py")], capture_output=True)
    bad = [r for r in res if ("-h" in r["name"].split("-")[1][:1]) != (r["exit"] == 0) and "-h" in r["name"]]
    print("done;", sum(1 for r in res if r["exit"] == 1), "detected,", sum(1 for r in res if r["exit"] == 0), "silent")


if __name__ == "__main__":
    main()
